"""Per-property run parameters (no adaptix import here: the driver reads this)."""

COMMON_ASSUMPTIONS = [
    "CPython 3.12.1 at /venv/bin/python; adaptix imported from /repo/src (asserted by every worker)",
    "verdict covers only the executions explored; generators are seeded by VERIF_SEED and bounded as stated in rule",
]


def _m(rule, cases, budget, shards=(8, 16), minimums=None, assumptions=(), level="exploration", exhaustive=None):
    return {
        "rule": rule,
        "cases": {"quick": cases[0], "thorough": cases[1]},
        "budget_s": {"quick": budget[0], "thorough": budget[1]},
        "shards": {"quick": shards[0], "thorough": shards[1]},
        "minimums": minimums or {},
        "assumptions": COMMON_ASSUMPTIONS + list(assumptions),
        "level": level,
        "exhaustive": exhaustive or {},
    }


META = {
    "C02": _m(
        "one case = one random type expression of the non-model grammar (depth<=3 quick / 4 thorough) x (3 valid values, their reference dumps, "
        "<=10 type-directed mutants, 22 hostile-pool data) x 6 modes; each load is compared with the 3-valued reference of the documentation, "
        "each dump with the documented outer form. distinct = (type source, datum, mode); non-trivial = reference verdict is A or R (not "
        "unspecified) and the type is nested or the datum is rejected",
        cases=(45, 900), budget=(45, 420),
        minimums={"quick": {"evaluations": 20000, "distinct_nontrivial": 8000, "programs": 200, "verdict_R": 5000, "verdict_A": 1500, "dumps": 1500}},
        assumptions=["reference model vlib/spec.py is a faithful reading of docs/loading-and-dumping/specific-types-behavior.rst; "
                     "where the docs are silent the reference answers UNSPECIFIED and the case is only counted"],
    ),
    "C04": _m(
        "one case = one random type (depth<=2) under 0-2 extra container levels x (valid data, <=16 type-directed mutants, 48 hostile-pool data placed at "
        "the inner position and at the outer shape) x 6 modes; plus, on every run, the full scalar table and 16 container/literal/union shapes x the whole "
        "hostile pool. Oracle: the class of every escaping exception (must be a LoadError tree with LoadError leaves). distinct = (type, datum, mode); "
        "non-trivial = the load raised",
        cases=(40, 900), budget=(45, 420),
        minimums={"quick": {"evaluations": 30000, "distinct_nontrivial": 10000, "programs": 200}},
        assumptions=["hostile pool excludes user objects whose own dunder methods raise (user-supplied code is carved out by the statement) and nesting deeper than 60"],
    ),
    "C06": _m(
        "one case = one random type x (valid, mutant, hostile data) x 2 coercion modes; the DISABLE/FIRST/ALL programs are run on the same datum and "
        "compared: success agreement, strict equality of results, and class+input_value correspondence of the single error with a node of the ALL tree "
        "(modulo list/tuple materialisation); dumping of valid and ill-typed objects likewise. distinct = (type, datum, coercion mode); non-trivial = some mode raised or the type is nested",
        cases=(45, 900), budget=(45, 420),
        minimums={"quick": {"triples": 8000, "failing_triples": 3000, "distinct_nontrivial": 4000}},
    ),
    "C07": _m(
        "one case = one random type x (valid, mutant, hostile data) x 3 debug modes; the strict and lax programs are run on the same datum: strict acceptance must imply "
        "lax acceptance with a strictly equal value (unless the reference says lax rules make union/literal cases overlap); strict acceptance of a datum outside the "
        "documented allowed strict origins is flagged. distinct = (type, datum, debug mode); non-trivial = strict accepted or only lax accepted",
        cases=(45, 900), budget=(45, 420),
        minimums={"quick": {"pairs": 10000, "strict_ok": 1500, "lax_only": 500, "distinct_nontrivial": 2000}},
    ),
    "C01": _m(
        "one case = one random type of the grammar x 6 generated values (boundary-biased) x 6 modes x {direct, json} legs; load(dump(x)) must be type-strictly equal to x. "
        "The reference model polices the domain (the dumped datum must have exactly one reading in that mode, i.e. union cases do not overlap for it). "
        "distinct = (type, value, mode, leg); non-trivial = type is nested and the dump rebuilt the value",
        cases=(60, 1200), budget=(45, 420),
        minimums={"quick": {"evaluations": 8000, "distinct_nontrivial": 2000, "programs": 300, "leg_json": 1500}},
    ),
}
