"""Per-property run parameters (no adaptix import here: the driver reads this)."""

COMMON_ASSUMPTIONS = [
    "CPython 3.12.1 at /venv/bin/python; adaptix imported from /repo/src (asserted by every worker)",
    "verdict covers only the executions explored; generators are seeded by VERIF_SEED and bounded as stated in rule",
]


def _m(rule, cases, budget, shards=(8, 16), minimums=None, assumptions=(), level="exploration", exhaustive=None):
    return {
        "rule": rule,
        "cases": {"quick": cases[0], "thorough": cases[1]},
        # wall-clock caps are generous on purpose: the case count is the primary bound, the cap only protects against runaway runs
        "budget_s": {"quick": budget[0] * 6, "thorough": budget[1] * 4},
        "shards": {"quick": shards[0], "thorough": shards[1]},
        # minimum counters are sized at ~1/3 of what a seed-0 run observes on a fast machine
        "minimums": {t: {k: max(1, v // 3) for k, v in m.items()} for t, m in (minimums or {}).items()},
        "assumptions": COMMON_ASSUMPTIONS + list(assumptions),
        "level": level,
        "exhaustive": exhaustive or {},
    }


META = {
    "C02": _m(
        "one case = one random type expression of the non-model grammar (depth<=3 quick / 4 thorough) x (3 valid values, their reference dumps, "
        "<=10 type-directed mutants, 22 hostile-pool data) x 6 modes; each load is compared with the 3-valued reference of the documentation, "
        "each dump with the documented outer form. distinct = (type source, datum, mode); non-trivial = reference verdict is A or R (not "
        "unspecified) and the type is nested or the datum is rejected",
        cases=(90, 900), budget=(45, 420),
        minimums={"quick": {"evaluations": 20000, "distinct_nontrivial": 8000, "programs": 200, "verdict_R": 5000, "verdict_A": 1500, "dumps": 1500}},
        assumptions=["reference model vlib/spec.py is a faithful reading of docs/loading-and-dumping/specific-types-behavior.rst; "
                     "where the docs are silent the reference answers UNSPECIFIED and the case is only counted"],
    ),
    "C04": _m(
        "one case = one random type (depth<=2) under 0-2 extra container levels x (valid data, <=16 type-directed mutants, 48 hostile-pool data placed at "
        "the inner position and at the outer shape) x 6 modes; plus, on every run, the full scalar table and 16 container/literal/union shapes x the whole "
        "hostile pool. Oracle: the class of every escaping exception (must be a LoadError tree with LoadError leaves). distinct = (type, datum, mode); "
        "non-trivial = the load raised",
        cases=(40, 900), budget=(45, 420),
        minimums={"quick": {"evaluations": 30000, "distinct_nontrivial": 10000, "programs": 200}},
        assumptions=["hostile pool excludes user objects whose own dunder methods raise (user-supplied code is carved out by the statement) and nesting deeper than 60"],
    ),
    "C06": _m(
        "one case = one random type x (valid, mutant, hostile data) x 2 coercion modes; the DISABLE/FIRST/ALL programs are run on the same datum and "
        "compared: success agreement, strict equality of results, and class+input_value correspondence of the single error with a node of the ALL tree "
        "(modulo list/tuple materialisation); dumping of valid and ill-typed objects likewise. distinct = (type, datum, coercion mode); non-trivial = some mode raised or the type is nested",
        cases=(80, 900), budget=(45, 420),
        minimums={"quick": {"triples": 8000, "failing_triples": 3000, "distinct_nontrivial": 4000}},
    ),
    "C07": _m(
        "one case = one random type x (valid, mutant, hostile data) x 3 debug modes; the strict and lax programs are run on the same datum: strict acceptance must imply "
        "lax acceptance with a strictly equal value (unless the reference says lax rules make union/literal cases overlap); strict acceptance of a datum outside the "
        "documented allowed strict origins is flagged. distinct = (type, datum, debug mode); non-trivial = strict accepted or only lax accepted",
        cases=(80, 900), budget=(45, 420),
        minimums={"quick": {"pairs": 10000, "strict_ok": 1500, "lax_only": 500, "distinct_nontrivial": 2000}},
    ),
    "C01": _m(
        "one case = one random type of the grammar x 6 generated values (boundary-biased) x 6 modes x {direct, json} legs; load(dump(x)) must be type-strictly equal to x. "
        "The reference model polices the domain (the dumped datum must have exactly one reading in that mode, i.e. union cases do not overlap for it). "
        "distinct = (type, value, mode, leg); non-trivial = type is nested and the dump rebuilt the value",
        cases=(100, 1200), budget=(45, 420),
        minimums={"quick": {"evaluations": 8000, "distinct_nontrivial": 2000, "programs": 300, "leg_json": 1500}},
    ),
    "C03": _m(
        "one case = one generated program: a model (1-6 fields, required/default/factory, dataclass/NamedTuple/attrs/TypedDict/pydantic) x a recipe of 1-3 stacked "
        "name_mapping providers with random subsets of map (dict / (pred, result) / (pred, callable); renames, nested paths, list indices, ellipsis, None), name_style "
        "(16), trim_trailing_underscore, skip, only, as_list, omit_default (bool / predicates), extra_in (skip, forbid, target field, saturator), extra_out (skip, field, "
        "extractor), valid by construction; run in 2 (every 4th case: 6) modes on inputs derived from the reference dump: full, each mapped key absent / ill-typed, each "
        "branch node replaced by 6 wrong kinds, extra keys at root and nested nodes, extra list items, other mapping kinds. Compared with the reference layout model "
        "(vlib/layout.py). distinct = (program, input, mode); non-trivial = reference verdict is not unspecified",
        cases=(80, 800), budget=(50, 420),
        minimums={"quick": {"programs": 200, "dumps": 400, "expected_ok": 800, "expected_reject": 2000, "opt_map": 100, "opt_name_style": 100, "opt_omit_default": 80,
                            "opt_extra_in": 60, "opt_skip": 40, "opt_only": 30, "opt_as_list": 15, "distinct_nontrivial": 3000}},
        assumptions=["reference layout model vlib/layout.py (DESIGN.md appendix B); empty branch nodes after sieving are compared modulo pruning; "
                     "collection of unknown keys below the root and non-Mapping objects with .get are UNSPECIFIED"],
    ),
    "C05": _m(
        "one case = one nested type (depth 2-4) mixing list/tuple-var/Sequence, Dict[str|int, .], fixed tuples, models of 5 kinds with default layouts and with "
        "name_mapping layouts (renames, nested paths, list indices, name_style, as_list, ExtraForbid), Optional/Union leaves; a valid outer datum is corrupted at every "
        "independent subset of <=4 planted positions (exhaustive when <=6 positions, else all singles + 40 sampled subsets; capped per case) with fault kinds wrong-type, "
        "wrong-container, missing-key, unknown-key, extra-item, missing-item, bad-dict-key, union; loaded in 3 debug x 2 coercion modes. Oracle: planted positions vs. "
        "absolute trails (ALL: equal multisets, every trail followable in the input; FIRST: one planted trail, no group; DISABLE: no trail). distinct = (type, datum, mode); "
        "non-trivial = a fault below depth 1",
        cases=(8, 300), budget=(50, 420),
        minimums={"quick": {"evaluations": 6000, "distinct_nontrivial": 3000, "input_value_checks": 2400, "faults_2": 800, "faults_3": 200, "fault_wrong-type": 1000, "fault_missing-key": 500,
                            "fault_wrong-container": 500, "fault_extra-item": 100, "fault_unknown-key": 100, "fault_union": 100, "shape_model_custom_layout": 30}},
        assumptions=["missing keys of one dict node are expected as ONE NoRequiredFieldsLoadError at that node (likewise unknown keys under ExtraForbid); "
                     "a length / container fault makes its node a leaf; unions are leaves (one UnionLoadError at their trail)"],
    ),
    "C09": _m(
        "provider alphabet = 12 predicate forms (exact type, other exact type, abstract class, runtime protocol, field id, regex, P[Model].field, negation, ANY, "
        "ANY&~type, model, parametrised generic) x 4 handler kinds (plain, Chain.FIRST, Chain.LAST, declining) = 48 providers; EXHAUSTIVE over all recipes of length <= 2 "
        "(quick; <= 3 thorough) x 5 request types (str, int, List[str], Dict[str,str], a model with 3 fields => 9 request sites); random recipes of length 3-8 through "
        "plain / extend() / replace() / class-level recipes along a retort-subclass MRO / retort-inside-recipe; dumper chains; bound(Model, inner retort). Two oracles: the "
        "router trace monitor checks every route_handler call against linear first-match over the original checkers (consulted-twice, not-first-match, early stop), and "
        "marker loaders with call logs are compared with a reference interpreter of the chain of responsibility. distinct = (variant, recipe, request); non-trivial = "
        ">= 2 providers in the recipe",
        cases=(60, 1500), budget=(50, 420),
        minimums={"quick": {"recipes_x_requests": 8000, "router_routes": 100000, "exhaustive_recipes": 2000, "variant_extend": 50, "variant_subclass": 20,
                            "variant_inner-retort": 20, "dumper_chains": 200, "distinct_nontrivial": 8000}},
        exhaustive={"quick": False, "thorough": False},
        assumptions=["reference interpreter models strict coercion with the first error aborting (retorts are run with DebugTrail.DISABLE)",
                     "router monitor wraps OperatingRetort._create_router / BasicRequestBus._send_inner / *Router.route_handler from the harness; its own call counts are asserted (router_routes)"],
    ),
    "C10": _m(
        "EXHAUSTIVE sweep: universe of 15 predicate atoms (concrete class, subclass, ABC, runtime protocol, int, list, bare List, NewType, List[int], Optional[int], "
        "identifier strings, regex strings, re.Pattern) -> all expressions of nesting <= 1 (quick: 711 + all 19^2 two-element P chains + 600 sampled three-element chains; "
        "thorough: nesting <= 2 and all 19^3 chains), each spelled either with raw checker algebra or with P algebra, x location stacks over 13 types x 7 location forms "
        "(91 locations): all depth-1, 900 sampled (thorough: all 8281) depth-2, 400 (3000) depth-3 stacks; documented identities and pointwise-combinator laws compared as whole "
        "truth tables; integration leg with marker loaders on nested models (10 predicates x 8 field sites); random expressions of nesting 3 on stacks of depth <= 5 beyond. "
        "evaluations = (expression, stack) pairs judged; distinct = expression (each judged on the whole stack set); non-trivial = not a bare atom",
        cases=(40, 400), budget=(50, 420),
        minimums={"quick": {"evaluations": 1500000, "expressions": 1500, "identity_tables": 150, "integration_preds": 10, "distinct_nontrivial": 1400}},
        exhaustive={"quick": True, "thorough": True},
        assumptions=["reference evaluator uses typing introspection only (no normalize_type); stacks are built with adaptix's own location classes (the observation point named by the property)"],
    ),
    "C11": _m(
        "pool of 65 mutually confusable facade requests (Literal[0,1] / Literal[False,True] / permutations / >4 members / IntEnum literals, inside Optional, List and "
        "model fields; List/list/Sequence/Iterable of int and bool; unions in different orders and nestings; equal-shaped models, NewType and Annotated of each; generic "
        "model with different arguments; recursive and mutually recursive models reached through different outer types; unsupported types that fail; dumpers of the same) "
        "each with 1-10 valid and invalid probe data. EXHAUSTIVE over ordered pairs 'A then probe B' (default configuration; every 4th pair in 4 configurations), random "
        "histories of length 2-12 beyond; warmed retort vs. freshly constructed equal retort with normalize_type's LRU cleared; extend()/replace() immutability of the "
        "original and of loaders obtained earlier; ConversionRetort histories; thorough: >128 hints to force LRU eviction. distinct = (history, probe, configuration); "
        "non-trivial = non-empty history (shared call-cache hits are counted by the cache monitor)",
        cases=(50, 1500), budget=(50, 420),
        minimums={"quick": {"faults_injected": 300, "faulted_requests_that_died": 200, "histories": 4000, "ordered_pairs": 4000, "history_cache_hits": 2000, "immutability_checks": 300, "conversion_histories": 100, "distinct_nontrivial": 4000}},
        exhaustive={"quick": False, "thorough": False},
        assumptions=["outcome = type-strict value or (exception class, structural error signature)", "cache monitor wraps BuiltinMediator.cached_call from the harness; zero hits make the run inconclusive"],
    ),
    "C12": _m(
        "9 scenarios of 2-3 threads issuing first-use calls on ONE retort (same self-recursive model; mutually recursive models from different ends; List[Node] vs Node; "
        "loader vs dumper; generic recursive; non-recursive; two dumpers; ConversionRetort.get_converter; three threads), each thread body = get_loader/get_dumper/"
        "get_converter + an immediate deep call. Schedules come from a deterministic scheduler at statement (LINE) granularity inside the retort's lookup/creation/caching "
        "files: (i) single-preemption sweep - thread X runs to in-scope point k, the other runs to completion, X resumes - for EVERY point of both threads of the two recursive "
        "scenarios (quick; all two-thread scenarios thorough) and a stride over the others; (ii) sampled two-preemption schedules; (iii) PCT-style schedules with 2-4 "
        "priority change points; (iv) uniform random switching with p in {0.002, 0.01, 0.05}; a free-running 8-thread stress leg. Oracle: per-call comparison with a "
        "single-threaded run on a fresh retort + re-probing every obtained callable after quiescence. distinct = (scenario, switch-point sequence); non-trivial = >= 1 context switch",
        cases=(40, 2500), budget=(55, 420),
        minimums={"quick": {"schedules": 1500, "schedules_with_switch": 1200, "context_switches": 1500, "distinct_nontrivial": 1000, "line_events": 1000000}},
        assumptions=["interleavings are explored at statement granularity inside morphing/facade/retort.py, retort/{searching_retort,builtin_mediator,operating_retort,request_bus,base_retort}.py, "
                     "conversion/facade/retort.py; providers and generated code run atomically between two in-scope lines; code_tools/compiler.py (the only lock) is outside the yield scope",
                     "a watchdog firing (20 s without completion) is reported as no-progress"],
    ),
    "C08": _m(
        "one case = one instrumented model (dataclass with __post_init__, NamedTuple, attrs with validators and __attrs_post_init__, plain __init__ class and "
        "constructor(pred, func) with positional-only / positional-or-keyword / keyword-only parameters) with 0-2 required and 1-4 optional fields whose defaults come "
        "from a pool built to defeat literal inlining (Decimal/Fraction/complex/IntEnum/str-enum values equal to 0, 1, '', singletons, nan, range/slice, bytes, nested "
        "tuples/frozensets, user objects, mutable lists/dicts/sets/bytearrays) or from 12 counting factories; every subset of optional fields present (<= 8 per program), "
        "optionally with a skipped middle parameter, loaded twice in 2 (thorough: 6) modes. Oracle: constructor call log (exactly one call, one post-init, all validators), "
        "signature binding of the logged call, field-wise type-strict equality with the model's own construction from the present fields, factory call counts and "
        "non-sharing of factory results; plus on every run the whole default pool x 4 kinds. distinct = (model, present subset, mode, repetition); non-trivial = >= 1 optional field absent",
        cases=(80, 800), budget=(50, 420),
        minimums={"quick": {"programs": 250, "loads": 6000, "constructor_calls_logged": 6000, "distinct_nontrivial": 2500, "kind_func": 20, "kind_init": 40, "pkind_po": 20, "pkind_ko": 100}},
        assumptions=["adaptix may pass the default explicitly for absent fields: the oracle judges the resulting object and the binding, not which arguments are omitted"],
    ),
    "C14": _m(
        "EXHAUSTIVE over ordered pairs of a pool of 51 field types (scalars incl. bool/int subclassing, same origin with different arguments, fixed / variadic / empty tuples, "
        "abstract and concrete iterables, dicts, optionals and unions with 2-3 cases containing them, models incl. a subclass model and a generic model with different "
        "arguments, NewType, Annotated, Literal) as the type of the same-named field of a source and a destination model (2601 pairs; thorough: also inside List, "
        "Optional and Dict values = 10404; quick samples the wrappers) + 6 link-policy cases + random sequences of allow_unlinked_optional / forbid_unlinked_optional over 14 predicates split between the "
        "per-call and the retort's recipe (first matching policy per unlinked optional field, default forbid, nested and factory fields). Oracle: produced => inside the documented relation (reference `coercible`) and "
        "witness values conform to the destination at run time; refused => ProviderNotFoundError. Completeness is counted, not asserted. distinct = (S, D, wrapper); non-trivial = S is not D",
        cases=(20, 40), budget=(50, 420),
        minimums={"quick": {"pairs": 4000, "produced": 150, "refused": 3000, "witness_conversions": 150, "policy_cases": 6, "policy_order_allowed": 100, "policy_order_refused": 150, "distinct_nontrivial": 3000}},
        exhaustive={"quick": True, "thorough": True},
        assumptions=["reference relation = docs/conversion/tutorial.rst 'Type coercion' (type equality via an independent structural description of hints)"],
    ),
    "C13": _m(
        "one case = a generated pair of models (source kinds dataclass/NamedTuple/attrs/TypedDict/pydantic x destination kinds + plain __init__ class; 2-5 fields; nested "
        "pairs to depth 2 reached as plain / List / Optional / Dict values) related by dropping, renaming, re-typing (custom coercer via link(coercer=) or coercer()), and "
        "adding fields fed by link_constant(value / factory), link_function (model + ctx parameters + keyword-only model fields), extra converter parameters (same-named at "
        "top level, from_param at any level) or allow_unlinked_optional defaults; the recipe realises the plan in shuffled order with decoys (later competing links / "
        "constants that must lose; a same-named top-level parameter that must win over the source field but must not leak into nested models); built through "
        "impl_converter / get_converter / ConversionRetort (+ per-call recipe=); executed on 3 source values. Oracle: evaluation of the plan (type-strict, field-wise), "
        "source snapshot unchanged, stub signature and name preserved; + 12 directed linking-rule cases. distinct = (pair, source value, api); every case is non-trivial",
        cases=(100, 1500), budget=(50, 420),
        minimums={"quick": {"programs": 400, "conversions": 1000, "link_rename": 300, "link_function": 50, "link_constant_value": 80, "link_from_param": 40, "decoy_later_link": 40,
                            "parameter_shadows_source_field": 30, "directed_cases": 12, "distinct_nontrivial": 1000}},
        assumptions=["predicates inside conversion recipes are restricted to field ids, P[Model].field and from_param (their meaning is trivial)",
                     "TypedDict sources always carry every key (an absent NotRequired key has no value to link: outside the statement's domain)"],
    ),
    "C15": _m(
        "one case = 25 random type expressions (leaves int/str/bool/float/bytes/Decimal/None, Literal sets over 0/1/False/True/str/bytes/None, unions of 2-4 members, "
        "13 generic forms incl. user generics with unbounded / bound / constrained TypeVars; depth <= 3), each spelled plainly and twice through random meaning-preserving "
        "rewrites (reorder / nest / duplicate union members, | syntax, Optional <-> Union[X, None], typing alias <-> builtin or collections.abc generic, bare <-> documented "
        "implicit parameters, split / reorder literal unions, None <-> Literal[None]) and once with a single meaning-changing edit (leaf type, Literal[0] <-> Literal[False], "
        "literal member added / removed, union member added, generic argument changed). Oracle: an independent canonical form decides which pairs mean the same; normal forms "
        "must be equal + hash-equal + idempotent for equivalent pairs (every third pair: loaders, dumpers and predicates compared on 45 data), different for edited pairs; "
        "+ 25 directed documented equivalences / inequalities. distinct = (hint a, hint b); non-trivial = the two spellings differ",
        cases=(40, 1200), budget=(50, 420),
        minimums={"quick": {"equivalent_pairs": 9000, "different_pairs": 3000, "behaviour_comparisons": 3000, "distinct_nontrivial": 6000, "rule_reorder-union": 300, "rule_pipe-syntax": 300,
                            "rule_split-literal-union": 200, "rule_typing-alias<->builtin-generic": 500, "rule_edit-Literal[0]<->Literal[False]": 100, "rule_Optional<->Union[X,None]": 50}},
        assumptions=["the meaning of an expression is decided by vlib/props/c15.canon (flattened, de-duplicated unions; literal members by (type, value); Literal[None] = None)"],
    ),
    "C16": _m(
        "one case = one symbolically generated generic class hierarchy (dataclass / attrs / TypedDict: single class, 2- and 3-level chains with partial binding, "
        "re-ordering, nesting of type variables inside arguments, shadowing, members overridden by re-annotation, diamonds; NamedTuple: single generic class; arity 1-3; "
        "unbounded, bound and constrained TypeVars; member annotations T, List[T], Dict[str, T], Optional[T], Tuple[T, U] to depth 2) x (bare use + 4 random parametrisations "
        "from a pool of 6 pairwise-disjoint types) x (conforming datum, its dump, and for every field a datum fitting only another substitution). The closed type of every "
        "field comes from plain substitution on the generator's AST. distinct = (hierarchy source, parametrisation, datum kind, field); non-trivial = >= 2 classes or >= 2 type variables, or a non-conforming datum",
        cases=(100, 1500), budget=(50, 420),
        minimums={"quick": {"hierarchies": 400, "conforming_loads": 1200, "nonconforming_loads": 2500, "dumps": 1200, "feature_diamond": 20, "feature_partial_binding": 80,
                            "feature_bare_use": 200, "feature_overridden_member": 30, "feature_bound_or_constrained_typevar": 30, "distinct_nontrivial": 2500}},
        assumptions=["pool types are pairwise disjoint under strict coercion on JSON data (int, str, bool, List[int], Dict[str, str], None), so rejection identifies the substitution"],
    ),
    "C17": _m(
        "one case = one logical model (1-6 fields of portable types int/str/bool/float/List/Optional/Dict[str, .], value and factory defaults) materialised as dataclass, "
        "NamedTuple, TypedDict, attrs, pydantic, SQLAlchemy (+ a plain __init__ class for loading) x one recipe (default / name_style / map renames / skip of an optional "
        "field) x inputs (full, optional absent, extra key; ill-typed fields, missing required key, non-mapping, two faults) x dumps x converters between 8 sampled "
        "(thorough: all 30) ordered kind pairs. Oracle: six-way differential on field-wise views, dumped data and error signatures (class names + trails); documented "
        "per-kind limitations are capabilities (no constructor-time defaults for TypedDict / SQLAlchemy, pydantic's own validation). distinct = (logical model, recipe, "
        "input, kind); non-trivial = a kind other than the reference kind",
        cases=(40, 800), budget=(50, 420),
        minimums={"quick": {"logical_models": 250, "loads": 4000, "bad_loads": 5000, "dumps": 1200, "converters": 1500, "converters_with_unlinked_optional": 400, "distinct_nontrivial": 8000}},
        assumptions=["kinds are compared with each other, not with a reference model; a defect shared by all kinds is invisible here (C03/C08 cover it)"],
    ),
    "C18": _m(
        "one case = one generated class: Enum (int / str / mixed / tuple / unhashable / float-bool values, IntEnum, str mixin, aliases; 2-5 members) under "
        "enum_by_exact_value, enum_by_name (5 name styles x map none / by name / by member) and enum_by_value, or Flag / IntFlag (1-6 bits; with and without a zero member, "
        "compound and multi-bit-only members, aliases) under flag_by_exact_value and flag_by_member_names with 10 sampled (thorough: all 96) points of the option cube "
        "(allow_single_value x allow_duplicates x allow_compound x 4 name styles x 3 map forms); EVERY member and EVERY constructible flag combination is dumped and reloaded; "
        "candidate data (all dumps, case / spelling neighbours, wrong types, out-of-range ints, duplicates, unknown names, unhashables, mappings, single strings) must be accepted "
        "exactly when they are representations and rejected with LoadError otherwise (==-look-alikes are unspecified); documented refusals for skipped / negative bits. "
        "distinct = (class, provider configuration, member or candidate, mode)",
        cases=(80, 600), budget=(50, 420),
        minimums={"quick": {"enum_classes": 120, "flag_classes": 120, "enum_roundtrips": 1500, "flag_roundtrips": 20000, "enum_candidates": 20000, "flag_candidates": 40000,
                            "flag_option_combinations": 1000, "documented_refusals": 2, "distinct_nontrivial": 30000}},
        assumptions=["bits that exist only inside a multi-bit member cannot be named with allow_compound=False: those combinations are outside the bijection's domain for that configuration"],
    ),
    "C19": _m(
        "one case = 6 model programs (1-5 fields whose ids come from a dictionary of ~150 hostile identifiers: every local of the generated functions, the generators' "
        "prefixes, builtins, keyword+underscore, soft keywords, dunder-ish, non-ASCII / NFKC-unstable, 300 characters; mapped through name_mapping to keys from ~85 hostile "
        "strings: quotes, backslashes, braces, %, $, newlines / CR / FF / NUL / surrogates / unicode line separators, #, triple quotes, injection payloads that would create "
        "a canary file or import a canary module; plain, nested and shared-branch paths; omit_default, ExtraForbid; one of 3 debug modes) each paired with a benign twin of "
        "the same shape + 2 TypedDict programs (keyword / non-identifier keys) + 4 converter programs (hostile class names, get_converter(name=), impl_converter stub names, "
        "link_function names, hostile field ids). Dictionary entries unused so far in the shard are preferred (every entry is used). Oracles: behaviour (dump = expected "
        "layout, load(dump(x)) == x, unknown-key policy), AST isomorphism of hostile vs. benign generated sources, tracked payloads only inside string constants / "
        "comments, audit-hook canary (exec, compile, import, open, os.system, subprocess) while the generated functions run. distinct = program descriptor",
        cases=(30, 900), budget=(50, 420),
        minimums={"quick": {"programs": 2500, "sources_compared": 1500, "sources_captured": 4000, "audit_selftests": 8, "audit_events_seen_while_armed": 1, "dictionary_ids_used": 600,
                            "dictionary_keys_used": 400, "converter_class-names": 100, "converter_stub-name": 100, "typeddict_keyword": 60, "distinct_nontrivial": 2500}},
        assumptions=["the generated-source monitor wraps BasicClosureCompiler._compile from the harness; the audit hook's own self-test must pass or the run is inconclusive",
                     "field ids are legal Python identifiers (dataclass) or arbitrary TypedDict keys; class and function names are arbitrary strings (type() accepts them)"],
    ),
    "C20": _m(
        "one case = 3 grammar programs (random types incl. models, one random mode; inputs: the reference dump as dict / OrderedDict / mappingproxy / UserDict / defaultdict / "
        "ChainMap / deque / tuple, with and without a missing key) + 2 name_mapping layout programs (C03 generator: nested paths, lists, extras collected into fields / "
        "saturators, extra_out fields, omit_default; inputs with extra keys holding nested mutable values) + 1 converter program (C13 generator, nested / list / dict / "
        "optional coercions). Every call is made twice on the same argument and once more after mutating the first result. Oracles: deep snapshot of the argument before / "
        "after, type-strict equality of repeated calls, id-graph disjointness of every mutable container between results and between result and argument outside documented "
        "as-is positions (Any / object; for converters only objects the plan says adaptix builds), snapshot of result 2 and of a third call after mutating result 1. "
        "distinct = (kind of call, program, input variant); non-trivial = the result contains a mutable container",
        cases=(80, 1200), budget=(50, 420),
        minimums={"quick": {"load_call_pairs": 3000, "dump_call_pairs": 800, "convert_call_pairs": 250, "layout_programs": 400, "distinct_nontrivial": 2500}},
        assumptions=["sharing at Any / object positions (incl. values inside collected extras) is documented and allowed; frozen / immutable values are not tracked"],
    ),
}
