"""Suite leg (thorough tier): adaptix's own test-suite run as a workload under the universal monitors of vlib/suite_plugin.py.

Called as a DIRECTED witness by the checks of C08, C09, C13, C15, C19 and C20; in the quick tier it only counts itself as skipped.
The pytest process is a child of the worker: its verdicts come back as JSON and are fed into the worker's context like any other
oracle evaluation (counters prefixed suite_, one fingerprint per distinct monitored input, violations with their own keys)."""
from __future__ import annotations

import json
import os
import subprocess
import sys
import tempfile


def make(prop):
    def run(ctx):
        if ctx.tier != "thorough":
            ctx.count("suite_leg_skipped_in_quick_tier")
            return
        repo = os.environ.get("VERIF_REPO", "/repo")
        verif = os.path.dirname(os.path.dirname(os.path.abspath(__file__)))
        fd, out = tempfile.mkstemp(prefix=f"vlib_suite_{prop}_", suffix=".json", dir="/var/tmp")
        os.close(fd)
        env = dict(os.environ, VLIB_SUITE_PROP=prop, VLIB_SUITE_OUT=out, PYTHONHASHSEED="0",
                   PYTHONPATH=os.pathsep.join([os.path.join(repo, "src"), os.path.join(repo, "tests", "tests_helpers"), verif]))
        try:
            proc = subprocess.run([sys.executable, "-B", "-m", "pytest", "-q", "-x", "-p", "no:cacheprovider", "-p", "vlib.suite_plugin", "tests"],
                                  cwd=repo, env=env, capture_output=True, text=True, timeout=1500, check=False)
            try:
                with open(out) as f:
                    res = json.load(f)
            except Exception:  # noqa: BLE001
                ctx.count("suite_leg_no_result")
                ctx.violation("suite-leg-did-not-finish", f"pytest under monitors gave no result file (rc={proc.returncode}): {proc.stdout[-600:]} {proc.stderr[-400:]}", {})
                return
        except subprocess.TimeoutExpired:
            ctx.count("watchdog_fired")
            ctx.count("suite_leg_timeout")
            return
        finally:
            try:
                os.unlink(out)
            except FileNotFoundError:
                pass
        if not res["adaptix_file"].startswith(os.path.realpath(repo) + os.sep):
            ctx.violation("suite-leg-wrong-tree", f"adaptix imported from {res['adaptix_file']}, not from {repo}", {})
            return
        for k, v in res["counters"].items():
            ctx.count(f"suite_{k}", v)
        ctx.count("suite_leg_runs")
        for fp in res["fps"]:
            ctx.evaluated(("suite", prop, fp), nontrivial=True)
        for smp in res["samples"][:3]:
            ctx.sample({"suite_leg": smp}, force=True)
        if res["exitstatus"] != 0 or res["counters"].get("tests_failed"):
            # the monitors are transparent wrappers: a failing test means the tree fails its own suite (or a wrapper perturbed it)
            ctx.violation("suite-leg-tests-failed", f"adaptix's own suite failed under the monitors: exit {res['exitstatus']}, {proc.stdout[-500:]}", {})
        for v in res["violations"]:
            ctx.violation(f"suite:{v['key']}", v["what"], v.get("detail"))
    return run
