"""Shared workload builder for the non-model grammar: one case = one generated type, its 6 loaders and
dumpers, and a bag of data factories (valid values, reference dumps, type-directed mutants, hostile pool)."""
from __future__ import annotations

import copy

from adaptix import ProviderNotFoundError

from . import hostile, spec
from .adx import MODES, make_retort, mode_name

ONE_SHOT = {"iter([1,2])", "generator", "iter-of-pairs"}


class Program:
    """A type node + the loaders/dumpers adaptix generated for it in every mode."""

    def __init__(self, node, recipe=()):
        self.node = node
        self.loaders = {}
        self.dumpers = {}
        self.creation_errors = {}
        for dt, sc in MODES:
            r = make_retort(dt, sc, recipe)
            try:
                self.loaders[dt, sc] = r.get_loader(node.hint)
            except Exception as e:  # noqa: BLE001
                self.creation_errors["loader", dt, sc] = e
            try:
                self.dumpers[dt, sc] = r.get_dumper(node.hint)
            except Exception as e:  # noqa: BLE001
                self.creation_errors["dumper", dt, sc] = e


def data_bag(rng, node, n_valid=3, n_mut=10, n_pool=22, with_values=True):
    """List of (label, factory, is_one_shot). Factories return a fresh datum on every call."""
    bag = []
    values = []
    for i in range(n_valid):
        try:
            x = node.gen(rng)
            d = node.dump(x)
        except LookupError:
            continue
        values.append(x)
        bag.append((f"dump#{i}", (lambda d=d: copy.deepcopy(d)), _stateful(d)))
        if with_values and not _has_huge_iterable(x):
            bag.append((f"value#{i}", (lambda x=x: _copy(x)), _stateful(x)))
    if values:
        try:
            d0 = node.dump(values[0])
            if hostile.json_like(d0):
                for label, fac in hostile.mutants(rng, d0, n_mut):
                    bag.append((label, fac, _stateful(fac())))
        except LookupError:
            pass
    for label, fac in rng.sample(hostile.POOL, min(n_pool, len(hostile.POOL))):
        bag.append((label, fac, label in ONE_SHOT or _stateful(fac())))
    return values, bag


def _stateful(x, depth=0):
    """Data that one load changes, so that the next load of the same object sees something else: iterators, file-like objects
    (iterating a BytesIO moves its position) and defaultdicts (the known C20 finding: a missing required key gets inserted).
    Such data are given afresh to every mode (thorough-tier false alarms C06 success-disagreement:*:BytesIO / :defaultdict)."""
    import collections  # noqa: PLC0415
    import collections.abc as cabc  # noqa: PLC0415
    import io  # noqa: PLC0415

    if isinstance(x, (cabc.Iterator, io.IOBase, collections.defaultdict)):
        return True
    if depth > 6:
        return False
    if isinstance(x, (dict, collections.UserDict)):
        return any(_stateful(k, depth + 1) or _stateful(v, depth + 1) for k, v in x.items())
    if isinstance(x, (list, tuple, set, frozenset, collections.deque, collections.UserList)):
        return any(_stateful(v, depth + 1) for v in x)
    from .eq import model_fields  # noqa: PLC0415

    fields = model_fields(x)
    return bool(fields) and any(_stateful(v, depth + 1) for v in fields.values())


def _has_huge_iterable(x, depth=0):
    """ipaddress networks iterate over up to 2**128 addresses: as *data* for an iterable loader they never end."""
    import ipaddress  # noqa: PLC0415

    if isinstance(x, ipaddress._BaseNetwork):  # noqa: SLF001
        return True
    if depth > 6:
        return False
    if isinstance(x, dict):
        return any(_has_huge_iterable(k, depth + 1) or _has_huge_iterable(v, depth + 1) for k, v in x.items())
    if isinstance(x, (list, tuple, set, frozenset)) or type(x).__name__ == "deque":
        return any(_has_huge_iterable(v, depth + 1) for v in x)
    return False


def _copy(x):
    try:
        return copy.deepcopy(x)
    except Exception:  # noqa: BLE001
        return x


def gen_node(rng, tier, max_depth=None, with_models=False):
    if max_depth is None:
        max_depth = 3 if tier == "quick" else 4
    depth = rng.choice(range(max_depth + 1))
    if with_models:
        from . import models  # noqa: F401, PLC0415  (installs spec.MODEL_HOOK)
    return spec.gen_type(rng, depth, with_models=with_models)


def is_provider_not_found(e):
    return isinstance(e, ProviderNotFoundError)


__all__ = ["MODES", "Program", "data_bag", "gen_node", "mode_name", "is_provider_not_found", "ONE_SHOT"]
