"""pytest plugin: adaptix's own test-suite as a *workload* under universal monitors ("suite leg", thorough tier).

The repository's 2500+ tests drive a far wider variety of recipes, model kinds and library integrations than any generator of
ours; they assert their own expectations, the monitors installed here assert *ours* on every call the tests happen to make:

 C08 / C13  every literal rendering `get_literal_expr(obj)` that adaptix pastes into generated code evaluates back to an object
            type-strictly equal to `obj` (defaults and linked constants arrive unchanged)
 C09        every route taken by every request router built during the tests is the first matching provider at or after the
            search position (vlib.monitors.router)
 C15        every normal form is a fixed point: normalising the source of a normal form or of any of its arguments gives an equal
            form with an equal hash
 C19        every name the sanitizer returns is an identifier and no keyword; every source text handed to the closure compiler
            binds each function name once per scope
 C20        `Retort.load` / `Retort.dump` leave their argument unchanged (snapshot before / after, also when they raise)

Loaded with `-p vlib.suite_plugin`; selected by VLIB_SUITE_PROP, result JSON written to VLIB_SUITE_OUT.  The wrappers are
transparent (same results, same exceptions); the leg also reports the suite's own outcome so that a perturbing wrapper shows.
"""
from __future__ import annotations

import ast
import builtins
import hashlib
import json
import keyword
import os
import sys
import traceback
from collections import Counter

PROP = os.environ.get("VLIB_SUITE_PROP", "")
OUT = os.environ.get("VLIB_SUITE_OUT", "")
COUNTERS = Counter()
VIOLATIONS = []
FPS = set()
SAMPLES = []
CURRENT = {"test": None}
_BUSY = {"on": False}


def fp(*parts):
    FPS.add(int.from_bytes(hashlib.blake2b(repr(parts).encode("utf-8", "backslashreplace"), digest_size=8).digest(), "little"))


def violation(key, what, detail=None):
    COUNTERS["violations_raw"] += 1
    if sum(1 for v in VIOLATIONS if v["key"] == key) >= 5:
        return
    VIOLATIONS.append({"key": key, "what": str(what)[:600], "detail": {"test": CURRENT["test"], **(detail or {})}})


def rebind(orig, new):
    """`from m import f` bindings made before we got here still point at the original: replace them in every adaptix module."""
    n = 0
    for name, mod in list(sys.modules.items()):
        if mod is None or not (name == "adaptix" or name.startswith("adaptix.")):
            continue
        for attr, val in list(vars(mod).items()):
            if val is orig:
                setattr(mod, attr, new)
                n += 1
    return n


# ---------------------------------------------------------------------------------------------------
def install_literal_monitor():
    from adaptix._internal.code_tools import utils

    from vlib.eq import strict_eq

    orig = utils.get_literal_expr

    def get_literal_expr(obj):
        expr = orig(obj)
        if _BUSY["on"]:
            return expr
        _BUSY["on"] = True
        try:
            COUNTERS["literal_calls"] += 1
            if expr is None:
                COUNTERS["literal_not_renderable"] += 1
                return expr
            COUNTERS["literal_rendered"] += 1
            fp("lit", type(obj).__name__, expr[:200])
            if len(SAMPLES) < 4:
                SAMPLES.append({"monitor": "literal", "obj": repr(obj)[:120], "expr": expr[:120], "test": CURRENT["test"]})
            try:
                back = eval(expr, {"__builtins__": builtins})  # noqa: S307
            except Exception as e:  # noqa: BLE001
                violation(f"literal-does-not-evaluate:{type(obj).__name__}", f"get_literal_expr({obj!r}) = {expr!r} does not evaluate: {e!r}")
                return expr
            if not (strict_eq(back, obj) and strict_eq(obj, back)):
                violation(f"literal-look-alike:{type(obj).__name__}->{type(back).__name__}",
                          f"get_literal_expr({obj!r}) = {expr!r} evaluates to {back!r} ({type(back).__name__}), not to the object itself")
            return expr
        finally:
            _BUSY["on"] = False

    utils.get_literal_expr = get_literal_expr
    COUNTERS["rebound_get_literal_expr"] = rebind(orig, get_literal_expr)


def install_sanitizer_monitor():
    from adaptix._internal.code_tools import compiler, name_sanitizer

    orig = name_sanitizer.BuiltinNameSanitizer.sanitize

    def sanitize(self, name):
        out = orig(self, name)
        COUNTERS["sanitize_calls"] += 1
        fp("san", name[:100])
        if len(SAMPLES) < 2:
            SAMPLES.append({"monitor": "sanitizer", "in": name[:80], "out": out[:80], "test": CURRENT["test"]})
        if not (isinstance(out, str) and out.isidentifier() and not keyword.iskeyword(out)):
            violation("sanitizer-returns-non-identifier", f"sanitize({name!r}) = {out!r}")
        return out

    name_sanitizer.BuiltinNameSanitizer.sanitize = sanitize

    orig_compile = compiler.BasicClosureCompiler._compile  # noqa: SLF001

    def _compile(self, source, unique_filename, namespace):
        COUNTERS["sources_compiled"] += 1
        fp("src", hashlib.blake2b(source.encode("utf-8", "backslashreplace"), digest_size=8).hexdigest())
        try:
            tree = ast.parse(source)
        except SyntaxError as e:
            violation("generated-source-does-not-parse", f"{unique_filename}: {e!r}", {"source": source[:1500]})
            return orig_compile(self, source, unique_filename, namespace)
        # a function that is defined twice in one scope, or whose name is also one of its own parameters / a captured object it
        # calls, is a collision of generated names (defects #39 / #40 looked like that)
        for scope in ast.walk(tree):
            if isinstance(scope, (ast.Module, ast.FunctionDef)):
                names = [n.name for n in scope.body if isinstance(n, ast.FunctionDef)]
                dup = {n for n in names if names.count(n) > 1}
                if dup:
                    violation("generated-names-collide:function-defined-twice", f"{unique_filename}: {sorted(dup)}", {"source": source[:1500]})
            if isinstance(scope, ast.FunctionDef):
                params = {a.arg for a in (*scope.args.posonlyargs, *scope.args.args, *scope.args.kwonlyargs)}
                inner = {n.name for n in scope.body if isinstance(n, ast.FunctionDef)}
                assigned_globals = {t.id for n in scope.body if isinstance(n, ast.Assign) and isinstance(n.value, ast.Name)   # `x = g_x`; `x = None` reserves a slot
                                    for t in n.targets if isinstance(t, ast.Name)}
                clash = inner & (params | assigned_globals)
                if clash:
                    violation("generated-names-collide:function-vs-captured-name", f"{unique_filename}: {sorted(clash)}", {"source": source[:1500]})
        return orig_compile(self, source, unique_filename, namespace)

    compiler.BasicClosureCompiler._compile = _compile  # noqa: SLF001


def install_normalize_monitor():
    import adaptix._internal.type_tools.normalize_type  # noqa: F401
    from adaptix._internal.type_tools.normalize_type import BaseNormType

    nt_mod = sys.modules["adaptix._internal.type_tools.normalize_type"]   # the package attribute of that name is the function

    orig = nt_mod.normalize_type

    def check_fixed_point(norm, depth=0):
        try:
            again = orig(norm.source)
        except Exception:  # noqa: BLE001
            COUNTERS["normalize_source_not_renormalisable"] += 1   # forward references need the module namespace, type vars their owner
            return
        COUNTERS["normalize_fixed_point_checks"] += 1
        try:
            same = again == norm and hash(again) == hash(norm)
        except Exception:  # noqa: BLE001
            COUNTERS["normalize_uncomparable"] += 1
            return
        if not same:
            violation("normal-form-not-a-fixed-point", f"normalize_type({norm.source!r}) = {again!r} differs from the form it is the source of: {norm!r}")
        if depth < 4:
            for arg in getattr(norm, "args", ()):
                if isinstance(arg, BaseNormType):
                    check_fixed_point(arg, depth + 1)
                elif isinstance(arg, tuple):
                    for a in arg:
                        if isinstance(a, BaseNormType):
                            check_fixed_point(a, depth + 1)

    def normalize_type(tp):
        norm = orig(tp)
        if _BUSY["on"]:
            return norm
        _BUSY["on"] = True
        try:
            COUNTERS["normalize_calls"] += 1
            try:
                key = repr(tp)[:300]
            except Exception:  # noqa: BLE001
                key = str(id(tp))
            if ("n", key) not in _SEEN:
                _SEEN.add(("n", key))
                fp("norm", key)
                if len(SAMPLES) < 4:
                    SAMPLES.append({"monitor": "normalize", "hint": key[:120], "test": CURRENT["test"]})
                check_fixed_point(norm)
            return norm
        finally:
            _BUSY["on"] = False

    nt_mod.normalize_type = normalize_type
    COUNTERS["rebound_normalize_type"] = rebind(orig, normalize_type)


_SEEN = set()


def install_router_monitor():
    from vlib.monitors import router

    router.install()


def install_purity_monitor():
    from adaptix._internal.morphing.facade import retort as fr

    from vlib.eq import freeze

    def wrap(cls, name):
        orig = getattr(cls, name)

        def method(self, data, *args, **kwargs):
            try:
                before = freeze(data)
            except Exception:  # noqa: BLE001
                COUNTERS["purity_unfreezable"] += 1
                return orig(self, data, *args, **kwargs)
            try:
                return orig(self, data, *args, **kwargs)
            finally:
                COUNTERS[f"purity_{name}_calls"] += 1
                try:
                    after = freeze(data)
                    changed = after != before
                except Exception:  # noqa: BLE001
                    changed = False
                    COUNTERS["purity_unfreezable"] += 1
                fp("pure", name, repr(before)[:300])
                if len(SAMPLES) < 4:
                    SAMPLES.append({"monitor": "purity", "call": name, "argument": repr(data)[:120], "test": CURRENT["test"]})
                if changed:
                    violation(f"argument-mutated:{name}:{type(data).__name__}", f"Retort.{name} changed its argument: before {before!r:.300} after {after!r:.300}")

        method.__name__ = name
        method.__qualname__ = orig.__qualname__
        method.__doc__ = orig.__doc__
        setattr(cls, name, method)

    wrap(fr.AdornedRetort, "load")
    wrap(fr.AdornedRetort, "dump")

    # most tests obtain the callable first (get_loader / get_dumper / converters): the same snapshot around every call of it;
    # one wrapper per produced callable, so that `retort.get_loader(tp) is retort.get_loader(tp)` keeps holding
    wrappers = {}

    def guard(fn, what):
        key = id(fn)
        if key in wrappers and wrappers[key][0] is fn:
            return wrappers[key][1]

        def guarded(data, *args, **kwargs):
            try:
                before = freeze(data)
            except Exception:  # noqa: BLE001
                COUNTERS["purity_unfreezable"] += 1
                return fn(data, *args, **kwargs)
            try:
                return fn(data, *args, **kwargs)
            finally:
                COUNTERS[f"purity_{what}_calls"] += 1
                try:
                    after = freeze(data)
                    changed = after != before
                except Exception:  # noqa: BLE001
                    changed = False
                fp("pure", what, repr(before)[:300])
                if changed:
                    violation(f"argument-mutated:{what}:{type(data).__name__}", f"{what} changed its argument: before {before!r:.300} after {after!r:.300}")
        for attr in ("__name__", "__qualname__", "__doc__", "__module__", "__wrapped__"):
            try:
                setattr(guarded, attr, getattr(fn, attr))
            except AttributeError:
                pass
        wrappers[key] = (fn, guarded)
        return guarded

    for name, what in (("get_loader", "obtained_loader"), ("get_dumper", "obtained_dumper")):
        orig_get = getattr(fr.AdornedRetort, name)

        def getter(self, tp, _orig=orig_get, _what=what):
            return guard(_orig(self, tp), _what)
        getter.__name__ = name
        setattr(fr.AdornedRetort, name, getter)


MONITORS = {
    "C08": [install_literal_monitor], "C13": [install_literal_monitor], "C09": [install_router_monitor], "C15": [install_normalize_monitor],
    "C19": [install_sanitizer_monitor], "C20": [install_purity_monitor],
}


def pytest_configure(config):
    import adaptix  # noqa: F401  (everything below patches the imported package)

    for inst in MONITORS.get(PROP, []):
        inst()
        COUNTERS["monitors_installed"] += 1


def pytest_runtest_setup(item):
    CURRENT["test"] = item.nodeid


def pytest_runtest_logreport(report):
    if report.when == "call" or (report.when == "setup" and report.outcome != "passed"):
        COUNTERS[f"tests_{report.outcome}"] += 1


def pytest_sessionfinish(session, exitstatus):
    if PROP == "C09":
        try:
            from vlib.monitors import router

            for k, v in router.STATS.items():
                COUNTERS[f"router_{k}"] += v
            for v in router.drain():
                violation(f"router:{v['kind']}", f"route {v['request']}: expected provider #{v['expected']}, got #{v['got']}", v)
            FPS.update(range(min(router.STATS["routers"], 100000)))   # one distinct state per router built
        except Exception:  # noqa: BLE001
            COUNTERS["router_drain_failed"] += 1
            VIOLATIONS.append({"key": "suite-leg-internal-error", "what": traceback.format_exc()[-800:], "detail": {}})
    if OUT:
        import adaptix

        with open(OUT, "w") as f:
            json.dump({"prop": PROP, "exitstatus": int(exitstatus), "counters": dict(COUNTERS), "violations": VIOLATIONS, "fps": sorted(FPS),
                       "samples": SAMPLES, "adaptix_file": adaptix.__file__}, f, default=repr)
