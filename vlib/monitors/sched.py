"""Deterministic thread scheduler driven by sys.monitoring LINE events (C12).

Controlled threads run one at a time (token passing, one semaphore per thread). At every in-scope LINE
event the running thread asks the schedule whether to hand the token to another live thread. A schedule is
a pure function of its parameters, hence replayable; its fingerprint is the sequence of switch points.
Out-of-scope code objects return sys.monitoring.DISABLE once and then run at full speed."""
from __future__ import annotations

import os
import sys
import threading
import time

TOOL = 3
MON = sys.monitoring
_local = threading.local()
_active = None          # the Scheduler currently running (one at a time per process)
_registered = False
SCOPE_SUFFIXES = (
    "morphing/facade/retort.py", "retort/searching_retort.py", "retort/builtin_mediator.py", "retort/operating_retort.py", "retort/request_bus.py",
    "retort/base_retort.py", "conversion/facade/retort.py",
)
_scope_cache = {}


def in_scope(filename):
    r = _scope_cache.get(filename)
    if r is None:
        norm = filename.replace(os.sep, "/")
        r = _scope_cache[filename] = "/adaptix/_internal/" in norm and norm.endswith(SCOPE_SUFFIXES)
    return r


def _line_cb(code, line):
    if not in_scope(code.co_filename):
        return MON.DISABLE
    sch = _active
    if sch is None:
        return None
    tid = getattr(_local, "tid", None)
    if tid is None:
        return None
    sch.on_line(tid, code, line)
    return None


def ensure_registered():
    global _registered  # noqa: PLW0603
    if _registered:
        return
    MON.use_tool_id(TOOL, "vlib-sched")
    MON.register_callback(TOOL, MON.events.LINE, _line_cb)
    MON.set_events(TOOL, MON.events.LINE)
    _registered = True


class Deadlock(Exception):
    pass


class SchedRLock:
    """Drop-in for threading.RLock inside the scoped modules: a controlled thread that finds the lock taken hands the
    token to another live thread instead of blocking while holding it (lock acquisition becomes a scheduling point)."""

    def __init__(self):
        self._l = threading.RLock()
        self._owner = None
        self._depth = 0

    def acquire(self, blocking=True, timeout=-1):
        sch, tid = _active, getattr(_local, "tid", None)
        if sch is None or tid is None:
            return self._l.acquire(blocking, timeout)
        spins = 0
        while not self._l.acquire(False):
            if not blocking:
                return False
            spins += 1
            if spins > 2000:
                raise Deadlock(f"thread {tid} cannot take a lock after {spins} hand-offs (owner: thread {self._owner})")
            sch.lock_waiters[tid] = self
            sch.on_lock_blocked(tid, self._owner)
        sch.lock_waiters.pop(tid, None)
        self._owner = tid
        self._depth += 1
        return True

    def release(self):
        if self._owner is not None:
            self._depth -= 1
            if self._depth == 0:
                self._owner = None
                sch = _active
                if sch is not None:
                    for t in [t for t, l in sch.lock_waiters.items() if l is self]:
                        del sch.lock_waiters[t]   # the lock is free again: its waiters are runnable
        self._l.release()

    def __enter__(self):
        return self.acquire()

    def __exit__(self, *exc):
        self.release()


def patch_locks():
    """Replaces the RLock factory imported by the scoped adaptix modules (a no-op on trees that have no such lock)."""
    import importlib  # noqa: PLC0415

    n = 0
    for modname in ("adaptix._internal.retort.searching_retort", "adaptix._internal.retort.base_retort", "adaptix._internal.retort.operating_retort",
                    "adaptix._internal.retort.builtin_mediator", "adaptix._internal.retort.request_bus", "adaptix._internal.morphing.facade.retort",
                    "adaptix._internal.conversion.facade.retort"):
        try:
            mod = importlib.import_module(modname)
        except Exception:  # noqa: BLE001
            continue
        for name in ("RLock", "Lock"):
            if getattr(mod, name, None) in (threading.RLock, threading.Lock):
                setattr(mod, name, SchedRLock)
                n += 1
    return n


class Scheduler:
    """policy(sch, tid, k, where) -> thread id to switch to, or None. k = index of this in-scope event of thread tid."""

    def __init__(self, bodies, policy, watchdog_s=20.0, start=0):
        self.bodies = bodies
        self.n = len(bodies)
        self.policy = policy
        self.sems = [threading.Semaphore(0) for _ in bodies]
        self.alive = [True] * self.n
        self.started = [False] * self.n
        self.events = [0] * self.n
        self.switches = []           # (file:line, from, to, per-thread event index)
        self.results = [None] * self.n
        self.errors = [None] * self.n
        self.current = start
        self.start = start
        self.done = threading.Event()
        self.watchdog_s = watchdog_s
        self.func_events = {}
        self.lock_waiters = {}       # tid -> SchedRLock it waits for (not runnable until that lock is released)
        self.blocked = set()         # threads believed to be blocked on a foreign lock (wall-clock inference, fallback only)
        self.lock_handoffs = 0
        self.inferred_blocks = 0

    def on_lock_blocked(self, tid, owner=None):
        others = [i for i in range(self.n) if i != tid and self.alive[i]]
        if not others:
            raise Deadlock(f"thread {tid} waits for a lock nobody alive can release")
        nxt = owner if owner in others else min(others, key=lambda i: (i - tid) % self.n)
        self.lock_handoffs += 1
        self.switches.append(("lock", tid, nxt, self.events[tid]))
        self._handoff(tid, nxt)

    def on_line(self, tid, code, line):
        if self.current != tid:
            # this thread was inferred to be blocked on a foreign lock and the token moved on: park until the token returns
            self.blocked.discard(tid)
            self.sems[tid].acquire()
        elif tid in self.blocked:
            self.blocked.discard(tid)
            self.sems[tid].acquire(blocking=False)
        k = self.events[tid]
        self.events[tid] = k + 1
        name = code.co_name
        self.func_events[name] = self.func_events.get(name, 0) + 1
        nxt = self.policy(self, tid, k, (code.co_filename, line, name))
        if nxt is not None and nxt != tid and self.alive[nxt] and nxt not in self.lock_waiters:
            self.switches.append((f"{os.path.basename(code.co_filename)}:{line}", tid, nxt, k))
            self._handoff(tid, nxt)

    def _handoff(self, frm, to):
        self.current = to
        self.sems[to].release()
        self.sems[frm].acquire()

    def _run_thread(self, tid):
        self.sems[tid].acquire()
        _local.tid = tid
        self.started[tid] = True
        try:
            self.results[tid] = self.bodies[tid]()
        except BaseException as e:  # noqa: BLE001
            self.errors[tid] = e
        finally:
            _local.tid = None
            self.alive[tid] = False
            nxt = next((i for i in range(self.n) if self.alive[i]), None)
            if nxt is None:
                self.done.set()
            else:
                self.current = nxt
                self.sems[nxt].release()

    def run(self):
        global _active  # noqa: PLW0603
        ensure_registered()
        threads = [threading.Thread(target=self._run_thread, args=(i,), daemon=True) for i in range(self.n)]
        _active = self
        try:
            for t in threads:
                t.start()
            self.sems[self.start].release()
            finished = self._supervise()
        finally:
            _active = None
        if not finished:
            raise Deadlock(f"threads alive={self.alive} current={self.current} events={self.events}")
        for t in threads:
            t.join(5)
        return self

    def _supervise(self):
        """Waits for completion. Fallback liveness inference for locks the harness does not know: a token holder that makes
        no LINE progress for 200 ms is marked blocked and the token moves on (wall clock is used only for this, never for a verdict)."""
        t0 = last_change = time.monotonic()
        last_total = -1
        while not self.done.wait(0.02):
            nowt = time.monotonic()
            total = sum(self.events)
            if total != last_total:
                last_total, last_change = total, nowt
            elif nowt - last_change > 0.2:
                cur = self.current
                cands = [i for i in range(self.n) if self.alive[i] and i != cur and i not in self.blocked]
                if self.alive[cur] and cur not in self.blocked and cands:
                    self.blocked.add(cur)
                    self.inferred_blocks += 1
                    self.current = cands[0]
                    self.switches.append(("inferred-block", cur, cands[0], self.events[cur]))
                    self.sems[cands[0]].release()
                    last_change = nowt
            if nowt - t0 > self.watchdog_s:
                return False
        return True

    def fingerprint(self):
        return tuple((w, f, t) for w, f, t, _ in self.switches)


# ---- policies -----------------------------------------------------------------------------------------
def single_preemption(x, k, y):
    """Thread x runs to its k-th in-scope event, y runs to completion, x resumes."""
    fired = []

    def policy(sch, tid, idx, where):
        if tid == x and idx == k and not fired:
            fired.append(1)
            return y
        return None
    return policy


def preemption_inside(x, func_name, j, y):
    """Thread x runs to its j-th in-scope event INSIDE the function called func_name (wherever that function is entered), y runs to
    completion, x resumes. policy.fired tells whether the point existed."""
    seen = [0]

    def policy(sch, tid, idx, where):
        if tid == x and where[2] == func_name:
            seen[0] += 1
            if seen[0] - 1 == j and not policy.fired:
                policy.fired = True
                return y
        return None
    policy.fired = False
    return policy


def two_preemptions(x, k1, y, k2):
    state = {"phase": 0, "y_start": None}

    def policy(sch, tid, idx, where):
        if state["phase"] == 0 and tid == x and idx == k1:
            state["phase"] = 1
            return y
        if state["phase"] == 1 and tid == y:
            if state["y_start"] is None:
                state["y_start"] = idx
            if idx - state["y_start"] == k2:
                state["phase"] = 2
                return x
        return None
    return policy


def random_switching(rng, p, nthreads):
    def policy(sch, tid, idx, where):
        if rng.random() < p:
            others = [i for i in range(nthreads) if i != tid and sch.alive[i]]
            if others:
                return rng.choice(others)
        return None
    return policy


def pct(rng, nthreads, depth, est_events):
    """PCT-style: random priorities, `depth` priority change points at random event counts; highest priority runs."""
    prio = list(range(nthreads))
    rng.shuffle(prio)
    change = sorted(rng.randrange(max(1, est_events)) for _ in range(depth))
    state = {"total": 0, "low": -1}

    def policy(sch, tid, idx, where):
        state["total"] += 1
        if change and state["total"] >= change[0]:
            change.pop(0)
            prio[tid] = state["low"]
            state["low"] -= 1
        best = max((i for i in range(nthreads) if sch.alive[i]), key=lambda i: prio[i])
        return best if best != tid else None
    return policy


def no_switch():
    return lambda sch, tid, idx, where: None


def now():
    return time.monotonic()
