"""Call-cache monitor (C11 / C12): wraps BuiltinMediator.cached_call, counts hits and misses and records
*confusable-key hits*: a hit whose stored key is == to the new key but not type-strictly equal
(e.g. cases=(0, 1) vs (False, True)). It names the mechanism and proves the workload reached the shared cache;
the behavioural differential decides the property."""
from __future__ import annotations

from adaptix._internal.retort import builtin_mediator as bm

from ..eq import strict_eq

STATS = {"hits": 0, "misses": 0, "confusable_hits": 0}
CONFUSABLE = []
_installed = False


def _strict_key_eq(a, b):
    if len(a) != len(b):
        return False
    for x, y in zip(a, b):
        if x is y:
            continue
        if callable(x) or callable(y):
            if x != y:
                return False
            continue
        try:
            if not strict_eq(x, y):
                return False
        except Exception:  # noqa: BLE001
            return False
    return True


def install():
    global _installed  # noqa: PLW0603
    if _installed:
        return
    _installed = True
    orig = bm.BuiltinMediator.cached_call

    def cached_call(self, func, /, *args, **kwargs):
        key = (func, *args, *kwargs.items())
        cache = self._call_cache  # noqa: SLF001
        try:
            hit = key in cache
        except TypeError:
            hit = False
        if hit:
            STATS["hits"] += 1
            stored = next((k for k in cache if k == key), None)
            if stored is not None and not _strict_key_eq(stored, key):
                STATS["confusable_hits"] += 1
                if len(CONFUSABLE) < 20:
                    CONFUSABLE.append((getattr(func, "__qualname__", repr(func)), repr(stored)[:300], repr(key)[:300]))
        else:
            STATS["misses"] += 1
        return orig(self, func, *args, **kwargs)

    bm.BuiltinMediator.cached_call = cached_call


def snapshot():
    return dict(STATS)
