"""Router trace monitor (C09): online check of every route_handler call against the linear
chain-of-responsibility specification.

OperatingRetort._create_router is wrapped: adaptix gets the same (checker, handler) list with every handler
wrapped by a transparent H_i that knows its original index and pushes itself on a thread-local stack while
it runs. BasicRequestBus._send_inner opens a frame per request; route_handler results are compared with
`first index >= position whose ORIGINAL checker accepts the request`.
"""
from __future__ import annotations

import threading

from adaptix._internal.retort import operating_retort as opr, request_bus as rb, routers

_tl = threading.local()
STATS = {"routes": 0, "frames": 0, "stops": 0, "chained_frames": 0, "routers": 0}
VIOLATIONS = []          # dicts: kind, expected, got, request
ROUTERS = {}             # id(router) -> (router, wrapped list)  (keeps routers alive so ids stay unique)
_installed = False


def _state():
    if not hasattr(_tl, "handlers"):
        _tl.handlers = []
        _tl.frames = []
    return _tl


class H:
    __slots__ = ("fn", "idx", "rkey")

    def __init__(self, fn, idx):
        self.fn, self.idx, self.rkey = fn, idx, None

    def __call__(self, mediator, request):
        st = _state().handlers
        st.append(self)
        try:
            return self.fn(mediator, request)
        finally:
            st.pop()


def _describe(request):
    try:
        last = request.last_loc
        return f"{type(request).__name__}[{getattr(last, 'type', None)!r}{'.' + last.field_id if hasattr(last, 'field_id') else ''}] depth={len(request.loc_stack)}"
    except Exception:  # noqa: BLE001
        return type(request).__name__


def install():
    global _installed  # noqa: PLW0603
    if _installed:
        return
    _installed = True
    orig_create = opr.OperatingRetort._create_router  # noqa: SLF001

    def create_router(self, request_cls, checkers_and_handlers):
        wrapped = [(c, H(h, i)) for i, (c, h) in enumerate(checkers_and_handlers)]
        router = orig_create(self, request_cls, wrapped)
        for _, h in wrapped:
            h.rkey = id(router)
        ROUTERS[id(router)] = (router, wrapped)
        STATS["routers"] += 1
        return router

    opr.OperatingRetort._create_router = create_router  # noqa: SLF001

    orig_send_inner = rb.BasicRequestBus._send_inner  # noqa: SLF001

    def send_inner(self, request, search_offset):
        st = _state()
        router = self._router  # noqa: SLF001
        if search_offset == 0:
            start = 0
        else:
            top = next((h for h in reversed(st.handlers) if h.rkey == id(router)), None)
            start = None if top is None else top.idx + 1
            STATS["chained_frames"] += 1
        st.frames.append({"router": router, "pos": start, "seen": set()})
        STATS["frames"] += 1
        try:
            return orig_send_inner(self, request, search_offset)
        finally:
            st.frames.pop()

    rb.BasicRequestBus._send_inner = send_inner  # noqa: SLF001

    def ref_next(router, mediator, request, pos):
        _, lst = ROUTERS[id(router)]
        for i in range(pos, len(lst)):
            if lst[i][0].check_request(mediator, request):
                return i
        return None

    def wrap_route(cls):
        orig = cls.route_handler

        def route_handler(self, mediator, request, search_offset):
            st = _state()
            frame = st.frames[-1] if st.frames else None
            active = frame is not None and frame["router"] is self and frame["pos"] is not None and id(self) in ROUTERS
            try:
                handler, nxt = orig(self, mediator, request, search_offset)
            except StopIteration:
                if active:
                    STATS["routes"] += 1
                    STATS["stops"] += 1
                    exp = ref_next(self, mediator, request, frame["pos"])
                    if exp is not None:
                        VIOLATIONS.append({"kind": "stop-although-later-provider-matches", "expected": exp, "got": None, "request": _describe(request)})
                raise
            if active:
                STATS["routes"] += 1
                exp = ref_next(self, mediator, request, frame["pos"])
                got = getattr(handler, "idx", None)
                if got in frame["seen"]:
                    VIOLATIONS.append({"kind": "provider-consulted-twice", "expected": exp, "got": got, "request": _describe(request)})
                elif exp != got:
                    VIOLATIONS.append({"kind": "not-first-match" if (exp is None or got is None or got > exp) else "earlier-nonmatching-provider-consulted",
                                       "expected": exp, "got": got, "request": _describe(request)})
                if got is not None:
                    frame["seen"].add(got)
                    frame["pos"] = got + 1
            return handler, nxt

        cls.route_handler = route_handler

    wrap_route(routers.LocatedRequestRouter)
    wrap_route(routers.SimpleRouter)


def drain():
    out = list(VIOLATIONS)
    VIOLATIONS.clear()
    return out


def forget():
    """Drops the routers of retorts the caller is done with (they are kept alive only so that ids stay unique while they are in use).
    The thorough tier of C09 builds millions of routers: without this a shard grew to 7.7 GB and half of the shards were OOM-killed."""
    ROUTERS.clear()
