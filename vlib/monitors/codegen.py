"""Generated-source monitor (C19 / C20): wraps BasicClosureCompiler._compile and records every generated
source + namespace; provides AST shape extraction (identifier names and constant values abstracted)."""
from __future__ import annotations

import ast

from adaptix._internal.code_tools import compiler

CAPTURED = []        # (filename, source, namespace)
STATS = {"compiled": 0}
_installed = False


def install():
    global _installed  # noqa: PLW0603
    if _installed:
        return
    _installed = True
    orig = compiler.BasicClosureCompiler._compile  # noqa: SLF001

    def _compile(self, source, unique_filename, namespace):
        STATS["compiled"] += 1
        CAPTURED.append((unique_filename, source, namespace))
        if len(CAPTURED) > 400:
            del CAPTURED[:200]
        return orig(self, source, unique_filename, namespace)

    compiler.BasicClosureCompiler._compile = _compile  # noqa: SLF001


def drain():
    out = list(CAPTURED)
    CAPTURED.clear()
    return out


def shape(source):
    """Structure of a generated program modulo identifier renaming and constant values: the sequence of AST node
    types in pre-order, with the *kind* of every constant and the arity of calls / containers kept."""
    tree = ast.parse(source)
    out = []

    def walk(node):
        name = type(node).__name__
        if isinstance(node, ast.Constant):
            out.append(f"Constant:{type(node.value).__name__}")
            return
        if isinstance(node, ast.Call):
            out.append(f"Call/{len(node.args)}/{len(node.keywords)}")
        elif isinstance(node, (ast.Dict, ast.Set, ast.List, ast.Tuple)):
            out.append(f"{name}/{len(getattr(node, 'keys', getattr(node, 'elts', [])))}")
        elif isinstance(node, ast.JoinedStr):
            out.append("JoinedStr")     # f-string internals depend on the literal text (model identity): keep only its presence
            return
        else:
            out.append(name)
        for child in ast.iter_child_nodes(node):
            walk(child)

    walk(tree)
    return out


def constants_outside_strings(source, needles):
    """Returns the needles that occur in the source text outside of string constants and comments
    (computed by blanking every ast.Constant str span and every comment, then searching the rest)."""
    import io  # noqa: PLC0415
    import tokenize  # noqa: PLC0415

    lines = source.splitlines(keepends=True)
    keep = [list(l) for l in lines]
    try:
        for tok in tokenize.generate_tokens(io.StringIO(source).readline):
            if tok.type in (tokenize.STRING, tokenize.COMMENT, getattr(tokenize, "FSTRING_MIDDLE", -1)):
                (r1, c1), (r2, c2) = tok.start, tok.end
                for r in range(r1, r2 + 1):
                    row = keep[r - 1]
                    lo = c1 if r == r1 else 0
                    hi = c2 if r == r2 else len(row)
                    for c in range(lo, min(hi, len(row))):
                        if row[c] != "\n":
                            row[c] = " "
    except (tokenize.TokenError, IndentationError, SyntaxError):
        return list(needles)
    rest = "".join("".join(r) for r in keep)
    return [n for n in needles if n in rest]
