"""Audit-hook canary (C19): one sys.addaudithook recording exec / compile / import / open / os.system /
subprocess events while a loader, dumper or converter *runs* (after generation)."""
from __future__ import annotations

import sys

# one path per worker process: two checks running at the same time (one of them against a deliberately broken tree that does execute the
# injected text) must not see each other's canary file
CANARY_PATH = f"/var/tmp/vlib_c19_canary_{__import__('os').getpid()}"
CANARY_MODULE = "vlib_c19_canary_module"
EVENTS = []
STATE = {"armed": False, "seen": 0}
_installed = False
WATCH = {"exec", "compile", "os.system", "subprocess.Popen", "os.exec", "os.posix_spawn", "os.spawn", "os.remove", "os.rename", "shutil.rmtree"}


def _hook(event, args):
    if not STATE["armed"]:
        return
    STATE["seen"] += 1
    if event in WATCH:
        EVENTS.append((event, repr(args)[:200]))
    elif event == "open":
        if args and isinstance(args[0], str) and CANARY_PATH in args[0]:
            EVENTS.append((event, repr(args)[:200]))
    elif event == "import":
        if args and args[0] == CANARY_MODULE:
            EVENTS.append((event, repr(args)[:200]))


def install():
    global _installed  # noqa: PLW0603
    if not _installed:
        sys.addaudithook(_hook)
        _installed = True


class armed:
    def __enter__(self):
        EVENTS.clear()
        STATE["armed"] = True
        return self

    def __exit__(self, *exc):
        STATE["armed"] = False


def selftest():
    """The hook must see its own canary events, otherwise the run is inconclusive."""
    install()
    with armed():
        exec("1 + 1")  # noqa: S102
        try:
            open(CANARY_PATH + "_selftest").close()
        except OSError:
            pass
        try:
            __import__(CANARY_MODULE)
        except ImportError:
            pass
    seen = {e for e, _ in EVENTS}
    EVENTS.clear()
    return {"exec", "open", "import"} <= seen
