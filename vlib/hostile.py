"""Type-independent hostile data pool and type-directed mutators.

Every entry is (label, factory): factories give a *fresh* object per use so one-shot iterators and
mutable containers are not shared between modes.  Deliberately excluded: objects whose own dunder
methods raise or lie (that is user code), classes/typing objects used as data, nesting beyond 60, ints beyond CPython's
int-to-str limit (10**5000: repr() itself raises ValueError, in adaptix's trail notes as in every traceback or log line).
"""
from __future__ import annotations

import array
import collections
import datetime
import decimal
import fractions
import pathlib
import types
import uuid

from .spec import EInt, EStr, FRWX, IE


class MyInt(int):
    pass


class MyStr(str):
    __slots__ = ()


class MyList(list):
    pass


class MyDict(dict):
    pass


def _deep(n):
    x = []
    for _ in range(n):
        x = [x]
    return x


NTItems = collections.namedtuple("NTItems", "items keys get values")   # plain data whose field names look like mapping methods


class ObjItems:
    items = 5
    keys = None
    get = "g"

    def __repr__(self):
        return "ObjItems()"


def _one():   # module-level default factory: two fresh defaultdict mutants stay comparable (default_factory identity)
    return 1


def _gen():
    yield 1
    yield 2


POOL = [
    ("None", lambda: None), ("True", lambda: True), ("False", lambda: False),
    ("0", lambda: 0), ("1", lambda: 1), ("-1", lambda: -1), ("2**64", lambda: 2**64), ("10**400", lambda: 10**400),
    ("1.0", lambda: 1.0), ("0.5", lambda: 0.5), ("-1.5", lambda: -1.5), ("2.3", lambda: 2.3), ("nan", lambda: float("nan")),
    ("inf", lambda: float("inf")), ("-inf", lambda: float("-inf")), ("1e30", lambda: 1e30), ("-0.0", lambda: -0.0),
    ("''", lambda: ""), ("'a'", lambda: "a"), ("'1'", lambda: "1"), ("'1/0'", lambda: "1/0"), ("'nan'", lambda: "nan"),
    ("'é'", lambda: "é"), ("'\\ud800'", lambda: "\ud800"), ("'\\x00'", lambda: "\x00"), ("'YQ=='", lambda: "YQ=="),
    ("'YQ'", lambda: "YQ"), ("'2024-02-30'", lambda: "2024-02-30"), ("'2024-02-29'", lambda: "2024-02-29"),
    ("'12:30'", lambda: "12:30"), ("'1e400'", lambda: "1e400"), ("' 1 '", lambda: " 1 "), ("'(a'", lambda: "(a"),
    ("'x'*5000", lambda: "x" * 5000), ("'1'*5000", lambda: "1" * 5000), ("'127.0.0.1'", lambda: "127.0.0.1"),
    ("uuid-str", lambda: "12345678-1234-5678-1234-567812345678"), ("'zz'", lambda: "zz"), ("'1+2j'", lambda: "1+2j"),
    ("b''", lambda: b""), ("b'ab'", lambda: b"ab"), ("bytearray", lambda: bytearray(b"ab")), ("memoryview", lambda: memoryview(b"ab")),
    ("[]", list), ("[[]]", lambda: [[]]), ("[1,'a']", lambda: [1, "a"]), ("[1,2]", lambda: [1, 2]), ("['a','b']", lambda: ["a", "b"]),
    ("[None]", lambda: [None]), ("()", tuple), ("(1,)", lambda: (1,)), ("(1,2,3)", lambda: (1, 2, 3)),
    ("{}", dict), ("{1:2}", lambda: {1: 2}), ("{'a':[]}", lambda: {"a": []}), ("{(1,2):3}", lambda: {(1, 2): 3}), ("{'a':1}", lambda: {"a": 1}),
    ("{0:1}", lambda: {0: 1}), ("{None:None}", lambda: {None: None}),
    ("set()", set), ("{1,2}", lambda: {1, 2}), ("frozenset", lambda: frozenset({"a"})), ("range(3)", lambda: range(3)),
    ("iter([1,2])", lambda: iter([1, 2])), ("generator", _gen), ("deque", lambda: collections.deque([1, 2])),
    ("array", lambda: array.array("b", [1, 2])), ("mappingproxy", lambda: types.MappingProxyType({"a": 1})),
    ("OrderedDict", lambda: collections.OrderedDict(a=1)), ("defaultdict", lambda: collections.defaultdict(int, a=1)),
    ("ChainMap", lambda: collections.ChainMap({"a": 1})), ("UserDict", lambda: collections.UserDict(a=1)),
    ("UserList", lambda: collections.UserList([1])), ("MyInt(3)", lambda: MyInt(3)), ("MyStr('q')", lambda: MyStr("q")),
    ("MyList", lambda: MyList([1])), ("MyDict", lambda: MyDict(a=1)),
    ("Decimal('sNaN')", lambda: decimal.Decimal("sNaN")), ("[sNaN]", lambda: [decimal.Decimal("sNaN")]), ("10**18", lambda: 10**18), ("-10**18", lambda: -10**18),
    ("Decimal('1')", lambda: decimal.Decimal("1")), ("Decimal('NaN')", lambda: decimal.Decimal("NaN")), ("Decimal('1.5')", lambda: decimal.Decimal("1.5")),
    ("Decimal('Infinity')", lambda: decimal.Decimal("Infinity")), ("Decimal('1e30')", lambda: decimal.Decimal("1e30")),
    ("Fraction(1,3)", lambda: fractions.Fraction(1, 3)), ("1+2j", lambda: 1 + 2j),
    ("datetime", lambda: datetime.datetime(2020, 1, 1)), ("date", lambda: datetime.date(2020, 1, 1)), ("timedelta", lambda: datetime.timedelta(1)),
    ("UUID", lambda: uuid.UUID(int=5)), ("Path", lambda: pathlib.PurePosixPath("a")),
    ("EInt.A", lambda: EInt.A), ("EStr.X", lambda: EStr.X), ("IE.ONE", lambda: IE.ONE), ("FRWX.R", lambda: FRWX.R),
    ("object()", object), ("deep50", lambda: _deep(50)), ("[[1]]", lambda: [[1]]), ("[{}]", lambda: [{}]), ("[[1],[1]]", lambda: [[1], [1]]),
    ("NTItems", lambda: NTItems(5, 3, 1, None)), ("ObjItems", ObjItems), ("[NTItems]", lambda: [NTItems(5, 3, 1, None)]),
    ("'a{9..9}'", lambda: "a{99999999999999999999}"), ("'(?a)(?u)x'", lambda: "(?a)(?u)x"), ("(0,(1,),10**30)", lambda: (0, (1,), 10**30)),
    ("'sNaN'", lambda: "sNaN"), ("[('a',1)]", lambda: [("a", 1)]), ("[['a',1],['b',2]]", lambda: [["a", 1], ["b", 2]]), ("['ab','cd']", lambda: ["ab", "cd"]),
    ("iter-of-pairs", lambda: iter([("a", 1)])), ("{('a',1)}", lambda: {("a", 1)}),
    ("Ellipsis", lambda: ...), ("NotImplemented", lambda: NotImplemented),
]
POOL_BY_LABEL = dict(POOL)


def json_like(x):
    return x is None or isinstance(x, (bool, int, float, str, list, tuple, dict))


def mutants(rng, outer, limit=12):
    """Type-directed mutants of a valid outer datum: yields (label, factory)."""
    import copy  # noqa: PLC0415

    paths = list(_paths(outer))
    rng.shuffle(paths)
    out = []
    for path in paths[:limit]:
        sub = _get(outer, path)
        for label, repl in _replacements(rng, sub):
            def fac(path=path, repl=repl):
                return _set(copy.deepcopy(outer), path, repl() if callable(repl) else repl)
            out.append((f"mut{list(path)}:{label}", fac))
    rng.shuffle(out)
    return out[:limit]


def _paths(x, prefix=(), depth=0):
    yield prefix
    if depth > 5:
        return
    if isinstance(x, dict):
        for k in list(x)[:4]:
            yield from _paths(x[k], (*prefix, ("k", k)), depth + 1)
    elif isinstance(x, (list, tuple)):
        for i in range(min(len(x), 4)):
            yield from _paths(x[i], (*prefix, ("i", i)), depth + 1)


def _get(x, path):
    for _, k in path:
        x = x[k]
    return x


def _set(x, path, value):
    if not path:
        return value
    (kind, k), rest = path[0], path[1:]
    if isinstance(x, tuple):
        lst = list(x)
        lst[k] = _set(lst[k], rest, value)
        return tuple(lst)
    x[k] = _set(x[k], rest, value)
    return x


_DEL = object()


def _replacements(rng, sub):  # noqa: C901
    reps = []
    t = type(sub)
    scal = [("None", None), ("True", True), ("0", 0), ("1", 1), ("1.0", 1.0), ("nan", float("nan")), ("''", ""), ("'a'", "a"), ("'1'", "1"),
            ("[]", list), ("{}", dict), ("b'x'", b"x"), ("10**400", 10**400), ("[[1]]", lambda: [[1]])]
    reps.extend(rng.sample(scal, 4))
    if t is bool:
        reps.append(("bool->int", int(sub)))
    elif t is int:
        reps += [("int->float", float(sub) if abs(sub) < 1e300 else 0.0), ("int->str", str(sub)), ("int->bool", bool(sub))]
    elif t is float:
        reps += [("float->str", repr(sub)), ("float->int", int(sub) if sub == sub and abs(sub) != float("inf") else 0)]
    elif t is str:
        reps += [("str+junk", sub + "!"), ("str->list", list(sub)), ("str->bytes", sub.encode("utf-8", "replace")), ("str.upper", sub.upper())]
    elif t in (list, tuple):
        reps += [("swap-list/tuple", (tuple if t is list else list)(sub)), ("->dict", {i: v for i, v in enumerate(sub)} if _hashable_items(sub) else {}),
                 ("->str", "abc"), ("extend", t([*sub, None])), ("truncate", t(sub[:-1])), ("wrap", [sub]), ("->set", lambda: set(sub) if _hashable_all(sub) else set())]
        if len(sub) == 1:
            reps.append(("unwrap", sub[0]))
    elif t is dict:
        reps += [("->list", list(sub.items())), ("->keys", list(sub)), ("add-key", {**sub, "__extra__": 1}), ("int-keyed", {i: v for i, v in enumerate(sub.values())}),
                 ("drop-key", {k: v for k, v in list(sub.items())[1:]}), ("->OrderedDict", collections.OrderedDict(sub)),
                 ("->defaultdict", lambda: collections.defaultdict(_one, sub)), ("->mappingproxy", types.MappingProxyType(dict(sub)))]
    return reps


def _hashable_items(seq):
    return True


def _hashable_all(seq):
    try:
        set(seq)
        return True
    except TypeError:
        return False
