"""Model factory: a *logical model* (fields with type nodes, requiredness and defaults) is materialised as
dataclass / NamedTuple / TypedDict / attrs / pydantic / SQLAlchemy / plain-__init__ class, and wrapped in a
type node (ModelT) that knows the reference load/dump semantics of the *default* layout."""
from __future__ import annotations

import collections.abc as cabc
import copy
import itertools
import sys
import types
import typing
from dataclasses import dataclass, field as dc_field

from . import spec
from .eq import model_fields
from .spec import A, R, REJ, U, UNS, Node, Verdict, combine

KINDS = ("dataclass", "namedtuple", "typeddict", "attrs", "pydantic", "sqlalchemy", "init")
DUMPABLE = ("dataclass", "namedtuple", "typeddict", "attrs", "pydantic", "sqlalchemy")
_counter = itertools.count()


@dataclass
class FieldSpec:
    name: str
    node: Node                      # type node (may be a ModelT or a SelfRef)
    req: str = "req"                # 'req' | 'default' | 'factory'
    default: typing.Any = None      # value, or zero-argument factory for req == 'factory'
    kw_only: bool = False
    annotation_src: str | None = None   # explicit annotation source (forward references)

    @property
    def required(self):
        return self.req == "req"

    def make_default(self):
        return self.default() if self.req == "factory" else self.default


class SelfRef(Node):
    """Reference to the enclosing model (recursive models); resolved after the class exists."""
    kind = "SelfRef"

    def __init__(self, wrap=None):
        super().__init__(None, "Self")
        self.target = None
        self.wrap = wrap  # None | 'Optional' | 'List'

    def bind(self, model_node):
        self.target = model_node
        name = model_node.cls.__name__
        t = model_node.cls
        if self.wrap == "Optional":
            self.hint, self.src, self.ann = typing.Optional[t], f"Optional[{name}]", f"Optional[{name}]"
        elif self.wrap == "List":
            self.hint, self.src, self.ann = typing.List[t], f"List[{name}]", f"List[{name}]"
        else:
            self.hint, self.src, self.ann = t, name, name

    def depth(self):
        return 1

    def walk(self):
        yield self

    def gen(self, rng, budget=3):
        if self.wrap == "Optional":
            return None if budget <= 0 or rng.random() < 0.4 else self.target.gen(rng, budget - 1)
        if self.wrap == "List":
            return [] if budget <= 0 else [self.target.gen(rng, budget - 1) for _ in range(rng.choice([0, 1, 2]))]
        return self.target.gen(rng, budget - 1)

    def dump(self, x):
        if self.wrap == "Optional":
            return None if x is None else self.target.dump(x)
        if self.wrap == "List":
            return [self.target.dump(v) for v in x]
        return self.target.dump(x)

    def accept(self, d, strict):
        if self.wrap == "Optional":
            return spec.acc(None) if d is None else self.target.accept(d, strict)
        if self.wrap == "List":
            if isinstance(d, (str, cabc.Mapping)) or not isinstance(d, (list, tuple)):
                return UNS if not isinstance(d, (list, tuple)) and not strict else (REJ if isinstance(d, (str, cabc.Mapping)) and strict else UNS)
            return combine([self.target.accept(v, strict) for v in d], list)
        return self.target.accept(d, strict)


def _module():
    name = f"vlib_dyn_{next(_counter)}"
    mod = types.ModuleType(name)
    mod.__dict__.update({k: getattr(typing, k) for k in ("List", "Dict", "Optional", "Union", "Tuple", "Any", "NamedTuple", "TypedDict", "NotRequired", "Required",
                                                          "Set", "FrozenSet", "Generic", "TypeVar")})
    sys.modules[name] = mod
    return mod


def build_class(kind, name, fields, *, total=True):  # noqa: C901, PLR0912, PLR0915
    """Materialises the logical model. Field order must already respect the kind's rules (required first where needed)."""
    mod = _module()
    g = mod.__dict__
    lines = []
    for i, f in enumerate(fields):
        g[f"H{i}"] = f.node.hint
        g[f"D{i}"] = f.default
    ann = [f.annotation_src or f"H{i}" for i, f in enumerate(fields)]
    if kind == "dataclass":
        g["dataclass"], g["field"] = dataclass, dc_field
        lines += ["@dataclass", f"class {name}:"]
        for i, f in enumerate(fields):
            opts = []
            if f.req == "default":
                opts.append(f"default=D{i}")
            elif f.req == "factory":
                opts.append(f"default_factory=D{i}")
            if f.kw_only:
                opts.append("kw_only=True")
            lines.append(f"    {f.name}: {ann[i]}" + (f" = field({', '.join(opts)})" if opts else ""))
    elif kind == "namedtuple":
        lines += [f"class {name}(NamedTuple):"]
        for i, f in enumerate(fields):
            if f.req == "factory":
                g[f"D{i}"] = f.default()
            lines.append(f"    {f.name}: {ann[i]}" + ("" if f.required else f" = D{i}"))
    elif kind == "typeddict":
        lines += [f"class {name}(TypedDict):"]
        for i, f in enumerate(fields):
            lines.append(f"    {f.name}: {ann[i] if f.required else f'NotRequired[{ann[i]}]'}")
    elif kind == "attrs":
        import attrs  # noqa: PLC0415

        g["attrs"] = attrs
        lines += ["@attrs.define", f"class {name}:"]
        for i, f in enumerate(fields):
            opts = []
            if f.req == "default":
                opts.append(f"default=D{i}")
            elif f.req == "factory":
                opts.append(f"factory=D{i}")
            if f.kw_only:
                opts.append("kw_only=True")
            lines.append(f"    {f.name}: {ann[i]}" + (f" = attrs.field({', '.join(opts)})" if opts else ""))
    elif kind == "pydantic":
        import pydantic  # noqa: PLC0415

        g["pydantic"] = pydantic
        lines += [f"class {name}(pydantic.BaseModel):", "    model_config = pydantic.ConfigDict(arbitrary_types_allowed=True, strict=True)"]
        for i, f in enumerate(fields):
            rhs = ""
            if f.req == "default":
                rhs = f" = D{i}"
            elif f.req == "factory":
                rhs = f" = pydantic.Field(default_factory=D{i})"
            lines.append(f"    {f.name}: {ann[i]}{rhs}")
    elif kind == "sqlalchemy":
        from sqlalchemy import JSON  # noqa: PLC0415
        from sqlalchemy.orm import DeclarativeBase, Mapped, mapped_column  # noqa: PLC0415

        g.update(DeclarativeBase=DeclarativeBase, Mapped=Mapped, mapped_column=mapped_column, JSON=JSON)
        lines += [f"class Base_{name}(DeclarativeBase):", "    pass", f"class {name}(Base_{name}):", f"    __tablename__ = '{name.lower()}'"]
        for i, f in enumerate(fields):
            opts = []
            if i == 0:
                opts.append("primary_key=True")
            if f.node.kind not in ("int", "str", "bool", "float") and not (f.node.kind == "Optional" and f.node.children[0].kind in ("int", "str", "bool", "float")):
                opts.insert(0, "JSON")
            if f.req == "default":
                opts.append(f"default=D{i}")
            elif f.req == "factory":
                opts.append(f"default=D{i}")
            if i % 2 == 1:
                opts.insert(0, repr(f"col_{f.name}"))     # DB column named differently from the mapped attribute (defect #57)
            lines.append(f"    {f.name}: Mapped[{ann[i]}] = mapped_column({', '.join(opts)})")
    elif kind == "init":
        params, body = [], []
        seen_kw = False
        for i, f in enumerate(fields):
            if f.kw_only and not seen_kw:
                params.append("*")
                seen_kw = True
            if f.req == "factory":
                g[f"S{i}"] = _SENTINEL
                params.append(f"{f.name}: {ann[i]} = S{i}")
                body.append(f"        self.{f.name} = D{i}() if {f.name} is S{i} else {f.name}")
            else:
                params.append(f"{f.name}: {ann[i]}" + ("" if f.required else f" = D{i}"))
                body.append(f"        self.{f.name} = {f.name}")
        lines += [f"class {name}:", f"    def __init__(self, {', '.join(params)}):", *(body or ["        pass"])]
        lines += ["    def __eq__(self, other):", "        return type(self) is type(other) and self.__dict__ == other.__dict__",
                  "    def __repr__(self):", f"        return '{name}(' + ', '.join(f'{{k}}={{v!r}}' for k, v in self.__dict__.items()) + ')'"]
    else:
        raise ValueError(kind)
    src = "\n".join(lines) + "\n"
    g["__name__"] = mod.__name__
    exec(compile(src, f"<vlib model {name}>", "exec"), g)  # noqa: S102
    cls = g[name]
    cls.__vlib_source__ = src
    return cls


class _Sentinel:
    def __repr__(self):
        return "<factory>"


_SENTINEL = _Sentinel()


class ModelT(Node):
    is_model = True
    hashable = False

    def __init__(self, kind, fields, name=None):
        self.mkind = kind
        self.fields = list(fields)
        name = name or f"M{next(_counter)}_{kind[:2]}"
        self.cls = build_class(kind, name, self.fields)
        super().__init__(self.cls, f"{kind}:{name}({', '.join(f.name + ':' + f.node.src + ('' if f.required else '=' + f.req) for f in self.fields)})")
        self.kind = f"model:{kind}"
        self.children = tuple(f.node for f in self.fields)
        self.class_origin = self.cls if kind != "typeddict" else None
        for f in self.fields:
            for n in f.node.walk():
                if isinstance(n, SelfRef) and n.target is None:
                    n.bind(self)

    def depth(self):
        return 1 + max((c.depth() for c in self.children), default=0)

    # ---- construction -------------------------------------------------------------------------
    def construct(self, values):
        """values: dict name -> value for the fields that are given; others get the model's own default."""
        if self.mkind == "typeddict":
            return dict(values)
        if self.mkind == "attrs":
            # attrs strips leading underscores from the __init__ parameter of a private attribute
            return self.cls(**{k.lstrip("_"): v for k, v in values.items()})
        return self.cls(**values)

    def view(self, x):
        """field name -> value (absent TypedDict keys are absent)."""
        if self.mkind == "typeddict":
            return dict(x)
        if self.mkind == "init":
            return dict(x.__dict__)
        f = model_fields(x)
        return {k: f[k] for k in (fl.name for fl in self.fields) if k in f}

    def gen(self, rng, budget=3):
        vals = {}
        for f in self.fields:
            if not f.required and rng.random() < 0.35:
                continue
            vals[f.name] = f.node.gen(rng, budget) if isinstance(f.node, SelfRef) else _gen_field(f.node, rng, budget)
        return self.construct(vals)

    # ---- reference semantics of the default layout ---------------------------------------------
    @staticmethod
    def outer_key(name):
        """Builtin name_mapping: a single trailing underscore is trimmed."""
        return name[:-1] if name.endswith("_") and not name.endswith("__") else name

    def dump(self, x):
        view = self.view(x)
        return {self.outer_key(f.name): f.node.dump(view[f.name]) for f in self.fields if f.name in view and not f.name.startswith("_")}

    def accept(self, d, strict):
        if not isinstance(d, cabc.Mapping):
            return REJ
        if hasattr(type(d), "__missing__"):
            return UNS   # defaultdict and the like: what d[key] gives for an absent key is the datum's own code, nothing is documented
        present, verdicts = [], []
        for f in self.fields:
            k = self.outer_key(f.name)
            if k in d:
                present.append(f.name)
                verdicts.append(f.node.accept(d[k], strict))
            elif f.required:
                return REJ

        def build(vals):
            return self.construct(dict(zip(present, vals)))

        try:
            return combine(verdicts, build)
        except Exception:  # noqa: BLE001
            return UNS   # the model's own constructor (e.g. pydantic validation) refused: user code, not judged


class LModelT(ModelT):
    """Model + name_mapping recipe: reference semantics come from vlib.layout."""

    def __init__(self, kind, fields, recipe, lay=None, name=None):
        from . import layout as L  # noqa: PLC0415

        super().__init__(kind, fields, name)
        self.recipe_nms = list(recipe)
        self.lay = lay or L.resolve(self.fields, self.recipe_nms)
        if kind == "typeddict":
            self.lay.omit = {k: False for k in self.lay.omit}
        self.providers = [nm.provider(self.cls) for nm in self.recipe_nms]
        self.kind = f"lmodel:{kind}"
        self.src += " @ " + "; ".join(repr(nm.describe()) for nm in self.recipe_nms)[:400]

    def dump(self, x):
        from . import layout as L  # noqa: PLC0415

        return L.ref_dump(self.lay, self, x)

    def accept(self, d, strict):
        from . import layout as L  # noqa: PLC0415

        if hasattr(type(d), "__missing__"):
            return UNS
        r = L.expected_load(self.lay, self, d, strict)
        if r[0] == "ok":
            return spec.acc(r[1])
        return REJ if r[0] == "reject" else UNS


def collect_providers(node):
    out = []
    for n in node.walk():
        out.extend(getattr(n, "providers", ()))
        if isinstance(n, ModelT):
            for f in n.fields:
                if f.node is not n and not isinstance(f.node, SelfRef):
                    pass
    return out


def _gen_field(node, rng, budget):
    if isinstance(node, ModelT):
        return node.gen(rng, budget - 1)
    # containers of models / self references
    for n in node.walk():
        if isinstance(n, (ModelT, SelfRef)):
            return _gen_through(node, rng, budget)
    return node.gen(rng)


def _gen_through(node, rng, budget):
    if isinstance(node, SelfRef):
        return node.gen(rng, budget)
    if isinstance(node, ModelT):
        return node.gen(rng, budget - 1)
    if isinstance(node, spec.IterT):
        n = 0 if budget <= 0 else rng.choice([0, 1, 2])
        return node.vtype(_gen_through(node.elem, rng, budget - 1) for _ in range(n))
    if isinstance(node, spec.DictT):
        n = 0 if budget <= 0 else rng.choice([0, 1, 2])
        return node._build((node.key.gen(rng), _gen_through(node.val, rng, budget - 1)) for _ in range(n))  # noqa: SLF001
    if isinstance(node, spec.TupleT):
        return tuple(_gen_through(c, rng, budget - 1) for c in node.children)
    if isinstance(node, spec.UnionT):
        if any(c.kind == "None" for c in node.children) and (budget <= 0 or rng.random() < 0.3):
            return None
        for _ in range(6):
            c = rng.choice([c for c in node.children if c.kind != "None"] or node.children)
            x = _gen_through(c, rng, budget - 1)
            if node.dump_case(x) is c:     # the runtime class must identify the union case (documented dispatch by .mro())
                return x
        raise LookupError("no value whose runtime class identifies its union case")
    if isinstance(node, spec.WrapT):
        return _gen_through(node.child, rng, budget)
    return node.gen(rng)


# ---- random logical models --------------------------------------------------------------------------
FIELD_NAMES = ["a", "b", "c_d", "name", "value", "items", "x1", "long_field_name", "id", "flag", "data", "kind", "n", "q"]

_SIMPLE = ["int", "str", "bool", "float"]


def simple_node(rng):
    return spec.SCALAR_BY_KIND[rng.choice(_SIMPLE)]


def portable_field_node(rng, depth=1):
    """Field types every model kind (pydantic strict mode and SQLAlchemy JSON columns included) can hold."""
    r = rng.random()
    if depth <= 0 or r < 0.55:
        return simple_node(rng)
    if r < 0.75:
        return spec.IterT("List", simple_node(rng))
    if r < 0.9:
        inner = simple_node(rng)
        return spec.UnionT([inner, spec.NoneT()], hint=typing.Optional[inner.hint], src=f"Optional[{inner.src}]")
    return spec.DictT("Dict", spec.StrT(), simple_node(rng))


def default_for(rng, node):
    """(req, default) pair: a default value / factory that is a valid value of the node."""
    if node.hashable and not isinstance(node, (spec.IterT, spec.DictT)):
        v = node.gen(rng)
        try:
            hash(v)
            return "default", v
        except TypeError:
            pass
    proto = node.gen(rng)
    return "factory", (lambda proto=proto: copy.deepcopy(proto))


def random_fields(rng, n=None, field_node=None, kinds_need_order=True, allow_optional=True):
    n = n or rng.randint(1, 5)
    names = rng.sample(FIELD_NAMES, n)
    fields = []
    for nm in names:
        node = (field_node or portable_field_node)(rng)
        if allow_optional and rng.random() < 0.45:
            req, dflt = default_for(rng, node)
            fields.append(FieldSpec(nm, node, req, dflt))
        else:
            fields.append(FieldSpec(nm, node))
    if kinds_need_order:
        fields.sort(key=lambda f: not f.required)   # required first (NamedTuple / dataclass / __init__ rule)
    return fields


def clone_fields(fields):
    return [FieldSpec(f.name, f.node, f.req, f.default, f.kw_only, f.annotation_src) for f in fields]


def random_model_node(rng, depth):
    """Model with fields drawn from the full grammar (used by the C01/C04/C06/C07 workloads)."""
    kind = rng.choice(["dataclass", "dataclass", "namedtuple", "attrs", "typeddict"])
    n = rng.randint(1, 4)
    names = rng.sample(FIELD_NAMES, n)
    fields = []
    for nm in names:
        node = spec.gen_type(rng, depth - 1, with_models=depth >= 2)
        if rng.random() < 0.4 and kind != "typeddict":
            try:
                req, dflt = default_for(rng, node)
            except LookupError:
                req, dflt = "req", None
            fields.append(FieldSpec(nm, node, req, dflt))
        elif rng.random() < 0.3 and kind == "typeddict":
            fields.append(FieldSpec(nm, node, "default", None))
        else:
            fields.append(FieldSpec(nm, node))
    fields.sort(key=lambda f: not f.required)
    return ModelT(kind, fields)


spec.MODEL_HOOK = random_model_node
