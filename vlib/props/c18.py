"""C18 - enum and flag representations are bijections on their members.

Monitor: generated Enum / Flag classes x the five representation providers x their option cubes; every
member and every constructible flag combination (exhaustive for n <= 6 bits) is dumped and reloaded
(bijection), and candidate data (all dumps, spelling neighbours, wrong types, out-of-range ints, duplicates,
unhashables) must be accepted exactly when they are the representation of a member, and rejected with
LoadError otherwise."""
from __future__ import annotations

import enum
import itertools

from adaptix import NameStyle, ProviderNotFoundError, Retort, enum_by_exact_value, enum_by_name, enum_by_value, flag_by_exact_value, flag_by_member_names
from adaptix.load_error import LoadError

from ..adx import MODES, attempt, make_retort, mode_name
from ..eq import strict_eq
from ..layout import style_ref

_n = itertools.count()
WRONG = [None, True, 0, 1, -1, 1.0, 2**70, "", "a", "A", "zzz", b"a", [], ["zzz"], [["R"]], {}, {"R": 1}, (1, 2), object(), [None], "R,W"]


# ---- class generators --------------------------------------------------------------------------------------
def gen_enum(rng):
    style = rng.choice(["int", "str", "mixed", "tuple", "intenum", "strmixin", "unhashable", "float-bool"])
    n = rng.randint(2, 5)
    names = rng.sample(["ALPHA", "BETA", "GAMMA_RAY", "DELTA", "E1", "long_lower_name", "Zed"], n)
    if style == "int":
        vals = rng.sample([0, 1, 2, 5, 10, -3], n)
    elif style == "str":
        vals = rng.sample(["a", "b", "", "Long Value", "é", "alpha"], n)
    elif style == "mixed":
        vals = rng.sample([1, "1", None, 2.5, "x", (1,)], n)
    elif style == "tuple":
        vals = rng.sample([(1, 2), (1, 3), ("a",), (), (None, 1)], n)
    elif style == "intenum":
        vals = rng.sample([0, 1, 2, 7, 100], n)
    elif style == "strmixin":
        vals = rng.sample(["x", "why", "", "Z z"], min(n, 4))
        names = names[:len(vals)]
        if rng.random() < 0.5:
            vals[0] = names[1]     # a member whose VALUE is the NAME of another member: a str-mixin member equals its value (defect #51)
    elif style == "unhashable":
        vals = [[1, 2], [3], {"k": 1}, "plain", 7][:n]
    else:
        vals = rng.sample([1.5, 2.5, True, False, 0.0][:5], n)
        # True == 1.0 style collisions make members aliases of each other; keep values pairwise unequal
        seen = []
        vals = [v for v in vals if not any(v == s for s in seen) and not seen.append(v)]
        names = names[:len(vals)]
    members = dict(zip(names, vals))
    if rng.random() < 0.3 and style not in ("unhashable",):
        members["ALIAS_OF_FIRST"] = vals[0]
    base = (enum.IntEnum,) if style == "intenum" else (str, enum.Enum) if style == "strmixin" else (enum.Enum,)
    cls = base[-1](f"E{next(_n)}", members, type=base[0] if len(base) == 2 else None) if len(base) == 2 else base[0](f"E{next(_n)}", members)
    return style, cls


def gen_flag(rng):
    nbits = rng.randint(1, 6)
    style = rng.choice(["plain", "plain", "zero", "compound", "multibit-only", "alias", "intflag", "zero+compound", "overlapping-compounds"])
    if style == "overlapping-compounds":
        # multi-bit members that OVERLAP while their non-shared bits have no single-bit member (READ=1, READ_WRITE=3, READ_EXEC=5):
        # the list of names of READ_WRITE | READ_EXEC needs both compound names (seeded change: the dumper 'consumed' the shared bit)
        members = {"READ": 1, "READ_WRITE": 3, "READ_EXEC": 5}
        if nbits >= 4:
            members["OWN"] = 8
        if nbits >= 5:
            members["OWN_DEL"] = 24
        if rng.random() < 0.3:
            members["NONE"] = 0
        return style, enum.Flag(f"F{next(_n)}", members)
    bit_names = ["R", "W", "X", "Del", "admin_mode", "OWN"][:nbits]
    members = {}
    if "zero" in style:
        members["NONE"] = 0
    if style == "multibit-only" and nbits >= 2:
        members["RW"] = 3
        for i, nm in enumerate(bit_names[2:], start=2):
            members[nm] = 1 << i
    else:
        for i, nm in enumerate(bit_names):
            members[nm] = 1 << i
    if "compound" in style and nbits >= 2:
        members["RW_ALL"] = 3
        if nbits >= 3:
            members["ALL"] = (1 << nbits) - 1
    if style == "alias":
        members["READ"] = 1
    base = enum.IntFlag if style == "intflag" else enum.Flag
    cls = base(f"F{next(_n)}", members)
    return style, cls


def constructible(cls):
    """'Any combination of flags': the values that ARE a union of members. cls(v) alone is no criterion - modern Pythons hand out a
    pseudo-member for any v inside the mask, also for a bit that exists only inside a multi-bit member (defect #86)."""
    vals = [m.value for m in cls.__members__.values()]
    mask = 0
    for v in vals:
        mask |= v
    out = []
    for v in range(mask + 1):
        acc = 0
        for mv in vals:
            if mv & ~v == 0:
                acc |= mv
        if acc != v:
            continue
        try:
            out.append(cls(v))
        except ValueError:
            pass
    return mask, out


# ---- checks --------------------------------------------------------------------------------------------------
def lookalike(d, reps):
    for r in reps:
        try:
            if d == r and type(d) is not type(r):
                return True
        except Exception:  # noqa: BLE001
            pass
    return False


def in_reps(d, reps):
    return next((i for i, r in enumerate(reps) if strict_eq(d, r)), None)


def check_enum(ctx, cls, style, prov_name, provider, ref_dump, modes, value_tp=None):
    desc = {"class": f"{cls.__name__}({', '.join(f'{k}={v.value!r}' for k, v in cls.__members__.items())})", "style": style, "provider": prov_name}
    members = list(cls)       # canonical members (aliases excluded)
    for dt, sc in modes:
        r = make_retort(dt, sc, [provider] if provider is not None else [])
        ld, dp = attempt(r.get_loader, cls), attempt(r.get_dumper, cls)
        if ld.kind != "ok" or dp.kind != "ok":
            bad = ld if ld.kind != "ok" else dp
            ctx.violation(f"creation-failed:{prov_name}:{type(bad.exc).__name__}", f"{prov_name} on {desc['class']}: {bad.exc!r} cause={getattr(bad.exc, '__cause__', None)!r:.300}", desc)
            return
        reps = []
        for m in members:
            d = attempt(dp.value, m)
            ctx.evaluated((desc["class"], prov_name, "roundtrip", m.name, dt.name, sc), nontrivial=len(members) >= 2)
            ctx.count("enum_roundtrips")
            if d.kind != "ok":
                ctx.violation(f"dump-failed:{prov_name}:{type(d.exc).__name__}", f"{prov_name}: dump({m!r}) raised {d.exc!r}", desc)
                return
            if ref_dump is not None and not strict_eq(d.value, ref_dump(m)):
                ctx.violation(f"dump-differs:{prov_name}", f"{prov_name}: dump({m!r}) = {d.value!r}, documented {ref_dump(m)!r}", desc)
            reps.append(d.value)
            back = attempt(ld.value, d.value)
            if back.kind != "ok" or back.value is not m:
                ctx.violation(f"not-a-bijection:{prov_name}:{style}", f"{prov_name}: load(dump({m!r})) = load({d.value!r}) -> {back!r:.200} [{mode_name(dt, sc)}]", desc)
        # candidates: neighbours of representations + wrong data
        cands = list(WRONG)
        for rep in reps:
            if isinstance(rep, str):
                cands += [rep.upper(), rep.lower(), rep + " ", rep.title(), rep.replace("_", "-")]
            elif isinstance(rep, int) and not isinstance(rep, bool):
                cands += [rep + 1000, float(rep), str(rep)]
        cands += [m for m in members[:2]]
        for d in cands:
            out = attempt(ld.value, d)
            i = in_reps(d, reps)
            if value_tp is not None and i is None:
                # enum_by_value: "the loader will call the loader of tp and pass it to the enum constructor": whatever tp's loader makes of d counts
                via = attempt(r.load, d, value_tp)
                if via.kind == "ok":
                    i = next((j for j, m in enumerate(members) if strict_eq(via.value, m.value)), None)
                    if i is None and any(via.value == m.value for m in members):
                        ctx.count("unspecified_lookalike")
                        continue
            ctx.evaluated((desc["class"], prov_name, "candidate", repr(d)[:60], dt.name, sc), nontrivial=True)
            ctx.count("enum_candidates")
            if i is not None:
                if out.kind != "ok" or out.value is not members[i]:
                    ctx.violation(f"representation-rejected:{prov_name}", f"{prov_name}: {d!r} is the representation of {members[i]!r} but load gave {out!r:.200}", desc)
            elif lookalike(d, reps) or isinstance(d, cls):
                ctx.count("unspecified_lookalike")
            elif out.kind == "ok":
                ctx.violation(f"non-representation-accepted:{prov_name}:{type(d).__name__}", f"{prov_name}: {d!r} represents no member of {desc['class']} but loaded as {out.value!r} [{mode_name(dt, sc)}]", desc)
            elif out.kind != "load_error":
                ctx.violation(f"non-loaderror:{prov_name}:{type(out.exc).__name__}", f"{prov_name}: {d!r} rejected with {out.exc!r} [{mode_name(dt, sc)}]", desc)


def name_rep(m, name_style, mp):
    if mp:
        for k, v in mp.items():      # a map key is a member (identity) or a member NAME; a str-mixin member == its value must not matter
            if k is m:
                return v
        for k, v in mp.items():
            if not isinstance(k, enum.Enum) and k == m.name:
                return v
    return style_ref(m.name, name_style) if name_style else m.name


def check_flag_exact(ctx, cls, style, modes):
    desc = {"class": f"{cls.__name__}({', '.join(f'{k}={v.value}' for k, v in cls.__members__.items())})", "style": style, "provider": "flag_by_exact_value"}
    mask, combos = constructible(cls)
    for dt, sc in modes:
        r = make_retort(dt, sc)
        ld, dp = attempt(r.get_loader, cls), attempt(r.get_dumper, cls)
        if ld.kind != "ok" or dp.kind != "ok":
            bad = ld if ld.kind != "ok" else dp
            ctx.violation(f"creation-failed:flag_by_exact_value:{type(bad.exc).__name__}", f"flag_by_exact_value on {desc['class']}: {bad.exc!r}", desc)
            return
        for x in combos:
            d = attempt(dp.value, x)
            ctx.evaluated((desc["class"], "exact", x.value, dt.name, sc), nontrivial=len(cls.__members__) >= 2)
            ctx.count("flag_roundtrips")
            back = attempt(ld.value, d.value) if d.kind == "ok" else d
            if d.kind != "ok" or type(d.value) is not int or d.value != x.value or back.kind != "ok" or back.value != x or type(back.value) is not type(x):
                ctx.violation(f"not-a-bijection:flag_by_exact_value:{style}", f"flag_by_exact_value: {x!r} -> {d!r:.100} -> {back!r:.100}", desc)
        ok_values = {x.value for x in combos}
        for d in [*range(-2, mask + 3), *WRONG]:
            out = attempt(ld.value, d)
            ctx.count("flag_candidates")
            ctx.evaluated((desc["class"], "exact-candidate", repr(d)[:40], dt.name, sc), nontrivial=True)
            if type(d) is int and d in ok_values:
                if out.kind != "ok" or out.value.value != d:
                    ctx.violation("representation-rejected:flag_by_exact_value", f"{d} is a value of {desc['class']} but load gave {out!r:.200}", desc)
            elif type(d) is bool or (isinstance(d, float) and d in ok_values):
                ctx.count("unspecified_lookalike")
            elif out.kind == "ok":
                ctx.violation(f"non-representation-accepted:flag_by_exact_value:{type(d).__name__}", f"{d!r} is no combination of {desc['class']} but loaded as {out.value!r}", desc)
            elif out.kind != "load_error":
                ctx.violation(f"non-loaderror:flag_by_exact_value:{type(out.exc).__name__}", f"{d!r} rejected with {out.exc!r} [{mode_name(dt, sc)}]", desc)


def check_flag_names(ctx, rng, cls, style, opts, modes):  # noqa: C901, PLR0912
    single, dups, compound, name_style, mp_kind = opts
    members = list(cls.__members__.values())
    mp = None
    if mp_kind == "by-name":
        mp = {members[0].name: "first!"}
    elif mp_kind == "by-member":
        mp = {members[-1]: "last!"}
    provider = flag_by_member_names(allow_single_value=single, allow_duplicates=dups, allow_compound=compound, name_style=name_style, map=mp)
    desc = {"class": f"{cls.__name__}({', '.join(f'{k}={v.value}' for k, v in cls.__members__.items())})", "style": style,
            "provider": f"flag_by_member_names(single={single}, dups={dups}, compound={compound}, style={name_style.name if name_style else None}, map={mp_kind})"}
    pkey = "flag_by_member_names"
    mask, combos = constructible(cls)
    single_bit = [m for m in members if m.value and m.value & (m.value - 1) == 0]
    usable = members if compound else single_bit
    covered = 0
    for m in usable:
        covered |= m.value
    name_to_member = {name_rep(m, name_style, mp): m for m in usable}
    if not name_to_member:
        ctx.count("no_nameable_member_skip")
        return

    def expressible(x):
        acc = 0
        for m in usable:
            if m.value & ~x.value == 0:
                acc |= m.value
        return acc == x.value
    for dt, sc in modes:
        r = make_retort(dt, sc, [provider])
        ld, dp = attempt(r.get_loader, cls), attempt(r.get_dumper, cls)
        if ld.kind != "ok" or dp.kind != "ok":
            bad = ld if ld.kind != "ok" else dp
            cause = getattr(bad.exc, "__cause__", None)
            ctx.violation(f"creation-failed:{pkey}:{type(bad.exc).__name__}:{'zero-member' if any(m.value == 0 for m in members) else style}",
                          f"{desc['provider']} on {desc['class']}: {'loader' if ld.kind != 'ok' else 'dumper'} creation failed: {bad.exc!r} cause={cause!r:.300}", desc)
            return
        for x in combos:
            if not expressible(x):
                continue     # not a union of nameable members (bits that exist only inside a multi-bit member): outside the bijection's domain
            d = attempt(dp.value, x)
            ctx.evaluated((desc["class"], desc["provider"], x.value, dt.name, sc), nontrivial=len(members) >= 2)
            ctx.count("flag_roundtrips")
            if d.kind != "ok":
                ctx.violation(f"dump-failed:{pkey}:{type(d.exc).__name__}", f"{desc['provider']}: dump({x!r}) raised {d.exc!r}", desc)
                continue
            names = d.value
            if not isinstance(names, list) or any(n not in name_to_member for n in names):
                ctx.violation(f"dump-differs:{pkey}", f"{desc['provider']}: dump({x!r}) = {names!r} is not a list of configured member names {sorted(name_to_member)}", desc)
                continue
            acc = 0
            for n in names:
                acc |= name_to_member[n].value
            back = attempt(ld.value, names)
            if acc != x.value or back.kind != "ok" or back.value != x:
                ctx.violation(f"not-a-bijection:{pkey}:{style}", f"{desc['provider']}: {x!r} -> {names!r} -> {back!r:.200} [{mode_name(dt, sc)}]", desc)
        # candidates
        names = list(name_to_member)
        cands = [[], names[:1], names[:2], list(reversed(names[:3])), names[:1] * 2, [names[0], "zzz"], ["zzz"], [names[0].upper() + "?"], names[0], tuple(names[:2]), set(names[:1]),
                 iter(names[:1]), {names[0]: 1}, [[names[0]]], [names[0], None], [1], 5, None, [{}], "zzz", [m.name for m in members if m not in usable][:1] or ["zzz"], *WRONG[:6]]
        for d in cands:
            shown = repr(d)[:80]
            is_list = isinstance(d, (list, tuple, set)) or hasattr(d, "__next__")
            items = list(d) if isinstance(d, (list, tuple, set)) else None
            out = attempt(ld.value, d)
            ctx.evaluated((desc["class"], desc["provider"], "candidate", shown, dt.name, sc), nontrivial=True)
            ctx.count("flag_candidates")
            expect = None     # 'ok' value | 'reject' | None (unspecified)
            if items is not None and all(isinstance(i, str) and i in name_to_member for i in items):
                if not dups and len(items) != len(set(items)):
                    expect = "reject"
                else:
                    v = 0
                    for i in items:
                        v |= name_to_member[i].value
                    expect = ("ok", v)
            elif items is not None:
                expect = "reject"
            elif isinstance(d, str):
                expect = ("ok", name_to_member[d].value) if single and d in name_to_member else "reject"
            elif hasattr(d, "__next__"):
                expect = None
            elif isinstance(d, dict):
                expect = "reject" if sc else None
            else:
                expect = "reject"
            if expect is None:
                ctx.count("unspecified_candidate")
                continue
            if expect == "reject":
                if out.kind == "ok":
                    ctx.violation(f"non-representation-accepted:{pkey}:{type(d).__name__}", f"{desc['provider']}: {shown} is no representation but loaded as {out.value!r} [{mode_name(dt, sc)}]", desc)
                elif out.kind != "load_error":
                    ctx.violation(f"non-loaderror:{pkey}:{type(out.exc).__name__}", f"{desc['provider']}: {shown} rejected with {out.exc!r} [{mode_name(dt, sc)}]", desc)
            elif out.kind != "ok" or out.value.value != expect[1]:
                ctx.violation(f"representation-rejected:{pkey}", f"{desc['provider']}: {shown} names members with value {expect[1]} but load gave {out!r:.200} [{mode_name(dt, sc)}]", desc)


OPTION_CUBE = list(itertools.product([False, True], [False, True], [False, True], [None, NameStyle.CAMEL, NameStyle.UPPER_KEBAB, NameStyle.LOWER_DOT], ["none", "by-name", "by-member"]))


def run_case(ctx, rng, idx):
    modes = MODES if ctx.tier == "thorough" else rng.sample(MODES, 2)
    if idx % 2 == 0:
        style, cls = gen_enum(rng)
        ctx.count("enum_classes")
        ctx.count(f"enum_style_{style}")
        if idx < 2:
            ctx.sample({"class": f"{cls.__name__}", "members": {k: repr(v.value) for k, v in cls.__members__.items()}, "style": style})
        check_enum(ctx, cls, style, "enum_by_exact_value", None, lambda m: m.value, modes)
        ns = rng.choice([None, NameStyle.CAMEL, NameStyle.UPPER_SNAKE, NameStyle.LOWER_KEBAB, NameStyle.PASCAL_DOT])
        mp_kind = rng.choice(["none", "by-name", "by-member"])
        first, last = list(cls)[0], list(cls)[-1]
        by_name_key = rng.choice(list(cls)).name
        mp = {by_name_key: "first!"} if mp_kind == "by-name" else {last: "last!"} if mp_kind == "by-member" else None
        if all(n.replace("_", "a").isalnum() for n in cls.__members__):
            check_enum(ctx, cls, style, f"enum_by_name(style={ns.name if ns else None}, map={mp_kind})", enum_by_name(name_style=ns, map=mp), lambda m: name_rep(m, ns, mp), modes)
        if style in ("int", "intenum"):
            check_enum(ctx, cls, style, "enum_by_value(tp=int)", enum_by_value(cls, tp=int), lambda m: m.value, modes, value_tp=int)
        elif style in ("str", "strmixin"):
            check_enum(ctx, cls, style, "enum_by_value(tp=str)", enum_by_value(cls, tp=str), lambda m: m.value, modes, value_tp=str)
    else:
        style, cls = gen_flag(rng)
        ctx.count("flag_classes")
        ctx.count(f"flag_style_{style}")
        if idx < 3:
            ctx.sample({"class": cls.__name__, "members": {k: v.value for k, v in cls.__members__.items()}, "style": style})
        check_flag_exact(ctx, cls, style, modes)
        cube = OPTION_CUBE if ctx.tier == "thorough" else rng.sample(OPTION_CUBE, 10)
        for opts in cube:
            ctx.count("flag_option_combinations")
            check_flag_names(ctx, rng, cls, style, opts, modes[:1] if ctx.tier == "quick" else modes)


def _refusals(ctx):
    """Flags with skipped bits or negative values: the documented refusal (creation fails with ProviderNotFoundError)."""
    for name, members in (("skipped", {"A": 1, "C": 4}), ("negative", {"A": 1, "N": -2})):
        try:
            cls = enum.Flag(f"Bad{next(_n)}", members)
        except Exception:  # noqa: BLE001
            continue
        out = attempt(Retort().get_loader, cls)
        ctx.evaluated(("refusal", name))
        ctx.count("documented_refusals")
        # the property only demands that creation succeeds for the flags the documentation does NOT exclude; how an excluded class is refused is not stated
        ctx.count(f"excluded_flag_{name}_{'accepted' if out.kind == 'ok' else type(out.exc).__name__}")


def _witnesses(ctx):
    import random  # noqa: PLC0415

    rng = random.Random(0)
    Zero = enum.Flag("ZeroFlag", {"NONE": 0, "R": 1, "W": 2})
    for opts in [(False, True, True, None, "none"), (False, True, False, None, "none"), (True, False, True, None, "none")]:
        check_flag_names(ctx, rng, Zero, "zero", opts, MODES[:2])
    Multi = enum.Flag("MultiBitOnly", {"RW": 3, "X": 4})
    check_flag_exact(ctx, Multi, "multibit-only", MODES[:2])
    check_flag_names(ctx, rng, enum.Flag("Plain", {"R": 1, "W": 2, "X": 4}), "plain", (False, False, True, None, "none"), MODES[:2])


def _str_subclass_is_a_str(ctx):
    """A list of member names is one representation, a single name another: an instance of a str subclass is a str, not an iterable of
    one-character names (defect #49: flag_by_member_names gave F.a|b for MyStr('ab'))."""
    from adaptix import flag_by_member_names  # noqa: PLC0415

    from ..hostile import MyStr  # noqa: PLC0415

    F = enum.Flag("Chars", {"a": 1, "b": 2, "ab": 4})
    for single in (True, False):
        for dt, sc in MODES[:2]:
            r = Retort(recipe=[flag_by_member_names(F, allow_single_value=single)], debug_trail=dt, strict_coercion=sc)
            for datum, plain in ((MyStr("ab"), "ab"), (MyStr("ba"), "ba"), (MyStr("a"), "a")):
                got, ref = attempt(r.load, datum, F), attempt(r.load, plain, F)
                ctx.evaluated(("str-subclass", single, dt.name, sc, plain))
                ctx.count("str_subclass_probes")
                same = got.kind == ref.kind and (got.kind != "ok" or got.value is ref.value)
                if not same:
                    ctx.violation("non-representation-accepted:flag_by_member_names:str-subclass",
                                  f"flag_by_member_names(allow_single_value={single}): {datum!r} ({type(datum).__name__}) -> {got!r}, the plain str {plain!r} -> {ref!r}", {"single": single})


def _lookalike_classes_through_one_provider(ctx):
    """One provider object (enum_by_name() / flag_by_member_names() without a class predicate, or the builtin exact-value providers) serves
    every enum class of a retort: two classes whose members EQUAL each other pairwise (int / str mix-ins with the same values, other
    names) must each get their own table, in either order of first use (seeded change: by-name mapping memoised on the tuple of members)."""
    pairs = [
        ("IntEnum", enum.IntEnum("Priority", {"LOW": 1, "HIGH": 2}), enum.IntEnum("Weekday", {"MONDAY": 1, "TUESDAY": 2})),
        ("str-mixin", enum.Enum("Color", {"RED": "r", "GREEN": "g"}, type=str), enum.Enum("Signal", {"STOP": "r", "GO": "g"}, type=str)),
        ("plain", enum.Enum("Left", {"A": 1, "B": 2}), enum.Enum("Right", {"X": 1, "Y": 2})),
        ("IntFlag", enum.IntFlag("Perm", {"R": 1, "W": 2, "X": 4}), enum.IntFlag("Mode", {"IN": 1, "OUT": 2, "APPEND": 4})),
        ("Flag", enum.Flag("FPerm", {"R": 1, "W": 2}), enum.Flag("FMode", {"IN": 1, "OUT": 2})),
    ]
    for label, A, B in pairs:
        is_flag = issubclass(A, enum.Flag)
        provs = [("builtin", lambda: [])]
        if is_flag:
            provs += [("flag_by_member_names()", lambda: [flag_by_member_names()]), ("flag_by_exact_value()", lambda: [flag_by_exact_value()])]
        else:
            provs += [("enum_by_name()", lambda: [enum_by_name()]), ("enum_by_name(CAMEL)", lambda: [enum_by_name(name_style=NameStyle.CAMEL)]), ("enum_by_exact_value()", lambda: [enum_by_exact_value()])]
        for pname, mk in provs:
            for order in ((A, B), (B, A)):
                r = Retort(recipe=mk())
                fresh = {cls: Retort(recipe=mk()) for cls in order}
                for cls in order:
                    members = list(cls) + ([cls(3)] if is_flag else [])
                    for m in members:
                        got, ref = attempt(r.dump, m, cls), attempt(fresh[cls].dump, m, cls)
                        ctx.evaluated(("lookalike-classes", label, pname, order[0].__name__, cls.__name__, repr(m)), nontrivial=True)
                        ctx.count("enum_roundtrips")
                        info = {"pair": label, "provider": pname, "first": order[0].__name__, "class": cls.__name__}
                        if got.kind != ref.kind or (got.kind == "ok" and not strict_eq(got.value, ref.value)):
                            ctx.violation(f"lookalike-class-confused:{pname.split('(')[0]}", f"{pname}, {order[0].__name__} served first: dump({m!r}) = {got!r:.120}, a retort that only knows {cls.__name__} gives {ref!r:.120}", info)
                            continue
                        if got.kind != "ok":
                            continue
                        back = attempt(r.load, got.value, cls)
                        if back.kind != "ok" or back.value is not m and not (is_flag and back.value == m and type(back.value) is cls):
                            ctx.violation(f"lookalike-class-confused:{pname.split('(')[0]}", f"{pname}, {order[0].__name__} served first: load(dump({m!r})) = load({got.value!r}) -> {back!r:.120}", info)


def _unhashable_members(ctx):
    """Known finding: an Enum with a dataclass mix-in (the 'dataclass support' pattern of the enum HOWTO) has UNHASHABLE members
    (dataclass(eq=True) sets __hash__ = None); the exact-value dumper and the by-name tables are dicts keyed by member."""
    from dataclasses import dataclass  # noqa: PLC0415

    @dataclass
    class CreatureData:
        size: str
        legs: int

    class Creature(CreatureData, enum.Enum):
        BEETLE = "small", 6
        DOG = "medium", 4
    for pname, prov in (("enum_by_exact_value", []), ("enum_by_name", [enum_by_name()])):
        r = Retort(recipe=prov)
        for what, fn in (("loader", r.get_loader), ("dumper", r.get_dumper)):
            made = attempt(fn, Creature)
            ctx.evaluated(("unhashable-members", pname, what), nontrivial=True)
            ctx.count("enum_roundtrips")
            if made.kind != "ok":
                ctx.violation(f"creation-failed:unhashable-members:{type(made.exc).__name__}", f"{pname} {what} for an Enum with a dataclass mix-in: {made.exc!r:.200}", {"provider": pname, "what": what})
                continue
            if what == "dumper":
                for m in Creature:
                    d = attempt(made.value, m)
                    back = attempt(r.load, d.value, Creature) if d.kind == "ok" else d
                    if back.kind != "ok" or back.value is not m:
                        ctx.violation(f"not-a-bijection:{pname}:unhashable-members", f"{pname}: {m!r} -> {d!r:.100} -> {back!r:.100}", {"provider": pname})


def _big_bits_and_dependent_bits(ctx):
    """Bits beyond the exact range of a float (single-bit members were recognised with math.log2: defect #85) and bits that exist only
    inside a multi-bit member, also under boundary=KEEP (defect #86)."""
    hi = 1 << 53
    for order in (("BOTH", "LOW", "HIGH"), ("LOW", "HIGH", "BOTH"), ("HIGH", "BOTH", "LOW")):
        vals = {"BOTH": hi | 1, "LOW": 1, "HIGH": hi}
        Big = enum.Flag("Big", {k: vals[k] for k in order})
        for compound in (False, True):
            for dt, sc in MODES[:2]:
                r = make_retort(dt, sc, [flag_by_member_names(allow_compound=compound)])
                info = {"class": f"Big({', '.join(order)})", "allow_compound": compound}
                for x in (Big.LOW, Big.HIGH, Big.LOW | Big.HIGH):
                    d = attempt(r.dump, x, Big)
                    ctx.evaluated(("big-bits", order, compound, x.value, dt.name, sc), nontrivial=True)
                    ctx.count("flag_roundtrips")
                    back = attempt(r.load, d.value, Big) if d.kind == "ok" else d
                    legal = {"LOW", "HIGH"} | ({"BOTH"} if compound else set())
                    if d.kind != "ok" or not isinstance(d.value, list) or not set(d.value) <= legal or back.kind != "ok" or back.value != x:
                        ctx.violation("not-a-bijection:flag_by_member_names:big-bits", f"allow_compound={compound}, members {order}: {x!r} -> {d!r:.100} -> {back!r:.100}", info)
                out = attempt(r.load, ["BOTH"], Big)
                ctx.count("flag_candidates")
                if compound and (out.kind != "ok" or out.value != Big.BOTH):
                    ctx.violation("representation-rejected:flag_by_member_names", f"allow_compound=True: ['BOTH'] -> {out!r:.120}", info)
                if not compound and out.kind == "ok":
                    ctx.violation("non-representation-accepted:flag_by_member_names:compound-name", f"allow_compound=False: the compound name ['BOTH'] loaded as {out.value!r}", info)
                elif not compound and out.kind != "load_error":
                    ctx.violation(f"non-loaderror:flag_by_member_names:{type(out.exc).__name__}", f"['BOTH'] rejected with {out.exc!r}", info)
    check_flag_exact(ctx, enum.Flag("MB", {"A": 1, "BC": 6}), "dependent-bits", MODES[:2])
    check_flag_exact(ctx, enum.Flag("MB2", {"AB": 3, "CD": 12, "E": 16}), "dependent-bits", MODES[:2])
    if hasattr(enum, "KEEP"):
        check_flag_exact(ctx, enum.Flag("K", {"A": 1, "ALL": 0xFF}, boundary=enum.KEEP), "dependent-bits-keep", MODES[:2])
        check_flag_exact(ctx, enum.IntFlag("KI", {"A": 1, "BCD": 14}), "dependent-bits-intflag", MODES[:2])


def _bits_without_a_single_bit_name(ctx):
    """Known finding: flag_by_member_names(allow_compound=False) on a flag whose bits exist only inside multi-bit members (READ = 1,
    WRITE_DELETE = 6): the dumper may use single-bit names only, finds none for bits 2 and 4 and DROPS them silently - dump(WRITE_DELETE)
    == [], which loads as the zero flag. (allow_compound=True is a bijection on the same class and is checked as such.)"""
    for cls in (enum.Flag("Access", {"READ": 1, "WRITE_DELETE": 6}), enum.IntFlag("AccessI", {"R": 1, "WX": 6, "ALL": 7})):
        multi = [m for m in cls.__members__.values() if m.value & (m.value - 1)]
        for compound in (False, True):
            for dt, sc in MODES[:2]:
                r = make_retort(dt, sc, [flag_by_member_names(allow_compound=compound)])
                for x in [*multi, cls(1) | multi[0]]:
                    d = attempt(r.dump, x, cls)
                    back = attempt(r.load, d.value, cls) if d.kind == "ok" else d
                    ctx.evaluated(("bits-without-a-name", cls.__name__, compound, x.value, dt.name, sc), nontrivial=True)
                    ctx.count("flag_roundtrips")
                    if back.kind != "ok" or back.value != x:
                        key = "not-a-bijection:flag_by_member_names:bits-without-a-single-bit-name" if not compound else "not-a-bijection:flag_by_member_names:dependent-bits"
                        ctx.violation(key, f"allow_compound={compound} on {cls.__name__}: {x!r} -> {d!r:.100} -> {back!r:.100}", {"class": cls.__name__, "allow_compound": compound})


DIRECTED = {"bits-without-a-single-bit-name": _bits_without_a_single_bit_name, "unhashable-members": _unhashable_members, "big-bits-and-dependent-bits": _big_bits_and_dependent_bits, "lookalike-classes-through-one-provider": _lookalike_classes_through_one_provider, "documented-refusals": _refusals, "zero-member-multibit-unhashable": _witnesses, "str-subclass-is-a-str": _str_subclass_is_a_str}
