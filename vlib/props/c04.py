"""C04 - invalid input raises LoadError and nothing else.

Monitor: exception-class monitor around every load of a builtin-only retort, over the hostile pool,
type-directed mutants and valid data, in all 6 modes and under 0-2 container levels."""
from __future__ import annotations

from .. import hostile, spec
from ..adx import MODES, attempt, escape_key, mode_name
from ..workload import ONE_SHOT, Program, data_bag, gen_node


def check_loads(ctx, node, prog, bag):
    for label, fac, _one_shot in bag:
        for (dt, sc), loader in prog.loaders.items():
            d = fac()
            out = attempt(loader, d)
            raised = out.kind != "ok"
            ctx.evaluated((node.src, label, repr(d)[:200], dt.name, sc), nontrivial=raised)
            ctx.count(f"outcome_{out.kind}")
            if out.kind in ("exc", "impure"):
                key = escape_key(out.exc)
                if key.startswith("TypeError@iter_loader") and ("unhashable" in repr(out.exc) or "Cannot hash" in repr(out.exc)):
                    key = "TypeError-unhashable-element@set-building-iterable-loader"   # one mechanism, four generated closures
                ctx.violation(key, f"{node.src} <- {label} = {d!r:.120} [{mode_name(dt, sc)}]: escaped {type(out.exc).__name__}: {str(out.exc)[:160]}",
                              {"type": node.src, "datum": repr(d)[:400], "mode": mode_name(dt, sc), "exception": repr(out.exc)[:600]})


def wrap(rng, node):
    """Puts the node under 0-2 container levels (the modes of every container above are part of the quantifier)."""
    for _ in range(rng.choice([0, 0, 1, 1, 2])):
        k = rng.choice(["List", "Dict", "Tuple", "Optional", "Sequence", "VarTuple"])
        if k == "Dict":
            node = spec.DictT("Dict", spec.StrT(), node)
        elif k == "Tuple":
            node = spec.TupleT([spec.IntT(), node])
        elif k == "Optional":
            if node.kind in ("None", "Optional", "Union") or node.class_origin is None:
                continue
            node = spec.UnionT([node, spec.NoneT()])
        else:
            node = spec.IterT(k, node)
    return node


def wrap_datum(node, inner, fac):
    """Datum factory placing `fac()` at the position of `inner` inside containers built by wrap()."""
    def build(n):
        if n is inner:
            return fac()
        if isinstance(n, spec.DictT):
            return {"k": build(n.val)}
        if isinstance(n, spec.TupleT):
            return [0, build(n.children[1])]
        if isinstance(n, spec.UnionT):
            return build(n.children[0])
        if isinstance(n, spec.IterT):
            return [build(n.elem)]
        return fac()
    return lambda: build(node)


class _Q:
    def count(self, *a, **k):
        pass


def run_layout_case(ctx, rng):
    """Models with name_mapping layouts (renames, nested paths, list layouts, as_list, ExtraForbid) x hostile data at the root,
    at every branch node and at every leaf (int-keyed mappings for list nodes included)."""
    from .. import models  # noqa: PLC0415
    from . import c05  # noqa: PLC0415

    node = c05.gen_model(rng, rng.choice([1, 2]), _Q())
    providers = models.collect_providers(node)
    prog = Program(node, providers)
    if any(k[0] == "loader" for k in prog.creation_errors):
        ctx.count("layout_loader_refused")
        return
    try:
        valid = c05.to_mutable(node.dump(node.gen(rng)))
    except LookupError:
        return
    ctx.count("layout_programs")
    bag = [("valid", (lambda: __import__("copy").deepcopy(valid)), False)]
    for label, fac in hostile.mutants(rng, valid, 24):
        bag.append((label, fac, False))
    for label, fac in rng.sample(hostile.POOL, 12):
        bag.append((label, fac, label in ONE_SHOT))
    # int-keyed mappings in place of every list node
    import copy  # noqa: PLC0415

    def list_paths(d, prefix=()):
        if isinstance(d, list):
            yield prefix
            for i, v in enumerate(d):
                yield from list_paths(v, (*prefix, i))
        elif isinstance(d, dict):
            for k, v in d.items():
                yield from list_paths(v, (*prefix, k))
    for path in list(list_paths(valid))[:6]:
        for variant in ("all", "first-only", "second-only"):
            def fac(path=path, variant=variant):
                d = copy.deepcopy(valid)
                cur, parent, key = d, None, None
                for el in path:
                    parent, key, cur = cur, el, cur[el]
                mp = {i: v for i, v in enumerate(cur)}
                if variant == "first-only":
                    mp = {0: mp.get(0)}
                elif variant == "second-only":
                    mp = {1: mp.get(1, 0)}
                if parent is None:
                    return mp
                parent[key] = mp
                return d
            bag.append((f"int-keyed-mapping@{list(path)}:{variant}", fac, False))
    check_loads(ctx, node, prog, bag)


def run_case(ctx, rng, idx):
    run_layout_case(ctx, rng)
    inner = gen_node(rng, ctx.tier, max_depth=2, with_models=True)
    node = wrap(rng, inner)
    prog = Program(node)
    for (kind, dt, sc), e in prog.creation_errors.items():
        ctx.count("creation_errors")
    values, bag = data_bag(rng, inner, n_valid=2, n_mut=10, n_pool=40)
    bag = [(lbl, wrap_datum(node, inner, fac), os_) for lbl, fac, os_ in bag]
    # data for the outer shape itself
    _, outer_bag = data_bag(rng, node, n_valid=1, n_mut=6, n_pool=8, with_values=False)
    ctx.count("programs")
    for k in node.kinds():
        ctx.count(f"kind_{k}")
    if idx < 3:
        ctx.sample({"type": node.src, "data": [lbl for lbl, _, _ in bag][:10]})
    check_loads(ctx, node, prog, bag + outer_bag)


def _full_pool(nodes):
    def run(ctx):
        for n in nodes:
            prog = Program(n)
            check_loads(ctx, n, prog, [(lbl, fac, lbl in ONE_SHOT) for lbl, fac in hostile.POOL])
    return run


def _one(node, datum):
    def run(ctx):
        check_loads(ctx, node, Program(node), [("directed", (lambda: datum), False)])
    return run


def _configured_providers(ctx):
    """Builtin providers that are switched on through the recipe (still 'only builtin providers'): enum / flag representations with
    their options, datetime by format / timestamp, default_dict - each x the whole hostile pool, bare and inside List / Dict / Optional."""
    import datetime as dtm  # noqa: PLC0415
    import itertools  # noqa: PLC0415
    import typing  # noqa: PLC0415

    from adaptix import (NameStyle, date_by_timestamp, datetime_by_format, datetime_by_timestamp, default_dict, enum_by_name, enum_by_value,  # noqa: PLC0415
                         flag_by_member_names)

    extra_data = [("['R',['W']]", lambda: ["R", ["W"]]), ("[{'R':1}]", lambda: [{"R": 1}]), ("[set()]", lambda: [set()]), ("[bytearray]", lambda: [bytearray(b"R")]),
                  ("['R','R']", lambda: ["R", "R"]), ("'R'", lambda: "R"), ("sNaN", lambda: __import__("decimal").Decimal("sNaN")), ("[sNaN]", lambda: [__import__("decimal").Decimal("sNaN")]),
                  ("1e20", lambda: 1e20), ("-1e20", lambda: -1e20), ("'2020-13-45'", lambda: "2020-13-45"), ("huge-ts", lambda: 10**18), ("nan-ts", lambda: float("nan"))]
    bag = [(lbl, fac, lbl in ONE_SHOT) for lbl, fac in hostile.POOL] + [(lbl, fac, False) for lbl, fac in extra_data]
    configs = []
    for single, dups, compound in itertools.product([False, True], repeat=3):
        configs.append((f"flag_by_member_names({single},{dups},{compound})", spec.FRWX, [flag_by_member_names(allow_single_value=single, allow_duplicates=dups, allow_compound=compound)]))
    configs += [
        ("flag_by_member_names(style)", spec.FZ, [flag_by_member_names(name_style=NameStyle.CAMEL)]),
        ("enum_by_name", spec.EInt, [enum_by_name()]), ("enum_by_name(style,map)", spec.EInt, [enum_by_name(name_style=NameStyle.LOWER_KEBAB, map={"A": "first"})]),
        ("enum_by_value(int)", spec.EInt, [enum_by_value(spec.EInt, tp=int)]), ("enum_by_value(str)", spec.EStr, [enum_by_value(spec.EStr, tp=str)]),
        ("enum_exact(unhashable values)", _unhashable_enum(), []), ("enum_exact(mixed)", spec.EMix, []),
        ("enum_by_value(Decimal)", _decimal_enum(), [enum_by_value(_decimal_enum(), tp=__import__("decimal").Decimal)]),
        ("enum_by_value(float)", _float_enum(), [enum_by_value(_float_enum(), tp=float)]),
        ("datetime_by_format", dtm.datetime, [datetime_by_format(fmt="%Y-%m-%d")]), ("datetime_by_timestamp", dtm.datetime, [datetime_by_timestamp()]),
        ("date_by_timestamp", dtm.date, [date_by_timestamp()]), ("default_dict", typing.DefaultDict[str, int], [default_dict(typing.DefaultDict[str, int], default_factory=int)]),
    ]
    for name, tp, recipe in configs:
        for wrap_name, hint in (("bare", tp), ("List", typing.List[tp]), ("Dict", typing.Dict[str, tp]), ("Optional", typing.Optional[tp])):
            node = spec.Node(hint, f"{name}/{wrap_name}")
            node.kind = "configured"
            prog = Program(node, recipe)
            ctx.count("configured_provider_programs")

            def place(fac, wrap_name=wrap_name):
                if wrap_name == "List":
                    return lambda: [fac()]
                if wrap_name == "Dict":
                    return lambda: {"k": fac()}
                return fac
            check_loads(ctx, node, prog, [(lbl, place(fac), os_) for lbl, fac, os_ in bag])


def _extra_kwargs(ctx):
    """extra_in=ExtraKwargs(): unknown keys go to **kwargs. Keys that cannot be keyword arguments (not a str, or equal to the name of a
    parameter that is filled from another key) make the datum unacceptable - that has to be a LoadError like any other."""
    import typing  # noqa: PLC0415

    from adaptix import ExtraKwargs, Retort, name_mapping  # noqa: PLC0415

    from ..adx import MODES  # noqa: PLC0415

    class KW:
        def __init__(self, a: int, b: int = 0, **kwargs):
            self.a, self.b, self.kwargs = a, b, kwargs
    plans = [("plain", {}, {"a": 1}), ("renamed", {"a": "x"}, {"x": 1}), ("nested", {"a": ("grp", "a")}, {"grp": {"a": 1}})]
    extras = [("non-str-key:int", {5: 2}), ("non-str-key:None", {None: 2}), ("non-str-key:tuple", {(1, 2): 3}), ("parameter-name:self", {"self": 1}),
              ("keyword:from", {"from": 1}), ("plain:u", {"u": 1}), ("empty-name", {"": 1}), ("two", {"u": 1, 7: 2})]
    for plan, mp, base in plans:
        for label, extra in extras + ([("parameter-name:a", {"a": 2})] if plan != "plain" else []) + [("parameter-name:b", {"b": 3})][:0]:
            for dt, sc in MODES:
                r = Retort(recipe=[name_mapping(KW, map=mp, extra_in=ExtraKwargs())], debug_trail=dt, strict_coercion=sc)
                for hint, wrap_ in ((KW, lambda d: d), (typing.List[KW], lambda d: [d])):
                    datum = wrap_({**base, **extra})
                    out = attempt(r.load, datum, hint)
                    ctx.evaluated(("extra-kwargs", plan, label, dt.name, sc, repr(hint)[:20]), nontrivial=True)
                    ctx.count("extra_kwargs_loads")
                    ctx.count(f"outcome_{out.kind}")
                    if out.kind in ("exc", "impure"):
                        undeliverable = label.startswith(("non-str-key", "parameter-name", "two"))
                        key = "TypeError-undeliverable-extra-key@ExtraKwargs" if undeliverable and "TypeError" in repr(non_load(out.exc)) else escape_key(out.exc)
                        ctx.violation(key, f"ExtraKwargs/{plan} <- {datum!r} [{mode_name(dt, sc)}]: escaped {type(out.exc).__name__}: {str(out.exc)[:160]}",
                                      {"plan": plan, "datum": repr(datum), "mode": mode_name(dt, sc), "exception": repr(out.exc)[:400]})


def _collected_extras_of_any_key_type(ctx):
    """Collecting policies (extra_in='field', a saturator, ExtraSkip / ExtraForbid for comparison) with SEVERAL unknown keys that are
    hashable but not comparable with each other (5 / 'x' / None / (1, 2)): the set of unknown keys needs no order (seeded change:
    sorted(set(data) - known_keys))."""
    import typing  # noqa: PLC0415
    from dataclasses import make_dataclass  # noqa: PLC0415

    from adaptix import ExtraForbid, ExtraSkip, Retort, name_mapping  # noqa: PLC0415

    from ..adx import MODES  # noqa: PLC0415

    M = make_dataclass("MX", [("a", int), ("rest", typing.Dict[typing.Any, typing.Any])])
    Inner = make_dataclass("InnerX", [("v", int), ("rest", typing.Dict[typing.Any, typing.Any])])
    Outer = make_dataclass("OuterX", [("inner", Inner), ("rest", typing.Dict[typing.Any, typing.Any])])
    N = make_dataclass("NX", [("a", int)])
    sink = {}
    unknowns = [{5: "five", "x": 2}, {None: 1, "x": 2}, {(1, 2): 3, 7: 4, "s": 5}, {1.5: 1, b"k": 2}, {"only": 1}, {5: 1}, {}]
    plans = [("extra_in=field", M, [name_mapping(M, extra_in="rest")], lambda u: {"a": 1, **u}),
             ("extra_in=field/nested", Outer, [name_mapping(Inner, extra_in="rest"), name_mapping(Outer, extra_in="rest")], lambda u: {"inner": {"v": 1, **u}, **u}),
             ("extra_in=saturator", N, [name_mapping(N, extra_in=lambda obj, extra: sink.update(extra))], lambda u: {"a": 1, **u}),
             ("ExtraSkip", N, [name_mapping(N, extra_in=ExtraSkip())], lambda u: {"a": 1, **u}), ("ExtraForbid", N, [name_mapping(N, extra_in=ExtraForbid())], lambda u: {"a": 1, **u})]
    for plan, cls, recipe, build in plans:
        for dt, sc in MODES:
            r = Retort(recipe=recipe, debug_trail=dt, strict_coercion=sc)
            for u in unknowns:
                datum = build(u)
                out = attempt(r.load, datum, cls)
                ctx.evaluated(("collected-extras", plan, repr(u), dt.name, sc), nontrivial=True)
                ctx.count("extra_collect_loads")
                ctx.count(f"outcome_{out.kind}")
                if out.kind in ("exc", "impure"):
                    ctx.violation(escape_key(out.exc), f"{plan} <- {datum!r} [{mode_name(dt, sc)}]: escaped {type(out.exc).__name__}: {str(out.exc)[:160]}",
                                  {"plan": plan, "datum": repr(datum), "mode": mode_name(dt, sc), "exception": repr(out.exc)[:400]})
                elif out.kind == "ok" and plan == "extra_in=field" and out.value.rest != u:
                    ctx.violation("collected-extras-differ", f"{plan} <- {datum!r}: rest = {out.value.rest!r}, the unknown keys are {u!r}", {"plan": plan})


def _invalid_data_after_a_failed_request(ctx):
    """History: the first request of a retort dies with an exception that is no CannotProvide (NameError of a forward reference that is defined
    only later) inside a cycle of models; the class is then defined and the SAME retort is given invalid (and valid) nested data: invalid data
    still raises LoadError and nothing else (seeded change: the call cache was cleared only after CannotProvide, so a never-bound recursion
    stub stayed behind: TypeError 'NoneType' object is not callable / a bare ExceptionGroup)."""
    import sys  # noqa: PLC0415
    import types as _types  # noqa: PLC0415
    import typing  # noqa: PLC0415

    from adaptix import Retort  # noqa: PLC0415

    from ..adx import MODES  # noqa: PLC0415

    src = ("from dataclasses import dataclass\nfrom typing import Optional, Union, List\n"
           "@dataclass\nclass Payload:\n    tag: 'Later'\n"
           "@dataclass\nclass Node:\n    value: int\n    next: Union['Node', Payload, None] = None\n"
           "@dataclass\nclass Tree:\n    kids: List['Tree']\n    leaf: Optional[Payload] = None\n")
    data = [{"value": 1, "next": {"value": 2, "next": 5}}, {"value": 1, "next": {"value": 2, "next": {"tag": {}}}}, {"value": 1, "next": {"value": None, "next": {"value": 3, "next": [1, 2]}}},
            {"value": "x"}, {"value": 1, "next": {"value": 2, "next": {"value": 3, "next": {"tag": {"z": "bad"}}}}}, {"value": 1, "next": {"value": 2, "next": {"tag": {"z": 1}}}}, 5]
    tdata = [{"kids": [{"kids": [{"kids": 5}]}]}, {"kids": [{"kids": [], "leaf": {"tag": {}}}]}, {"kids": [{"kids": [{"kids": [], "leaf": {"tag": {"z": 1}}}]}]}, {"kids": [{"kids": [None]}]}]
    for i, (dt, sc) in enumerate(MODES):
        mod = _types.ModuleType(f"vlib_c04_fwd{i}")
        sys.modules[mod.__name__] = mod
        exec(compile(src, "<vlib_c04_fwd>", "exec", dont_inherit=True), mod.__dict__)  # noqa: S102
        r = Retort(debug_trail=dt, strict_coercion=sc)
        firsts = [attempt(r.get_loader, mod.Node), attempt(r.get_loader, typing.List[mod.Tree])]
        ctx.count("failed_first_requests", sum(1 for f in firsts if f.kind != "ok"))
        exec(compile("@dataclass\nclass Later:\n    z: int\n", "<vlib_c04_fwd2>", "exec", dont_inherit=True), mod.__dict__)  # noqa: S102
        for tp, bag in ((mod.Node, data), (mod.Tree, tdata)):
            for d in bag:
                out = attempt(r.load, d, tp)
                ctx.evaluated(("after-failed-request", tp.__name__, repr(d), dt.name, sc), nontrivial=True)
                ctx.count("loads_after_failed_request")
                ctx.count(f"outcome_{out.kind}")
                if out.kind in ("exc", "impure"):
                    ctx.violation(escape_key(out.exc), f"after a failed first request, {tp.__name__} <- {d!r} [{mode_name(dt, sc)}]: escaped {type(out.exc).__name__}: {str(out.exc)[:160]}",
                                  {"datum": repr(d), "mode": mode_name(dt, sc), "exception": repr(out.exc)[:400], "first requests": [repr(f)[:120] for f in firsts]})


def non_load(e):
    from ..adx import non_load_leaves  # noqa: PLC0415

    return [type(x).__name__ for x in non_load_leaves(e)] or [type(e).__name__]


_ENUMS = {}


def _decimal_enum():
    import enum  # noqa: PLC0415
    from decimal import Decimal  # noqa: PLC0415

    if "d" not in _ENUMS:
        _ENUMS["d"] = enum.Enum("EDecimal", {"A": Decimal(1), "B": Decimal(2)})
    return _ENUMS["d"]


def _float_enum():
    import enum  # noqa: PLC0415

    if "f" not in _ENUMS:
        _ENUMS["f"] = enum.Enum("EFloat", {"A": 1.5, "N": float("nan")})
    return _ENUMS["f"]


def _unhashable_enum():
    import enum  # noqa: PLC0415

    return enum.Enum("EUnhashable", {"A": [1, 2], "B": {"k": 1}, "C": 7})


I = spec.IntT
DIRECTED = {
    "invalid-data-after-a-failed-request": _invalid_data_after_a_failed_request,
    "configured-builtin-providers": _configured_providers,
    "extra-kwargs-undeliverable-keys": _extra_kwargs,
    "collected-extras-of-any-key-type": _collected_extras_of_any_key_type,
    "scalar-table-x-pool": _full_pool(spec._SCALARS),
    "containers-x-pool": _full_pool([
        spec.IterT("List", I()), spec.IterT("Set", spec.AnyT()), spec.IterT("FrozenSet", spec.AnyT()), spec.IterT("Deque", I()),
        spec.TupleT([I(), spec.StrT()]), spec.TupleT([]), spec.DictT("Dict", spec.StrT(), I()), spec.DictT("DefaultDict", I(), I()),
        spec.DictT("Mapping", spec.StrT(), I()),
        spec.LiteralT((1, 2, 3, 4, 5)), spec.LiteralT(("a", "b")), spec.LiteralT((0, 1)), spec.LiteralT((spec.EInt.A, b"x", 7, 8, 9, 10)),
        spec.UnionT([I(), spec.StrT()]), spec.UnionT([I(), spec.NoneT()]), spec.UnionT([spec.IterT("List", I()), spec.DictT("Dict", spec.StrT(), I())]),
    ]),
    "timedelta-nan": _one(spec.TimedeltaT(), float("nan")),
    "float-huge-int": _one(spec.FloatT(), 10**400),
    "literal-unhashable": _one(spec.LiteralT((1, 2, 3, 4, 5)), []),
    "set-any-unhashable": _one(spec.IterT("Set", spec.AnyT()), [[1]]),
}
