"""C20 - load, dump and convert are pure with respect to their arguments.

Monitor: deep snapshots of every argument before and after each call, type-strict equality of repeated
calls, and id-graph analysis: no mutable container may be reachable from two results, or - outside the
documented as-is positions (Any, object) - from a result and the argument; mutating the first result must
not change what a later call returns (defaults hoisted into constants of the generated function)."""
from __future__ import annotations

import collections
import copy
import types

from adaptix import DebugTrail

from .. import layout as L, models, spec
from ..adx import MODES, attempt, make_retort, mode_name
from ..eq import freeze, mutable_ids, strict_eq
from ..workload import gen_node
from . import c03, c13

AS_IS_KINDS = {"Any", "object"}


def default_ids(node, out=None):
    """ids of mutable objects that are the models' own shared defaults (the model itself shares them between instances)."""
    if out is None:
        out = set()
    for n in node.walk():
        if isinstance(n, models.ModelT):
            for f in n.fields:
                if f.req == "default":
                    out.update(mutable_ids(f.default))
                if n.mkind == "namedtuple" and f.req != "req":
                    out.update(mutable_ids(getattr(n.cls, "_field_defaults", {}).get(f.name)))
                default_ids(f.node, out) if f.node is not n and not isinstance(f.node, models.SelfRef) and f.node.hint is not None else None
    return out


def _seq(value):
    return isinstance(value, (list, tuple, set, frozenset, collections.deque)) or (isinstance(value, collections.abc.Sequence) and not isinstance(value, (str, bytes, bytearray)))


def as_is_ids(node, value, out=None, depth=0, side="outer"):  # noqa: C901
    """ids of mutable containers reachable from `value` at positions the documentation says are passed as is."""
    if out is None:
        out = set()
    if depth > 40:
        return out
    if node is None or node.kind in AS_IS_KINDS:
        out.update(mutable_ids(value))
        return out
    if isinstance(node, spec.WrapT):
        return as_is_ids(node.child, value, out, depth + 1, side)
    if isinstance(node, spec.EnumT):
        for m in node.cls:      # "Dumper returns value of the member": a mutable member value ([1, 2]) is the enum's own object, not built by adaptix
            out.update(mutable_ids(m.value))
        return out
    if isinstance(node, spec.UnionT):
        for c in node.children:       # whichever case took it: be permissive for unions containing an as-is case
            if c.kind in AS_IS_KINDS:
                out.update(mutable_ids(value))
        for c in node.children:
            if c.kind not in AS_IS_KINDS and c.kind != "None":
                try:
                    as_is_ids(c, value, out, depth + 1, side)
                except Exception:  # noqa: BLE001
                    pass
        return out
    if isinstance(node, (spec.IterT,)):
        if _seq(value):
            for v in value:
                as_is_ids(node.elem, v, out, depth + 1, side)
        return out
    if isinstance(node, spec.TupleT):
        if _seq(value):
            for c, v in zip(node.children, value):
                as_is_ids(c, v, out, depth + 1, side)
        return out
    if isinstance(node, spec.DictT):
        if isinstance(value, collections.abc.Mapping):
            for k, v in value.items():
                as_is_ids(node.key, k, out, depth + 1, side)
                as_is_ids(node.val, v, out, depth + 1, side)
        return out
    if node.is_model and hasattr(node, "fields"):
        view = None
        if side == "instance":
            try:
                view = node.view(value)
            except Exception:  # noqa: BLE001
                view = None
        if view is not None:
            for f in node.fields:
                if f.name in view:
                    as_is_ids(f.node, view[f.name], out, depth + 1, side)
        else:
            lay = getattr(node, "lay", None) or L.resolve(node.fields, [])
            for f in node.fields:
                p = lay.paths_in.get(f.name)
                if p is None:
                    continue
                try:
                    cur = value
                    for el in p:
                        if isinstance(cur, collections.abc.Mapping) and el not in cur:
                            raise KeyError(el)      # never index a defaultdict with a missing key: that would be the harness mutating the argument
                        cur = cur[el]
                    as_is_ids(f.node, cur, out, depth + 1, side)
                except Exception:  # noqa: BLE001
                    pass
            # collected extras: the mapping is built by adaptix, its values come from the input as is
            if isinstance(lay.extra_in, tuple) and isinstance(value, collections.abc.Mapping):
                known = {p[0] for p in lay.paths_in.values() if p}
                for k, v in value.items():
                    if k not in known:
                        out.update(mutable_ids(v))
        return out
    return out


def _looks_outer(node, value):
    return False


def shared(a, b, allowed=frozenset()):
    ia, ib = mutable_ids(a), mutable_ids(b)
    return [(ia[i], ib[i]) for i in ia.keys() & ib.keys() if i not in allowed]


def mutate(obj, depth=0):
    """Mutates every mutable container reachable from obj (to reveal state shared with the retort)."""
    if depth > 20:
        return
    if isinstance(obj, list):
        for v in obj:
            mutate(v, depth + 1)
        obj.append("<mutated>")
    elif isinstance(obj, dict):
        for v in list(obj.values()):
            mutate(v, depth + 1)
        obj["<mutated>"] = 1
    elif isinstance(obj, set):
        obj.add("<mutated>")
    elif isinstance(obj, bytearray):
        obj.extend(b"!")
    elif isinstance(obj, collections.deque):
        obj.append("<mutated>")
    elif isinstance(obj, tuple):
        for v in obj:
            mutate(v, depth + 1)
    else:
        from ..eq import model_fields  # noqa: PLC0415

        f = model_fields(obj)
        if f is not None:
            for v in f.values():
                mutate(v, depth + 1)


def check_call(ctx, what, fn, make_arg, node, label, desc, arg_node=None):
    """Runs fn three times on fresh-but-equal arguments and on one shared argument; all purity oracles."""
    arg = make_arg()
    before = freeze(arg)
    r1 = attempt(fn, arg)
    mid = freeze(arg)
    r2 = attempt(fn, arg)
    after = freeze(arg)
    ctx.evaluated((what, desc.get("type", "")[:200], label), nontrivial=r1.kind == "ok" and bool(mutable_ids(r1.value)))
    ctx.count(f"{what}_call_pairs")
    info = {**desc, "argument": repr(arg)[:400], "input": label}
    if before != mid or before != after:
        ctx.violation(f"argument-mutated:{what}:{type(arg).__name__}", f"{what}: the argument changed during the call: before {before!r:.200} after {after!r:.200}", info)
        return
    if r1.kind != r2.kind or (r1.kind == "ok" and not strict_eq(r1.value, r2.value)):
        ctx.violation(f"repeated-call-differs:{what}", f"{what}: two calls with the same argument gave {r1!r:.200} and {r2!r:.200}", info)
        return
    if r1.kind != "ok":
        ctx.count(f"{what}_calls_failed")
        return
    allowed = as_is_ids(arg_node if arg_node is not None else node, arg, side="instance" if what == "dump" else "outer") | default_ids(node)
    sh = shared(r1.value, r2.value, allowed)
    if sh:
        ctx.violation(f"results-share-container:{what}:{_where(sh)}", f"{what}: two results share a mutable container at {sh[0][0]} / {sh[0][1]}", info)
        return
    sh = shared(r1.value, arg, allowed)
    if sh:
        ctx.violation(f"result-aliases-argument:{what}:{_where(sh)}", f"{what}: the result shares a mutable container with the argument at {sh[0][0]} (argument path {sh[0][1]}) outside an as-is position", info)
        return
    if shared(r1.value, r2.value) or shared(r1.value, arg):
        # only documented sharing is left (as-is positions, the models' own shared defaults): mutating through it proves nothing
        ctx.count("mutation_leg_skipped_documented_sharing")
        return
    # mutate result 1, then a third call must still equal result 2 (which we keep pristine by snapshot)
    snap2 = freeze(r2.value)
    try:
        mutate(r1.value)
    except Exception:  # noqa: BLE001
        return
    if allowed and freeze(arg) != before:
        ctx.count("as_is_position_mutated_through_result")    # sharing at Any positions is documented: rebuild the argument for the third call
        arg = make_arg()
    if freeze(r2.value) != snap2:
        ctx.violation(f"results-share-container:{what}:via-mutation", f"{what}: mutating the first result changed the second one", info)
        return
    r3 = attempt(fn, arg)
    if r3.kind != "ok" or freeze(r3.value) != snap2:
        ctx.violation(f"later-call-affected-by-mutating-result:{what}", f"{what}: after mutating an earlier result a new call returns {r3!r:.200}; expected {r2!r:.200}", info)


def _where(sh):
    p = sh[0][0]
    last = p[-1] if p else "root"
    return "field" if isinstance(last, str) and last.startswith(".") else "item" if isinstance(last, int) else "key" if isinstance(last, str) else "root"


VARIANTS = [
    ("dict", lambda d: d), ("OrderedDict", lambda d: collections.OrderedDict(d)), ("mappingproxy", lambda d: types.MappingProxyType(d)),
    ("UserDict", lambda d: collections.UserDict(d)), ("defaultdict", lambda d: collections.defaultdict(lambda: 0, d)), ("ChainMap", lambda d: collections.ChainMap(d)),
]


def load_inputs(rng, datum):
    out = [("plain", lambda: copy.deepcopy(datum))]
    if isinstance(datum, dict):
        for name, mk in rng.sample(VARIANTS[1:], 2):
            out.append((name, lambda mk=mk: mk(copy.deepcopy(datum))))
        if datum:
            k = rng.choice(list(datum))
            short = {a: b for a, b in datum.items() if a != k}
            out.append(("missing-key", lambda: copy.deepcopy(short)))
            out.append(("defaultdict-missing-key", lambda: collections.defaultdict(lambda: 0, copy.deepcopy(short))))
            out.append(("OrderedDict-missing-key", lambda: collections.OrderedDict(copy.deepcopy(short))))
    elif isinstance(datum, (list, tuple)):
        out.append(("deque", lambda: collections.deque(copy.deepcopy(list(datum)))))
        out.append(("tuple", lambda: tuple(copy.deepcopy(list(datum)))))
    return out


def run_grammar(ctx, rng, idx):
    node = gen_node(rng, ctx.tier, with_models=True)
    if node.depth() < 2 and not node.is_model:
        node = spec.IterT("List", node)
    providers = models.collect_providers(node)
    dt, sc = rng.choice(MODES)
    r = make_retort(dt, sc, providers)
    try:
        x = node.gen(rng)
        datum = node.dump(x)
    except LookupError:
        return
    ld, dp = attempt(r.get_loader, node.hint), attempt(r.get_dumper, node.hint)
    desc = {"type": node.src[:500], "mode": mode_name(dt, sc)}
    if ld.kind == "ok":
        for label, mk in load_inputs(rng, _mutable(datum)):
            check_call(ctx, "load", ld.value, mk, node, label, desc)
    if dp.kind == "ok":
        check_call(ctx, "dump", dp.value, lambda: copy.deepcopy(x), node, "object", desc)


def _mutable(d):
    if isinstance(d, tuple):
        return [_mutable(v) for v in d]
    if isinstance(d, list):
        return [_mutable(v) for v in d]
    if isinstance(d, dict):
        return {k: _mutable(v) for k, v in d.items()}
    return d


def run_layout(ctx, rng, idx):
    g = c03.gen_program(rng, _Quiet())
    if g is None:
        return
    kind, fields, recipe, lay = g
    if lay.problems_in:
        return
    # mutable field values make sharing observable
    node = models.LModelT(kind, fields, recipe, lay)
    dt, sc = rng.choice(MODES)
    r = make_retort(dt, sc, node.providers)
    x = node.gen(rng)
    desc = {"type": node.src[:500], "mode": mode_name(dt, sc)}
    full_lay = L.Layout(lay.fields, lay.paths_in, lay.paths_in, {k: False for k in lay.omit}, lay.extra_in, "skip", lay.as_list)
    try:
        view = node.view(x)
        xfull = node.construct({f.name: (view[f.name] if f.name in view else f.make_default()) for f in fields}) if kind != "typeddict" else {f.name: (x[f.name] if f.name in x else f.node.gen(rng)) for f in fields}
        full = L.ref_dump(full_lay, node, xfull)
    except Exception:  # noqa: BLE001
        return
    ld, dp = attempt(r.get_loader, node.hint), attempt(r.get_dumper, node.hint)
    ctx.count("layout_programs")
    if ld.kind == "ok":
        inputs = load_inputs(rng, full)
        if isinstance(full, dict):
            ext = {**copy.deepcopy(full), "zz_extra": [1, {"n": [2]}], "zz2": {"m": []}}
            inputs.append(("extra-keys", lambda: copy.deepcopy(ext)))
        for label, mk in inputs:
            check_call(ctx, "load", ld.value, mk, node, "layout:" + label, desc)
    if dp.kind == "ok":
        if isinstance(lay.extra_out, tuple) and lay.extra_out[0] == "fields":
            for name in lay.extra_out[1]:
                setattr(x, name, {"ext_k": [1], "ext_j": {"q": []}})
        check_call(ctx, "dump", dp.value, lambda: copy.deepcopy(x), node, "layout:object", desc)


class _Quiet:
    def count(self, *a, **k):
        pass


def run_convert(ctx, rng, idx):
    params = rng.sample(["p", "q"], rng.randint(0, 1))
    try:
        pair = c13.Pair(rng, _Quiet(), depth=rng.choice([1, 1, 2]), top=True, params=params)
    except LookupError:
        return
    raw = pair.recipe(rng, _Quiet(), params)
    recipe = [r_ for r_ in raw if not isinstance(r_, tuple)] + [r_[1] for r_ in raw if isinstance(r_, tuple)]
    stub = c13.make_stub(pair, params, "conv")
    from adaptix.conversion import impl_converter  # noqa: PLC0415

    made = attempt(lambda: impl_converter(recipe=recipe)(stub))
    if made.kind != "ok":
        return
    try:
        src_obj = pair.src_node.gen(rng)
    except LookupError:
        return
    pvals = [rng.randint(1, 9) for _ in params]
    ctx.count("converter_programs")
    desc = {"type": f"{pair.src_node.src[:250]} -> {pair.dst_node.src[:250]}"}
    # as-is positions of a converter: same type / Any / subclass / union subcase are documented to be passed as is,
    # only containers adaptix itself builds must be fresh: model instances, coerced lists / dicts
    arg = copy.deepcopy(src_obj)
    before = freeze(arg)
    r1, r2 = attempt(made.value, arg, *pvals), attempt(made.value, arg, *pvals)
    ctx.evaluated(("convert", desc["type"], repr(src_obj)[:200]), nontrivial=True)
    ctx.count("convert_call_pairs")
    if freeze(arg) != before:
        ctx.violation("argument-mutated:convert", f"converter changed its source object: {arg!r:.300}", desc)
        return
    if r1.kind != "ok" or r2.kind != "ok":
        return
    if not strict_eq(c13._view(pair.dst_node, r1.value), c13._view(pair.dst_node, r2.value)):  # noqa: SLF001
        ctx.violation("repeated-call-differs:convert", f"two conversions of the same object differ: {r1.value!r:.200} / {r2.value!r:.200}", desc)
        return
    built1, built2 = _built(pair, r1.value), _built(pair, r2.value)
    both = set(built1) & set(built2)
    if both:
        ctx.violation("results-share-container:convert", f"two conversion results share an object adaptix built: {built1[next(iter(both))]}", desc)
    src_ids = mutable_ids(arg)
    alias = set(built1) & set(src_ids)
    if alias:
        ctx.violation("result-aliases-argument:convert", f"a container built by the converter is the source's own object: {built1[next(iter(alias))]}", desc)


def run_convert_widening(ctx, rng):
    """Container fields whose types DIFFER but whose elements are coercible as is (list[int] -> list[Optional[int]], set[bool] -> set[int],
    list[Child] -> list[Parent], list[int] -> list[Any]): only EQUAL types are documented to be passed as is, so the converter builds the
    destination container - anew for each call and never the source's own object (seeded change: as-is shortcut in the iterable coercer)."""
    import typing as t  # noqa: PLC0415
    from dataclasses import make_dataclass  # noqa: PLC0415

    from adaptix.conversion import get_converter  # noqa: PLC0415

    Parent = make_dataclass("Parent", [("x", int)])
    Child = make_dataclass("Child", [("y", int, 0)], bases=(Parent,))
    pairs = [
        (t.List[int], t.List[t.Optional[int]], lambda: [1, 2, 3]), (t.List[bool], t.List[int], lambda: [True, False]), (t.Set[bool], t.Set[int], lambda: {True}),
        (t.List[int], t.List[t.Any], lambda: [1, 2]), (t.Dict[str, int], t.Dict[str, t.Optional[int]], lambda: {"a": 1}), (t.List[Child], t.List[Parent], lambda: [Child(1, 2)]),
        (t.List[t.List[int]], t.List[t.List[t.Optional[int]]], lambda: [[1], [2]]), (t.Deque[int], t.Deque[t.Optional[int]], lambda: collections.deque([1])),
        (t.Dict[str, t.List[bool]], t.Dict[str, t.List[int]], lambda: {"k": [True]}), (t.FrozenSet[bool], t.Set[int], lambda: frozenset({True})),
        (t.Optional[t.List[int]], t.Optional[t.List[t.Optional[int]]], lambda: [1]),
    ]
    # the abstract destinations: a dict under a Mapping annotation is still a DIFFERENT type (seeded change: as-is shortcut for Mapping destinations)
    pairs += [(t.Dict[str, int], t.Mapping[str, int], lambda: {"a": 1}), (t.Dict[str, bool], t.Mapping[str, t.Any], lambda: {"a": True}),
              (t.List[t.Dict[str, int]], t.List[t.Mapping[str, int]], lambda: [{"a": 1}]), (t.Dict[str, t.Dict[str, int]], t.Mapping[str, t.Mapping[str, int]], lambda: {"k": {"a": 1}}),
              (t.List[int], t.Sequence[int], lambda: [1, 2]), (t.List[int], t.Iterable[int], lambda: [1]), (t.Set[int], t.AbstractSet[int], lambda: {1}),
              (t.Dict[str, int], t.MutableMapping[str, int], lambda: {"a": 1}), (t.List[int], t.MutableSequence[int], lambda: [1])]
    for st, dt_, mk in ([rng.choice(pairs)] if rng is not None else pairs):
        _check_widening(ctx, st, dt_, mk)


def _check_widening(ctx, st, dt_, mk):
    from dataclasses import make_dataclass  # noqa: PLC0415

    from adaptix.conversion import get_converter  # noqa: PLC0415
    S = make_dataclass("S", [("name", str), ("values", st)])
    D = make_dataclass("D", [("name", str), ("values", dt_)])
    made = attempt(get_converter, S, D)
    if made.kind != "ok":
        ctx.count("widening_pair_refused")
        return
    arg = S("a", mk())
    before = freeze(arg)
    r1, r2 = attempt(made.value, arg), attempt(made.value, arg)
    ctx.evaluated(("convert-widening", repr(st), repr(dt_)), nontrivial=True)
    ctx.count("convert_call_pairs")
    ctx.count("widening_conversions")
    desc = {"type": f"{st!r} -> {dt_!r}"}
    if r1.kind != "ok" or r2.kind != "ok":
        return
    if freeze(arg) != before:
        ctx.violation("argument-mutated:convert", f"converter changed its source object: {arg!r:.200}", desc)
        return
    src_ids = mutable_ids(arg.values)
    ids1, ids2 = mutable_ids(r1.value.values), mutable_ids(r2.value.values)
    # containers (lists / sets / dicts / deques) only: the elements themselves (Child instances) are passed as is
    def containers(ids):
        return {i for i, path in ids.items()} if isinstance(ids, dict) else set(ids)
    c_src = {id(o) for o in _containers_of(arg.values)}
    c1, c2 = {id(o) for o in _containers_of(r1.value.values)}, {id(o) for o in _containers_of(r2.value.values)}
    if c1 & c_src or c2 & c_src:
        ctx.violation("result-aliases-argument:convert", f"{desc['type']}: the destination container IS the source's own container", desc)
    elif c1 & c2:
        ctx.violation("results-share-container:convert", f"{desc['type']}: two conversion results share a container", desc)


def _containers_of(x, depth=0):
    out = []
    if isinstance(x, (list, set, dict, collections.deque)):
        out.append(x)
    if depth < 4:
        if isinstance(x, dict):
            for v in x.values():
                out += _containers_of(v, depth + 1)
        elif isinstance(x, (list, tuple, set, frozenset, collections.deque)):
            for v in x:
                out += _containers_of(v, depth + 1)
    return out


def _built(pair, obj, path=()):
    """id -> path of the objects adaptix itself must have built for this conversion plan (models, coerced lists/dicts)."""
    out = {id(obj): path}
    view = pair.dst_node.view(obj)
    for df in pair.plan:
        if df.name not in view:
            continue
        _built_co(df.coerce, view[df.name], (*path, df.name), out)
        if df.source[0] == "factory":
            out[id(view[df.name])] = (*path, df.name)
    return out


def _built_co(co, v, path, out):
    k = co[0]
    if k == "model":
        out.update(_built(co[1], v, path))
    elif k == "list" and isinstance(v, list):
        out[id(v)] = path
        for i, x in enumerate(v):
            _built_co(co[1], x, (*path, i), out)
    elif k == "dict" and isinstance(v, dict):
        out[id(v)] = path
        for a, x in v.items():
            _built_co(co[1], x, (*path, a), out)
    elif k == "optional" and v is not None:
        _built_co(co[1], v, path, out)


def run_case(ctx, rng, idx):
    for _ in range(3):
        run_grammar(ctx, rng, idx)
    for _ in range(2):
        run_layout(ctx, rng, idx)
    run_convert(ctx, rng, idx)
    run_convert_widening(ctx, rng)
    run_extra_targets(ctx, rng)
    run_configured_dumpers(ctx, rng)
    if idx < 1:
        ctx.sample({"legs": ["grammar types x input container variants", "name_mapping layouts with extras", "converters"], "oracles": ["argument snapshot", "repeat equality", "id-graph disjointness", "mutation of result 1"]})


def run_extra_targets(ctx, rng):  # noqa: C901
    """Several extra_out targets (and several extra_in targets): the dumper merges the mappings held by the object into its result, the
    loader hands the collected mapping to several fields - without writing into the object's own mappings and without handing ONE
    mapping to two fields (seeded change: extra_stack[0].update(...) wrote the other targets' items into the argument)."""
    import typing  # noqa: PLC0415
    from dataclasses import field as dcf, make_dataclass  # noqa: PLC0415

    from adaptix import Retort, name_mapping  # noqa: PLC0415

    n_targets = rng.choice([2, 2, 3])
    targets = ["attrs", "labels", "more"][:n_targets]
    val_type = rng.choice([typing.Any, typing.Dict[str, typing.Any], dict, typing.Mapping[str, typing.Any]])
    kind = rng.choice(["typeddict-total-false", "typeddict", "dataclass"])
    if kind == "dataclass":
        cls = make_dataclass("XT", [("id", int), ("note", typing.Optional[str], dcf(default=None)), *[(t, val_type, dcf(default_factory=dict)) for t in targets]])
    else:
        cls = typing.TypedDict("XT", {"id": int, "note": typing.NotRequired[str], **{t: val_type for t in targets}}, total=kind == "typeddict")

    def make_obj():
        ext = {t: {f"{t}_{j}": [j, {"deep": j}] for j in range(rng.randint(0, 2))} for t in targets}
        if kind == "dataclass":
            return cls(7, None, *[ext[t] for t in targets])
        return {"id": 7, **ext}
    state = rng.getstate()
    obj = make_obj()
    for dt in DebugTrail:
        r = Retort(recipe=[name_mapping(cls, extra_out=targets, extra_in=targets[0])], debug_trail=dt)
        before = freeze(obj)
        d1 = attempt(r.dump, obj, cls)
        mid = freeze(obj)
        d2 = attempt(r.dump, obj, cls)
        ctx.evaluated(("extra-targets", kind, n_targets, repr(val_type)[:30], dt.name, repr(before)[:120]), nontrivial=True)
        ctx.count("extra_target_dumps")
        ctx.count("dump_call_pairs")
        desc = {"kind": kind, "targets": targets, "value_type": repr(val_type), "mode": dt.name, "object": repr(obj)[:300]}
        if mid != before or freeze(obj) != before:
            ctx.violation("argument-mutated:dump:extra_out-targets", f"dump with extra_out={targets} changed its argument: before {before!r:.200}, after {freeze(obj)!r:.200}", desc)
            rng.setstate(state)
            obj = make_obj()
            continue
        if d1.kind != "ok" or d2.kind != "ok" or not strict_eq(d1.value, d2.value):
            ctx.violation("repeat-differs:dump:extra_out-targets", f"two dumps of one object with extra_out={targets}: {d1!r:.150} / {d2!r:.150}", desc)
            continue
        holders = [obj] if kind != "dataclass" else []
        holders += [(obj[t] if kind != "dataclass" else getattr(obj, t)) for t in targets]
        if any(d1.value is h or d2.value is h for h in holders) or d1.value is d2.value:
            ctx.violation("results-share-container:dump:extra_out-targets", f"the dumped mapping IS one of the argument's mappings (or the previous result): extra_out={targets}", desc)


def run_configured_dumpers(ctx, rng):
    """Builtin providers switched on through the recipe (flag_by_member_names, enum_by_name, default_dict, datetime providers ...): what they
    build (the list of member names, dicts) is built anew by each call, also for EQUAL values dumped twice and for two equal values in one
    document (seeded change: a memoised result list in the flag-by-names dumper)."""
    import typing as t  # noqa: PLC0415

    from adaptix import Retort, default_dict, flag_by_member_names  # noqa: PLC0415

    cfgs = [
        ("flag_by_member_names", spec.FRWX, [flag_by_member_names(spec.FRWX)], lambda: spec.FRWX.R | spec.FRWX.W, lambda: ["R", "W"]),
        ("flag_by_member_names(compound)", spec.FZ, [flag_by_member_names(spec.FZ, allow_compound=True)], lambda: spec.FZ.AB, lambda: ["AB"]),
        ("default_dict", t.DefaultDict[str, t.List[int]], [default_dict(t.DefaultDict[str, t.List[int]], default_factory=list)],
         lambda: collections.defaultdict(list, {"a": [1]}), lambda: {"a": [1]}),
    ]
    name, tp, recipe, mk_val, mk_outer = rng.choice(cfgs)
    hint, wrap = rng.choice([(tp, lambda v: v), (t.List[tp], lambda v: [v, v]), (t.Dict[str, tp], lambda v: {"a": v, "b": v})])
    r = Retort(recipe=recipe)
    for side in ("dump", "load"):
        arg = wrap(mk_val() if side == "dump" else mk_outer())
        fn = r.dump if side == "dump" else r.load
        before = freeze(arg)
        o1, o2 = attempt(fn, arg, hint), attempt(fn, arg, hint)
        ctx.evaluated(("configured", name, side, repr(hint)[:40]), nontrivial=True)
        ctx.count(f"{side}_call_pairs")
        ctx.count("configured_provider_calls")
        desc = {"provider": name, "type": repr(hint), "side": side}
        if o1.kind != "ok" or o2.kind != "ok":
            continue
        if freeze(arg) != before:
            ctx.violation(f"argument-mutated:{side}:configured", f"{name}: {side} changed its argument", desc)
            continue
        c1, c2 = [id(o) for o in _containers_of(o1.value)], [id(o) for o in _containers_of(o2.value)]
        if set(c1) & set(c2):
            ctx.violation(f"results-share-container:{side}:configured", f"{name}: two {side}s of equal values returned the same container object", desc)
        elif len(set(c1)) != len(c1):
            ctx.violation(f"results-share-container:{side}:configured-within-one-result", f"{name}: equal values inside one document were {side}ed to ONE container object", desc)
        else:
            # editing result 1 must not show in a third call
            for o in _containers_of(o1.value):
                if isinstance(o, list):
                    o.append("edited")
                elif isinstance(o, dict):
                    o["edited"] = 1
            o3 = attempt(fn, arg, hint)
            if o3.kind != "ok" or not strict_eq(o3.value, o2.value):
                ctx.violation(f"result-mutation-visible-later:{side}:configured", f"{name}: after editing the first result the same call gives {o3!r:.150}, before {o2!r:.150}", desc)


def _witness_defaultdict(ctx):
    from dataclasses import make_dataclass, field as dcf  # noqa: PLC0415
    import typing  # noqa: PLC0415

    from adaptix import Retort  # noqa: PLC0415

    M = make_dataclass("M", [("a", int), ("b", typing.List[int], dcf(default_factory=list))])

    for dt in DebugTrail:
        ld = Retort(debug_trail=dt).get_loader(M)
        d = collections.defaultdict(lambda: 1, {"b": [1]})
        before = freeze(d)
        attempt(ld, d)
        ctx.evaluated(("directed-defaultdict", dt.name))
        ctx.count("load_call_pairs")
        if freeze(d) != before:
            ctx.violation("argument-mutated:load:defaultdict", f"loading a model from a defaultdict that lacks a required key inserted it: {dict(d)!r} [{dt.name}]", {})


def _mutable_defaults_of_model_kinds(ctx):
    """Two loads that leave a defaulted field absent share no mutable container with each other - nor with the model's own declaration -
    whenever the model itself would give every instance its own: pydantic copies a mutable default per instance (defect #99: the loader
    passed the declared object explicitly); dataclass / attrs factories are called per object. Editing one result leaves the next load and
    the model's own construction as they were."""
    import sys  # noqa: PLC0415

    from adaptix import Retort  # noqa: PLC0415
    mod = types.ModuleType("vlib_c20_defaults")
    sys.modules[mod.__name__] = mod
    source = """
from decimal import Decimal
from typing import Any, Dict, List, NamedTuple
from dataclasses import dataclass, field
import attrs
from pydantic import BaseModel
class NTDef20(NamedTuple):
    a: int
    hops: tuple = ([], {'ttl': [64]})
class PM(BaseModel):
    a: int
    x: Any = [Decimal(1)]
    z: Dict[str, Any] = {'k': [1]}
    y: List[int] = []
@dataclass
class DM:
    a: int
    x: Any = field(default_factory=lambda: [Decimal(1)])
    z: Dict[str, Any] = field(default_factory=lambda: {'k': [1]})
    y: List[int] = field(default_factory=list)
@attrs.define
class AM:
    a: int
    x: Any = attrs.Factory(lambda: [Decimal(1)])
    z: Dict[str, Any] = attrs.Factory(lambda: {'k': [1]})
    y: List[int] = attrs.Factory(list)
"""
    try:
        exec(compile(source, "<vlib_c20_defaults>", "exec", dont_inherit=True), mod.__dict__)  # noqa: S102
    except ImportError:
        ctx.count("optional_package_missing")
        return
    # an immutable default that HOLDS mutable containers (seeded change: tuple defaults hoisted to one shared constant)
    NT = mod.NTDef20

    class Init:
        def __init__(self, a: int, bounds: tuple = ([0, 0], [640, 480])):
            self.a, self.bounds = a, bounds
    for cls, name in ((NT, "hops"), (Init, "bounds")):
        for dt in DebugTrail:
            r = Retort(debug_trail=dt)
            m1, m2 = r.load({"a": 1}, cls), r.load({"a": 2}, cls)
            ctx.evaluated(("directed-tuple-defaults", cls.__name__, dt.name), nontrivial=True)
            ctx.count("load_call_pairs")
            inner1, inner2 = [x for x in getattr(m1, name)], [x for x in getattr(m2, name)]
            if any(a is b for a, b in zip(inner1, inner2)):
                ctx.violation("results-share-container:load:default:tuple", f"{cls.__name__}.{name}: two loads that leave the field absent share a container inside the tuple", {"model": cls.__name__, "mode": dt.name})
            inner1[0].append("edited")
            m3 = r.load({"a": 3}, cls)
            if "edited" in list(getattr(m3, name))[0]:
                ctx.violation("later-result-changed-by-editing-an-earlier-one:tuple-default", f"{cls.__name__}: after editing a loaded object the next load gives {getattr(m3, name)!r}", {"model": cls.__name__, "mode": dt.name})
    for cls in (mod.PM, mod.DM, mod.AM):
        for dt in DebugTrail:
            r = Retort(debug_trail=dt)
            own = cls(a=0)
            own_before = freeze({k: getattr(own, k) for k in "xzy"})
            m1, m2 = r.load({"a": 1}, cls), r.load({"a": 2}, cls)
            ctx.evaluated(("directed-mutable-defaults", cls.__name__, dt.name), nontrivial=True)
            ctx.count("load_call_pairs")
            info = {"model": cls.__name__, "mode": dt.name}
            for name in "xzy":
                a, b = getattr(m1, name), getattr(m2, name)
                if a is b or (name == "z" and a["k"] is b["k"]):
                    ctx.violation(f"results-share-container:load:default:{cls.__name__[:1]}", f"{cls.__name__}.{name}: two loads that leave the field absent hold the same object {a!r}", info)
            m1.x.append("edited"); m1.z["k"].append("edited"); m1.y.append(9)  # noqa: E702
            m3, fresh = r.load({"a": 3}, cls), cls(a=0)
            if freeze({k: getattr(fresh, k) for k in "xzy"}) != own_before:
                ctx.violation(f"model-default-changed-by-editing-a-result:{cls.__name__[:1]}", f"{cls.__name__}: after editing a loaded object the model itself constructs {fresh!r}", info)
            if freeze({k: getattr(m3, k) for k in "xzy"}) != own_before:
                ctx.violation(f"later-result-changed-by-editing-an-earlier-one:{cls.__name__[:1]}", f"{cls.__name__}: after editing a loaded object the next load gives {m3!r}", info)


DIRECTED = {"convert-widening-every-pair": lambda ctx: run_convert_widening(ctx, None), "defaultdict-missing-required-key": _witness_defaultdict, "mutable-defaults-of-model-kinds": _mutable_defaults_of_model_kinds}
from ..suite_leg import make as _suite_leg  # noqa: E402

DIRECTED["suite-under-monitors"] = _suite_leg("C20")

