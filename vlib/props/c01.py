"""C01 - round trip load(dump(x, T), T) == x.

Monitor: the law is self-checking; the domain (non-overlapping unions for the generated value and
mode, minimal concrete types, JSON-stable Any values) is policed with the reference model."""
from __future__ import annotations

import json

from .. import spec
from ..adx import MODES, attempt, make_retort, mode_name
from ..eq import strict_eq
from ..workload import Program, gen_node


def str_keys_only(d):
    if isinstance(d, dict):
        return all(type(k) is str and str_keys_only(v) for k, v in d.items())
    if isinstance(d, (list, tuple)):
        return all(str_keys_only(v) for v in d)
    return True


def domain_ok(ctx, node, d, sc, x, leg="direct"):
    """Exactly one reading of the dumped datum in this coercion mode (union cases do not overlap for it)."""
    v = node.accept(d, sc)
    if v.k == spec.U:
        ctx.count("skipped_unspecified")
        return False
    if v.k == spec.R:
        if leg == "json":
            ctx.count("skipped_json_changes_meaning")   # e.g. an enum whose value is a tuple: JSON turns it into a list
            return False
        ctx.count("reference_rejects_direct_dump")
        return True   # the law is still checked: a dump nobody can read back is a violation whatever the reference thinks
    if v.vals is None or any(not strict_eq(x, y) and not strict_eq(y, x) for y in v.vals):
        ctx.count("skipped_overlap")
        return False
    return True


def localise(node, x, dt, sc, leg):
    """Innermost sub-value whose own round trip fails."""
    from .c02 import _sub_values  # noqa: PLC0415

    for child in node.children:
        for sub in _sub_values(node, child, x):
            r = make_retort(dt, sc)
            try:
                d = r.dump(sub, child.hint)
                if leg == "json":
                    d = json.loads(json.dumps(d))
                ok = strict_eq(sub, r.load(d, child.hint))
            except Exception:  # noqa: BLE001
                ok = False
            if not ok:
                return localise(child, sub, dt, sc, leg)
    return node, x


def round_trip(ctx, node, prog, x, tag=""):
    for (dt, sc) in MODES:
        if (dt, sc) not in prog.loaders or (dt, sc) not in prog.dumpers:
            continue
        dumped = attempt(prog.dumpers[dt, sc], x)
        if dumped.kind != "ok":
            ctx.violation(f"dump-failed:{node.kind}:{type(dumped.exc).__name__}", f"dump of {node.src} value {x!r} raised {dumped.exc!r}", {"type": node.src, "x": repr(x)})
            continue
        d = dumped.value
        legs = [("direct", d)]
        if str_keys_only(d):
            try:
                legs.append(("json", json.loads(json.dumps(d))))
            except (TypeError, ValueError):
                ctx.count("json_leg_not_serialisable")
        for leg, dd in legs:
            if not domain_ok(ctx, node, dd, sc, x, leg):
                continue
            out = attempt(prog.loaders[dt, sc], dd)
            nontrivial = node.depth() > 1 and d is not x
            ctx.evaluated((node.src, repr(x)[:300], dt.name, sc, leg), nontrivial=nontrivial)
            ctx.count(f"leg_{leg}")
            if out.kind != "ok" or not strict_eq(x, out.value):
                lnode, lx = localise(node, x, dt, sc, leg)
                what = "load-failed" if out.kind != "ok" else "value-changed"
                ctx.violation(f"{what}:{lnode.kind}:{leg if what == 'value-changed' and leg == 'json' else 'any'}",
                              f"{node.src}: x={x!r} dump={d!r} reload={out!r} [{mode_name(dt, sc)}, {leg}]",
                              {"type": node.src, "x": repr(x)[:400], "dump": repr(d)[:400], "reload": repr(out)[:400], "mode": mode_name(dt, sc), "leg": leg,
                               "localised_type": lnode.src, "localised_value": repr(lx)[:300]})


def run_case(ctx, rng, idx):
    node = gen_node(rng, ctx.tier, with_models=True)
    prog = Program(node)
    if prog.creation_errors:
        ctx.count("creation_errors")
    ctx.count("programs")
    for k in node.kinds():
        ctx.count(f"kind_{k}")
    n = 0
    for _ in range(6):
        try:
            x = node.gen(rng)
        except LookupError:
            ctx.count("gen_no_unambiguous_value")
            continue
        if idx < 2 and n == 0:
            ctx.sample({"type": node.src, "x": repr(x)[:200], "dump": repr(node.dump(x))[:200]})
        n += 1
        round_trip(ctx, node, prog, x)
        if n == 1:
            sqlalchemy_json_leg(ctx, node, x)


def sqlalchemy_json_leg(ctx, node, x):
    """The round trip as the repository's own SQLAlchemy integration performs it: AdaptixJSON(retort, T) dumps on bind and loads on result.
    Whatever the dumped document looks like - {} , [] , 0 , '' included - what comes back equals what went in (seeded change: falsy documents
    skipped the loader). None is SQL NULL by that type's documented design and is not sent."""
    from adaptix.integrations.sqlalchemy import AdaptixJSON  # noqa: PLC0415

    if x is None:
        return
    r = make_retort(*MODES[0])
    made = attempt(AdaptixJSON, r, node.hint)
    if made.kind != "ok":
        ctx.count("sqlalchemy_json_type_not_creatable")
        return
    tp = made.value
    bound = attempt(tp.process_bind_param, x, None)
    if bound.kind != "ok" or bound.value is None:
        return      # dumping is judged by the main leg; a document that IS None cannot be told from SQL NULL (that type's documented design)
    if not domain_ok(_QuietCounters(), node, bound.value, MODES[0][1], x, "direct"):
        return
    back = attempt(tp.process_result_value, bound.value, None)
    ctx.evaluated((node.src, repr(x)[:300], "AdaptixJSON"), nontrivial=not bound.value)
    ctx.count("leg_sqlalchemy_json")
    if not bound.value and bound.value is not None:
        ctx.count("leg_sqlalchemy_json_falsy_document")
    if back.kind != "ok" or not strict_eq(x, back.value):
        ctx.violation("value-changed:AdaptixJSON" if back.kind == "ok" else "load-failed:AdaptixJSON",
                      f"AdaptixJSON({node.src}): bind {x!r} -> {bound.value!r}, result {back!r:.200}", {"type": node.src, "x": repr(x)[:300], "document": repr(bound.value)[:300]})


class _QuietCounters:
    def count(self, *a, **k):
        pass


def _falsy_documents(ctx):
    """Values whose dumped document is falsy: empty containers, zero, empty string / bytes, zero timedelta, flag zero member."""
    import datetime as dtm  # noqa: PLC0415

    cases = [(spec.IterT("List", spec.IntT()), []), (spec.IterT("FrozenSet", spec.IntT()), frozenset()), (spec.DictT("Dict", spec.StrT(), spec.IntT()), {}),
             (spec.IntT(), 0), (spec.FloatT(), 0.0), (spec.StrT(), ""), (spec.BoolT(), False), (spec.SCALAR_BY_KIND["bytes"], b""), (spec.TimedeltaT(), dtm.timedelta(0)),
             (spec.FlagT(spec.FZ), spec.FZ.NONE), (spec.TupleT([]), ()), (spec.IterT("VarTuple", spec.StrT()), ())]
    for node, x in cases:
        sqlalchemy_json_leg(ctx, node, x)


def _values(node, values):
    def run(ctx):
        prog = Program(node)
        for x in values:
            round_trip(ctx, node, prog, x)
    return run


def _all_scalars(ctx):
    import random  # noqa: PLC0415

    rng = random.Random(0)
    for n in spec._SCALARS:
        prog = Program(n)
        pool = getattr(n, "pool", None)
        xs = [n.gen(rng) for _ in range(12)]
        if n.kind == "timedelta":
            xs += spec.TIMEDELTAS
        for x in xs:
            round_trip(ctx, n, prog, x)


def _omit_default_round_trip(ctx):
    """With omit_default a dump omits what the load restores: falsy values that are NOT the (empty) default of their field must survive
    (shared with C03, which owns the layout rule; here the round trip is the oracle)."""
    from .c03 import _omit_default_of_empty_factories  # noqa: PLC0415
    _omit_default_of_empty_factories(ctx)


def _as_list_with_output_only_field(ctx):
    """Known finding: name_mapping(as_list=True) numbers the positions by the index of the field in the shape at hand; a dataclass field
    with init=False exists in the output shape only, so every later field is dumped one position further than it is loaded from."""
    from dataclasses import field, make_dataclass  # noqa: PLC0415

    from adaptix import Retort, name_mapping  # noqa: PLC0415

    def post(self):
        self.b = self.a * 100
    M = make_dataclass("MAsList", [("a", int), ("b", int, field(init=False)), ("c", int)], namespace={"__post_init__": post})
    Tail = make_dataclass("MAsListTail", [("a", int), ("c", int), ("b", int, field(init=False))], namespace={"__post_init__": post})
    for cls, label in ((M, "output-only field in the middle"), (Tail, "output-only field last")):
        for recipe_label, recipe in (("as_list", [name_mapping(cls, as_list=True)]), ("dict layout", [])):
            r = Retort(recipe=recipe)
            x = cls(1, 9)
            d = attempt(r.dump, x)
            back = attempt(r.load, d.value, cls) if d.kind == "ok" else d
            ctx.evaluated(("as-list-output-only", label, recipe_label), nontrivial=True)
            ctx.count("leg_any")
            if back.kind != "ok" or back.value != x:
                ctx.violation("value-changed:as_list:output-only-field-shifts-positions" if recipe_label == "as_list" and "middle" in label else "value-changed:output-only-field",
                              f"{label}, {recipe_label}: {x!r} -> {d!r:.80} -> {back!r:.120}", {"case": label, "layout": recipe_label})


def _configured_temporal_providers(ctx):
    """date_by_timestamp / datetime_by_timestamp / datetime_by_format in the recipe, with the process in several time zones (POSIX TZ strings,
    no tz database needed): the round trip must not depend on where the process runs (report of a round-8 agent: date_by_timestamp dumps
    midnight UTC and loaded with the LOCAL zone - west of Greenwich every date came back as the day before)."""
    import datetime as dtm  # noqa: PLC0415
    import json  # noqa: PLC0415
    import os  # noqa: PLC0415
    import time  # noqa: PLC0415
    import typing  # noqa: PLC0415

    from adaptix import Retort, date_by_timestamp, datetime_by_format, datetime_by_timestamp  # noqa: PLC0415

    from ..adx import MODES  # noqa: PLC0415

    utc = dtm.timezone.utc
    dates = [dtm.date(2020, 1, 1), dtm.date(1970, 1, 1), dtm.date(2024, 2, 29), dtm.date(1999, 12, 31), dtm.date(2038, 1, 19), dtm.date(1971, 6, 15)]
    aware = [dtm.datetime(2020, 1, 1, tzinfo=utc), dtm.datetime(2011, 11, 4, 0, 5, 23, tzinfo=utc), dtm.datetime(1970, 1, 1, 0, 0, 1, tzinfo=utc), dtm.datetime(2024, 2, 29, 23, 59, 59, tzinfo=utc)]
    plus3 = dtm.timezone(dtm.timedelta(hours=3))
    plans = [("date_by_timestamp", dtm.date, [date_by_timestamp()], dates), ("datetime_by_timestamp", dtm.datetime, [datetime_by_timestamp()], aware),
             ("datetime_by_timestamp(tz=+3)", dtm.datetime, [datetime_by_timestamp(tz=plus3)], [d.astimezone(plus3) for d in aware]),
             ("datetime_by_format", dtm.datetime, [datetime_by_format(fmt="%Y-%m-%d %H:%M:%S")], [d.replace(tzinfo=None) for d in aware]),
             ("date_by_timestamp/list", typing.List[dtm.date], [date_by_timestamp()], [dates]), ("date_by_timestamp/dict", typing.Dict[str, dtm.date], [date_by_timestamp()], [{"d": dates[0], "e": dates[3]}])]
    old = os.environ.get("TZ")
    try:
        for tz in ("UTC", "VRF+5", "VRF-9", "VRF+11:30", "VRF-13"):
            os.environ["TZ"] = tz
            time.tzset()
            for name, tp, recipe, values in plans:
                for dt, sc in MODES[:2] + MODES[-1:]:
                    r = Retort(recipe=recipe, debug_trail=dt, strict_coercion=sc)
                    for x in values:
                        d = attempt(r.dump, x, tp)
                        back = attempt(r.load, json.loads(json.dumps(d.value)), tp) if d.kind == "ok" else d
                        ctx.evaluated(("temporal-provider", name, tz, repr(x), dt.name, sc), nontrivial=tz != "UTC")
                        ctx.count("leg_any")
                        ctx.count("temporal_round_trips")
                        if back.kind != "ok" or back.value != x or type(back.value) is not type(x):
                            ctx.violation(f"value-changed:{name.split('/')[0].split('(')[0]}:process-time-zone", f"{name} with TZ={tz}: {x!r} -> {d!r:.80} -> {back!r:.120}", {"provider": name, "TZ": tz, "value": repr(x)})
    finally:
        if old is None:
            os.environ.pop("TZ", None)
        else:
            os.environ["TZ"] = old
        time.tzset()


DIRECTED = {
    "configured-temporal-providers-in-several-time-zones": _configured_temporal_providers,
    "as-list-with-output-only-field": _as_list_with_output_only_field,
    "omit-default-round-trip": _omit_default_round_trip,
    "all-scalars": _all_scalars,
    "sqlalchemy-json-falsy-documents": _falsy_documents,
    "literal-bytes-strict": _values(spec.LiteralT((b"abc", 1)), [b"abc", 1]),
}
