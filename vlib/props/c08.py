"""C08 - models are built by their own constructor; omitted fields get the true default.

Monitor: constructor call log. The check defines models whose constructors / __post_init__ / validators /
default factories append to a log; every load is compared with an instance the check builds by calling the
model directly with only the present fields (type-strict), the call is bound against the real signature,
and factory results of two loads must be distinct objects."""
from __future__ import annotations

import enum
import inspect
import itertools
import math
import sys
import types
import typing
from dataclasses import dataclass, field
from decimal import Decimal
from fractions import Fraction
from typing import Any

import attrs

from adaptix import P, Retort, constructor, name_mapping

from ..adx import MODES, attempt, make_retort, mode_name
from ..eq import strict_eq

LOG = []          # (kind, cls name, args, kwargs)
FACTORY_CALLS = []


class IE8(enum.IntEnum):
    Z = 0
    O = 1


class SE8(str, enum.Enum):
    E = ""
    A = "a"


class Obj:
    def __init__(self, v):
        self.v = v

    def __eq__(self, other):
        return type(other) is Obj and other.v == self.v

    def __hash__(self):
        return hash(self.v)

    def __repr__(self):
        return f"Obj({self.v!r})"


class Pt(typing.NamedTuple):
    x: int
    y: int


PtOld = __import__("collections").namedtuple("PtOld", "x y")


class TupleSub(tuple):
    pass


class FrozenSub(frozenset):
    pass


class IntSub(int):
    pass


class StrSub(str):
    pass


class FloatSub(float):
    pass


class BytesSub(bytes):
    pass


class ListSub(list):
    pass


class DictSub(dict):
    pass


class SetSub(set):
    pass


IMMUTABLE_DEFAULTS = [
    # one-element tuples and subclass instances of every type the literal renderer inlines
    (5,), ((1,),), ("a",), (None,), ((), (2,)), Pt(0, 1), PtOld(2, 3), (Pt(0, 0), Pt(2, 3)), TupleSub((1, 2)), FrozenSub({1}), IntSub(5), IntSub(0), StrSub("s"), StrSub(""),
    FloatSub(1.5), BytesSub(b"b"), (IntSub(1), StrSub("x")), frozenset({IntSub(3)}), frozenset({(1,)}),
    Decimal("0"), Decimal("1"), Decimal("1.0"), Fraction(0), Fraction(1), 1.0, 0.0, -0.0, 0j, 1 + 0j, IE8.Z, IE8.O, SE8.E, SE8.A, None, ..., NotImplemented,
    float("nan"), float("inf"), range(0, 10, 2), range(3), slice(1, 5, 2), slice(None, 4), b"", b"ab", True, False, 0, 1, -1, 2**70, "", "a'\"\\{}", "é",
    (), (Decimal("1"), IE8.O), (1, (2.0, None)), frozenset(), frozenset({Fraction(1), "x"}), Obj(1), (Obj(2), True), (range(1, 3), 1.0), math.pi, -2.5e-300,
]
MUTABLE_DEFAULTS = [
    [Pt(1, 2)], {"p": Pt(0, 0)}, [(7,)], {"k": (8,)}, ListSub([1]), DictSub(a=1), SetSub({1}), [ListSub([2])], {"d": DictSub(b=2)}, [IntSub(4), StrSub("y")], [TupleSub((3,))],
    [], {}, set(), bytearray(b""), bytearray(b"x"), [Decimal("1"), [IE8.Z]], {"k": Fraction(1)}, {Decimal("1"): 1}, [range(0, 10, 2)], {1, 2.0}, [float("nan")], [Obj(3)],
    [True, 1, 1.0], {"a": [1, {"b": ()}]}, [slice(1, 2, 3)], [b"x", bytearray(b"y")],
    ([0, 0], [640, 480]), ([], {"ttl": [64]}), ({"cpu": 1}, {"mem"}), (1, [2], "s"),
]


def _counting(name, fn):
    def factory():
        FACTORY_CALLS.append(name)
        return fn()
    factory.__name__ = f"factory_{name}"
    return factory


def _counting_self(name):
    def factory(self):
        FACTORY_CALLS.append(name)
        return ("made-from", type(self).__name__)
    factory.__name__ = f"factory_{name}"
    return factory


FACTORIES = [("list", list), ("dict", dict), ("set", set), ("tuple", tuple), ("str", str), ("bytes", bytes), ("NoneType", type(None)),
             ("lambda_list1", lambda: [1]), ("lambda_dec", lambda: Decimal("1")), ("lambda_nested", lambda: {"k": [IE8.O]}), ("bytearray", bytearray), ("frozenset", frozenset)]

_n = itertools.count()


def _mod():
    name = f"vlib_c08_{next(_n)}"
    mod = types.ModuleType(name)
    mod.__dict__.update(Any=Any, dataclass=dataclass, field=field, attrs=attrs, typing=typing, LOG=LOG)
    sys.modules[name] = mod
    return mod


@dataclass
class FSpec:
    name: str
    req: str            # 'req' | 'default' | 'factory'
    default: Any = None
    factory_name: str = ""
    pkind: str = "pk"   # 'po' positional-only | 'pk' positional-or-keyword | 'ko' keyword-only


def build(kind, fields, with_kwargs=False):  # noqa: C901, PLR0912, PLR0915
    """Creates an instrumented model class of the given kind. Returns (cls, callable to construct, signature target)."""
    mod = _mod()
    g = mod.__dict__
    name = f"C{next(_n)}"
    for i, f in enumerate(fields):
        g[f"D{i}"] = f.default
    lines = []
    if kind == "dataclass":
        lines += ["@dataclass", f"class {name}:"]
        for i, f in enumerate(fields):
            opts = []
            if f.req == "default":
                opts.append(f"default=D{i}")
            elif f.req == "factory":
                opts.append(f"default_factory=D{i}")
            if f.pkind == "ko":
                opts.append("kw_only=True")
            lines.append(f"    {f.name}: Any" + (f" = field({', '.join(opts)})" if opts else ""))
        lines += ["    def __post_init__(self):", f"        LOG.append(('post_init', '{name}', (), {{}}))"]
    elif kind == "namedtuple":
        lines += [f"class {name}(typing.NamedTuple):"]
        for i, f in enumerate(fields):
            lines.append(f"    {f.name}: Any" + ("" if f.req == "req" else f" = D{i}"))
    elif kind == "attrs":
        lines += ["@attrs.define", f"class {name}:"]
        for i, f in enumerate(fields):
            opts = [f"validator=_validator_{i}"]
            g[f"_validator_{i}"] = (lambda nm: (lambda inst, attr, value: LOG.append(("validator", nm, (attr.name,), {}))))(name)
            if f.req == "default":
                opts.append(f"default=D{i}")
            elif f.req == "factory" and f.factory_name.startswith("takes_self"):
                opts.append(f"default=attrs.Factory(D{i}, takes_self=True)")
            elif f.req == "factory":
                opts.append(f"factory=D{i}")
            if f.pkind == "ko":
                opts.append("kw_only=True")
            lines.append(f"    {f.name}: Any = attrs.field({', '.join(opts)})")
        lines += ["    def __attrs_post_init__(self):", f"        LOG.append(('post_init', '{name}', (), {{}}))"]
    elif kind in ("init", "func"):
        params, body = [], []
        seen_ko = False
        n_po = sum(1 for f in fields if f.pkind == "po")
        for i, f in enumerate(fields):
            if f.pkind == "ko" and not seen_ko:
                params.append("*")
                seen_ko = True
            if f.req == "factory":
                g[f"S{i}"] = _SENT
                params.append(f"{f.name}: Any = S{i}")
                body.append(f"        self.{f.name} = D{i}() if {f.name} is S{i} else {f.name}")
            else:
                params.append(f"{f.name}: Any" + ("" if f.req == "req" else f" = D{i}"))
                body.append(f"        self.{f.name} = {f.name}")
            if f.pkind == "po" and i == n_po - 1:
                params.append("/")
        if with_kwargs:
            params.append("**extra_kw: Any")
            body.append("        self.extra_kw = extra_kw")
        if kind == "init":
            lines += [f"class {name}:", f"    def __init__(self, {', '.join(params)}):", f"        LOG.append(('post_init', '{name}', (), {{}}))", *body,
                      "    def __eq__(self, o):", "        return type(self) is type(o) and self.__dict__ == o.__dict__",
                      "    def __repr__(self):", f"        return '{name}' + repr(self.__dict__)"]
        else:
            lines += [f"class {name}:", "    def __eq__(self, o):", "        return type(self) is type(o) and self.__dict__ == o.__dict__",
                      "    def __repr__(self):", f"        return '{name}' + repr(self.__dict__)",
                      f"def make_{name}({', '.join(params)}) -> {name}:", f"    self = {name}()", f"    LOG.append(('post_init', '{name}', (), {{}}))",
                      *[b[4:] for b in body], "    return self"]
    src = "\n".join(lines) + "\n"
    exec(compile(src, f"<vlib c08 {name}>", "exec", dont_inherit=True), g)  # noqa: S102
    cls = g[name]
    cls.__vlib_source__ = src
    target = g[f"make_{name}"] if kind == "func" else cls
    return cls, target


_SENT = type("Sent", (), {"__repr__": lambda s: "<factory>"})()


def instrument(cls, target, kind):
    """Wraps the constructor so that every call is logged with its args/kwargs."""
    if kind == "func":
        def logged(*a, **kw):
            LOG.append(("call", cls.__name__, a, kw))
            return target(*a, **kw)
        logged.__signature__ = inspect.signature(target)
        logged.__annotations__ = dict(target.__annotations__)
        logged.__name__ = target.__name__
        return logged
    if kind == "namedtuple":
        orig_new = cls.__new__

        def new(klass, *a, **kw):
            LOG.append(("call", cls.__name__, a, kw))
            return orig_new(klass, *a, **kw)
        new.__signature__ = inspect.signature(orig_new)
        new.__defaults__ = orig_new.__defaults__
        cls.__new__ = new
        return cls
    orig_init = cls.__init__

    def init(self, *a, **kw):
        LOG.append(("call", cls.__name__, a, kw))
        orig_init(self, *a, **kw)
    init.__signature__ = inspect.signature(orig_init)
    init.__wrapped__ = orig_init
    init.__annotations__ = dict(getattr(orig_init, "__annotations__", {}))
    init.__defaults__ = getattr(orig_init, "__defaults__", None)
    init.__kwdefaults__ = getattr(orig_init, "__kwdefaults__", None)
    cls.__init__ = init
    return cls


def gen_fields(rng, kind):
    n_req = rng.randint(0, 2)
    n_opt = rng.randint(1, 4)
    names = rng.sample(["a", "b", "c", "d", "e", "f", "g_", "value", "data", "x1"], n_req + n_opt)
    fields = []
    for nm in names[:n_req]:
        fields.append(FSpec(nm, "req"))
    for nm in names[n_req:]:
        r = rng.random()
        mutable_ok = kind in ("namedtuple", "init", "func", "attrs")
        if r < 0.12 and kind == "attrs":
            fields.append(FSpec(nm, "factory", _counting_self("takes_self"), "takes_self"))
        elif r < 0.3:
            fname, fn = rng.choice(FACTORIES)
            if kind == "namedtuple":
                fields.append(FSpec(nm, "default", rng.choice(IMMUTABLE_DEFAULTS)))
            else:
                fields.append(FSpec(nm, "factory", _counting(fname, fn), fname))
        elif r < 0.5 and mutable_ok and kind != "attrs":
            import copy  # noqa: PLC0415

            fields.append(FSpec(nm, "default", copy.deepcopy(rng.choice(MUTABLE_DEFAULTS))))
        else:
            fields.append(FSpec(nm, "default", rng.choice(IMMUTABLE_DEFAULTS)))
    # parameter kinds
    if kind in ("init", "func"):
        # positional-only block must be required (adaptix forbids optional positional-only parameters), then pk, then ko
        npo = rng.randint(0, n_req)
        for f in fields[:npo]:
            f.pkind = "po"
        nko = rng.randint(0, len(fields) - npo)
        for f in fields[len(fields) - nko:]:
            f.pkind = "ko"
    elif kind in ("dataclass", "attrs"):
        nko = rng.randint(0, len(fields)) if rng.random() < 0.4 else 0
        for f in fields[len(fields) - nko:]:
            f.pkind = "ko"
        # kw_only required fields may follow optional positional ones
        if nko and rng.random() < 0.5:
            fields.append(FSpec("kreq", "req", pkind="ko"))
    return fields


def check_program(ctx, rng, kind, fields, modes, recipe_extra=(), skip=()):  # noqa: C901, PLR0912, PLR0915
    cls, target = build(kind, fields)
    target = instrument(cls, target, kind)
    sig = inspect.signature(target if kind == "func" else cls)
    desc = {"kind": kind, "source": cls.__vlib_source__[:1200], "fields": [(f.name, f.req, repr(f.default)[:60], f.pkind) for f in fields], "skip": list(skip)}
    recipe = list(recipe_extra)
    if kind == "func":
        recipe.append(constructor(cls, target))
    if skip:
        recipe.append(name_mapping(cls, skip=list(skip)))
    optional = [f for f in fields if f.req != "req" and f.name not in skip]
    subsets = list(itertools.chain.from_iterable(itertools.combinations(optional, k) for k in range(len(optional) + 1)))
    if len(subsets) > 8:
        subsets = [subsets[0], subsets[-1], *rng.sample(subsets[1:-1], 6)]
    for dt, sc in modes:
        r = make_retort(dt, sc, recipe)
        ld = attempt(r.get_loader, cls)
        if ld.kind != "ok":
            ctx.violation(f"loader-refused:{kind}:{type(ld.exc).__name__}", f"{kind} model: loader creation failed: {ld.exc!r} cause={getattr(ld.exc, '__cause__', None)!r:.300}", desc)
            return
        for present in subsets:
            data = {}
            for f in fields:
                if f.req == "req" or f in present:
                    key = f.name[:-1] if f.name.endswith("_") else f.name
                    data[key] = _input_for(f, rng)
            given = {f.name: data[f.name[:-1] if f.name.endswith("_") else f.name] for f in fields if (f.req == "req" or f in present)}
            # what the model itself produces when called with only the present fields
            LOG.clear()
            FACTORY_CALLS.clear()
            try:
                own = _construct(target, kind, fields, given)
            except Exception as e:  # noqa: BLE001
                ctx.count("own_construction_failed")
                continue
            own_factory_calls = len(FACTORY_CALLS)
            results = []
            for rep in range(2):
                LOG.clear()
                FACTORY_CALLS.clear()
                out = attempt(ld.value, dict(data))
                calls = [e for e in LOG if e[0] == "call"]
                posts = [e for e in LOG if e[0] == "post_init"]
                absent = [f for f in fields if f.name not in given]
                ctx.evaluated((kind, repr(desc["fields"]), tuple(sorted(given)), dt.name, sc, rep), nontrivial=bool(absent))
                ctx.count("loads")
                ctx.count("constructor_calls_logged", len(calls))
                info = {**desc, "data": repr(data), "mode": mode_name(dt, sc), "present": sorted(given), "log": [repr(e)[:200] for e in LOG[:6]]}
                if out.kind != "ok":
                    ctx.violation(f"load-failed:{kind}:{type(out.exc).__name__}", f"{kind} model, present={sorted(given)}: load raised {out.exc!r}", info)
                    break
                obj = out.value
                results.append(obj)
                if len(calls) != 1:
                    ctx.violation(f"constructor-called-{len(calls)}-times:{kind}", f"{kind} model: constructor called {len(calls)} times for one load", info)
                    break
                if kind != "namedtuple" and len(posts) != 1:
                    ctx.violation(f"post-init-ran-{len(posts)}-times:{kind}", f"{kind} model: __post_init__/constructor body ran {len(posts)} times", info)
                    break
                if kind == "attrs" and sum(1 for e in LOG if e[0] == "validator") != len(fields):
                    ctx.violation("validators-skipped:attrs", f"attrs validators ran {sum(1 for e in LOG if e[0] == 'validator')} times for {len(fields)} fields", info)
                    break
                _, _, a, kw = calls[0]
                # binding against the real signature: positional-only never by keyword, nothing twice, right parameter
                try:
                    bound = sig.bind(*a, **kw) if kind == "func" else sig.bind(*a, **kw)
                except TypeError as e:
                    ctx.violation(f"constructor-call-does-not-bind:{kind}", f"{kind} model: constructor called with args={a!r} kwargs={kw!r}: {e}", info)
                    break
                for pname, val in bound.arguments.items():
                    p = sig.parameters[pname]
                    if p.kind is inspect.Parameter.POSITIONAL_ONLY and pname in kw:
                        ctx.violation("positional-only-passed-by-keyword", f"{pname} passed by keyword", info)
                    if p.kind is inspect.Parameter.KEYWORD_ONLY and pname not in kw:
                        ctx.violation("keyword-only-passed-positionally", f"{pname} passed positionally", info)
                    if pname in given and not strict_eq(val, given[pname]):
                        ctx.violation(f"wrong-value-bound:{kind}", f"parameter {pname} received {val!r}, the loaded value is {given[pname]!r}", info)
                # resulting object: field-wise type-strict equality with the model's own construction
                bad = _diff(kind, fields, obj, own)
                if bad is not None:
                    fname, got, want = bad
                    f = next(x for x in fields if x.name == fname)
                    key = _default_key(f, got, want) if fname not in given else f"present-field-changed:{kind}"
                    ctx.violation(key, f"{kind} model, field {fname} ({'absent' if fname not in given else 'present'}): loaded object holds {got!r} ({type(got).__name__}), "
                                       f"the model itself produces {want!r} ({type(want).__name__})", info)
                    break
                n_absent_factories = sum(1 for f in absent if f.req == "factory")
                if len(FACTORY_CALLS) != n_absent_factories:
                    ctx.violation(f"factory-called-{'more' if len(FACTORY_CALLS) > n_absent_factories else 'less'}-than-once-per-load:{kind}",
                                  f"{kind} model: {n_absent_factories} absent factory fields, factories called {FACTORY_CALLS}", info)
                    break
            if len(results) == 2:
                shared = _shared_mutable(kind, fields, results[0], results[1], given)
                if shared:
                    ctx.violation(f"default-shared-between-loads:{kind}", f"{kind} model: two loads share the mutable default object of field {shared}", {**desc, "data": repr(data)})
                # mutable default VALUES (tags=[] of a hand-written __init__, NamedTuple, attrs): after a caller has edited what an earlier load
                # returned, the next load still holds what the model itself produces NOW (seeded change: the value was hoisted into a constant of
                # the loader - one object for all loads that is not the model's own default object)
                edited = []
                v0 = _view(kind, fields, results[0])
                for f in fields:
                    if f.name in given or f.req != "default":
                        continue
                    obj0 = v0[f.name]
                    if isinstance(obj0, tuple):
                        # an immutable default may still HOLD a mutable container: ([0, 0], [640, 480]) (seeded change: tuple defaults hoisted to a constant)
                        obj0 = next((x for x in obj0 if isinstance(x, _MUT)), None)
                    if not isinstance(obj0, _MUT):
                        continue
                    if isinstance(obj0, list):
                        obj0.append("edited-by-caller")
                    elif isinstance(obj0, dict):
                        obj0["edited-by-caller"] = 1
                    elif isinstance(obj0, set):
                        obj0.add("edited-by-caller")
                    else:
                        obj0.extend(b"!")
                    edited.append(f.name)
                if edited:
                    LOG.clear()
                    FACTORY_CALLS.clear()
                    third = attempt(ld.value, dict(data))
                    try:
                        own_now = _construct(target, kind, fields, given)
                    except Exception:  # noqa: BLE001
                        own_now = None
                    ctx.count("loads_after_editing_an_earlier_result")
                    if third.kind == "ok" and own_now is not None:
                        bad = _diff(kind, fields, third.value, own_now)
                        if bad is not None and bad[0] in edited:
                            ctx.violation(f"default-value-changed-after-editing-an-earlier-result:{kind}", f"{kind} model, field {bad[0]} (absent): after a caller edited the value an earlier load "
                                          f"returned, a new load holds {bad[1]!r}, the model itself produces {bad[2]!r}", {**desc, "data": repr(data)})


_FALSY_INPUTS = (None, None, 0, "", False, [], {}, 0.0)


def _input_for(f, rng=None):
    if f.req != "req" and rng is not None and rng.random() < 0.3:
        # a PRESENT optional field whose loaded value is None / falsy: it is a value, not an absence (seeded change: `value = data.get(key)` /
        # `if value is None` in the DISABLE extraction of the first optional key)
        v = rng.choice(_FALSY_INPUTS)
        return type(v)() if isinstance(v, (list, dict)) else v
    return {"n": f.name, "v": [1, 2]} if f.req != "req" else f"req-{f.name}"


def _construct(target, kind, fields, given):
    pos = [given[f.name] for f in fields if f.pkind == "po" and f.name in given]
    kw = {k: v for k, v in given.items() if k not in {f.name for f in fields if f.pkind == "po"}}
    return target(*pos, **kw)


def _view(kind, fields, obj):
    return {f.name: getattr(obj, f.name) for f in fields}


def _diff(kind, fields, got, own):
    vg, vo = _view(kind, fields, got), _view(kind, fields, own)
    for f in fields:
        if not strict_eq(vg[f.name], vo[f.name]):
            return f.name, vg[f.name], vo[f.name]
    return None


def _default_key(f, got, want):
    if type(got) is not type(want):
        return f"default-look-alike:{type(want).__name__}->{type(got).__name__}"
    if isinstance(want, (range, slice)):
        return "default-range-slice-changed"
    return f"default-value-changed:{type(want).__name__}"


_MUT = (list, dict, set, bytearray)


def _shared_mutable(kind, fields, a, b, given):
    va, vb = _view(kind, fields, a), _view(kind, fields, b)
    for f in fields:
        if f.name in given or f.req != "factory":
            continue
        if isinstance(va[f.name], _MUT) and va[f.name] is vb[f.name]:
            return f.name
    return None


KINDS = ["dataclass", "dataclass", "namedtuple", "attrs", "init", "init", "func"]


def run_case(ctx, rng, idx):
    kind = rng.choice(KINDS)
    fields = gen_fields(rng, kind)
    modes = MODES if ctx.tier == "thorough" else rng.sample(MODES, 2)
    ctx.count("programs")
    ctx.count(f"kind_{kind}")
    for f in fields:
        if f.req == "default":
            ctx.count(f"default_type_{type(f.default).__name__}")
        elif f.req == "factory":
            ctx.count(f"factory_{f.factory_name}")
        ctx.count(f"pkind_{f.pkind}")
    skip = []
    opt = [f.name for f in fields if f.req != "req"]
    if len(opt) >= 2 and rng.random() < 0.3:
        skip = [rng.choice(opt[:-1])]     # an optional parameter in the middle is skipped
        ctx.count("with_skipped_middle_parameter")
    if idx < 2:
        ctx.sample({"kind": kind, "fields": [(f.name, f.req, repr(f.default)[:40], f.pkind) for f in fields], "skip": skip})
    check_program(ctx, rng, kind, fields, modes, skip=skip)


def _pool_sweep(ctx):
    """Every default of the pool as the only optional field of a NamedTuple / init class / dataclass (hashable ones)."""
    import random  # noqa: PLC0415

    rng = random.Random(0)
    for d in IMMUTABLE_DEFAULTS:
        for kind in ("dataclass", "namedtuple", "init", "attrs"):
            check_program(ctx, rng, kind, [FSpec("a", "req"), FSpec("b", "default", d), FSpec("c", "default", d, pkind="ko" if kind != "namedtuple" else "pk")], MODES[:1])
    import copy  # noqa: PLC0415

    for d in MUTABLE_DEFAULTS:
        for kind in ("namedtuple", "init"):
            check_program(ctx, rng, kind, [FSpec("a", "req"), FSpec("b", "default", copy.deepcopy(d))], MODES[:1])
    for fname, fn in FACTORIES:
        for kind in ("dataclass", "attrs", "init"):
            check_program(ctx, rng, kind, [FSpec("b", "factory", _counting(fname, fn), fname), FSpec("c", "factory", _counting(fname, fn), fname)], MODES[:1])


def _several_lookalike_defaults_in_one_model(ctx):
    """Defaults of DIFFERENT fields that equal each other across types (Decimal('1') == Fraction(1) == IE.ONE == 1 == True): each absent
    field holds ITS default, of its own type (seeded change: captured constants de-duplicated through a dict, i.e. by ==)."""
    import random  # noqa: PLC0415
    from decimal import Decimal  # noqa: PLC0415
    from fractions import Fraction  # noqa: PLC0415

    rng = random.Random(0)
    ones = [Decimal("1"), Fraction(1, 1), next(m for m in IE8 if m == 1), 1.0, True, 1]
    zeros = [Fraction(0), Decimal("0"), -0.0, False, 0]
    for vals in (ones, list(reversed(ones)), zeros, list(reversed(zeros))):
        for kind in ("dataclass", "namedtuple", "init", "attrs"):
            fields = [FSpec("a", "req")] + [FSpec(f"d{i}", "default", v) for i, v in enumerate(vals)]
            check_program(ctx, rng, kind, fields, MODES[:2])


def _lookalike_container_defaults(ctx):
    """Tuples and frozensets whose ELEMENTS are look-alikes of each other ((0, 0) == (False, False) == (Decimal(0), Decimal(0)),
    frozenset({1}) == frozenset({True})), as defaults of several fields of one model and of models loaded one after the other in one process
    (seeded change: rendered literals of tuples / frozensets memoised in a dict keyed by the container itself, i.e. by == of the elements)."""
    import random  # noqa: PLC0415
    from decimal import Decimal  # noqa: PLC0415
    from fractions import Fraction  # noqa: PLC0415

    rng = random.Random(0)
    groups = [
        [(0, 0), (False, False), (Decimal(0), Decimal(0)), (0.0, 0.0), (Fraction(0), 0)],
        [(1,), (True,), (1.0,), (IE8.O,), (Decimal(1),)],
        [frozenset({1}), frozenset({True}), frozenset({1.0}), frozenset({Decimal(1)})],
        [((1,), 0), ((True,), False), ((1.0,), -0.0)],
        [(0, ""), (False, SE8.E), (IE8.Z, StrSub(""))],
        [(1, frozenset({0})), (True, frozenset({False}))],
    ]
    for vals in groups:
        for order in (vals, list(reversed(vals))):
            for kind in ("dataclass", "namedtuple", "init", "attrs"):
                # all look-alikes in one model ...
                check_program(ctx, rng, kind, [FSpec("a", "req")] + [FSpec(f"d{i}", "default", v) for i, v in enumerate(order)], MODES[:1])
            # ... and one model per look-alike, loaded one after the other (a memo outlives the request)
            for i, v in enumerate(order):
                check_program(ctx, rng, ("dataclass", "init", "namedtuple")[i % 3], [FSpec("a", "req"), FSpec("b", "default", v)], MODES[:1])


def _present_none_and_falsy_values(ctx):
    """Optional fields PRESENT in the input with None / a falsy value, first and later fields of the model, every mode: the constructor receives the
    loaded value, never the default (seeded change: DISABLE extraction of the first optional key by `data.get(key)` + `is None`)."""
    import random  # noqa: PLC0415

    class _Fixed:
        def __init__(self, seq):
            self.seq, self.i = seq, 0

        def random(self):
            return 0.0

        def choice(self, _pool):
            self.i += 1
            return self.seq[self.i % len(self.seq)]

        def sample(self, pop, k):
            return random.Random(0).sample(pop, k)

        def randint(self, a, b):
            return a
    for falsy in ([None], [0], [""], [False], [None, 0, "", False, [], {}]):
        for kind in ("dataclass", "namedtuple", "init", "attrs"):
            for fields in ([FSpec("t", "default", 30.0), FSpec("r", "default", 3)], [FSpec("t", "default", 30.0)], [FSpec("q", "req"), FSpec("t", "default", (1,)), FSpec("u", "default", "x")],
                           [FSpec("t", "factory", _counting("list", list), "list"), FSpec("u", "default", True)] if kind != "namedtuple" else [FSpec("t", "default", 1.5), FSpec("u", "default", True)]):
                check_program(ctx, _Fixed(falsy), kind, fields, MODES)


def _raw_builtin_factories(ctx):
    """default_factory=<the builtin class itself> (list, dict, set, frozenset, tuple, str, bytes, bytearray, int, float, bool, complex, deque,
    OrderedDict): the loader may render such a factory as a literal, so the absent field must hold exactly what the factory makes - same
    type, equal value, a fresh object for every load when it is mutable. The other workloads wrap every factory in a call counter, which hides
    the builtin from that rendering (seeded change: a table of factory literals with bytearray -> b"")."""
    import collections  # noqa: PLC0415
    from dataclasses import field as dfield, make_dataclass  # noqa: PLC0415

    from adaptix import Retort  # noqa: PLC0415

    factories = [list, dict, set, frozenset, tuple, str, bytes, bytearray, int, float, bool, complex, collections.deque, collections.OrderedDict, type(None), object]
    kinds = {"dataclass": lambda name, fs: make_dataclass(name, [("a", int, dfield(default=0))] + [(f"f{i}", Any, dfield(default_factory=f)) for i, f in enumerate(fs)]),
             "attrs": lambda name, fs: attrs.make_class(name, {"a": attrs.field(default=0), **{f"f{i}": attrs.field(factory=f) for i, f in enumerate(fs)}})}
    for kind, mk in kinds.items():
        for group in (factories, list(reversed(factories)), *[[f] for f in factories]):
            cls = mk(f"RawFac_{kind}_{len(group)}_{next(_n)}", group)
            for dt, sc in MODES[:3]:
                r = Retort(debug_trail=dt, strict_coercion=sc)
                one, two = attempt(r.load, {}, cls), attempt(r.load, {"a": 1}, cls)
                ctx.evaluated(("raw-builtin-factory", kind, tuple(f.__name__ for f in group), dt.name, sc), nontrivial=True)
                ctx.count("loads", 2)
                if one.kind != "ok" or two.kind != "ok":
                    ctx.violation(f"load-failed:{kind}:raw-builtin-factory", f"{kind} with default_factory in {[f.__name__ for f in group]}: {one!r:.120} / {two!r:.120}", {"kind": kind})
                    continue
                for i, f in enumerate(group):
                    v1, v2, want = getattr(one.value, f"f{i}"), getattr(two.value, f"f{i}"), f()
                    if f is object:
                        ok = type(v1) is object and v1 is not v2
                    else:
                        ok = type(v1) is type(want) and v1 == want and type(v2) is type(want)
                    if not ok:
                        ctx.violation(f"default-look-alike:factory:{f.__name__}->{type(v1).__name__}", f"{kind} model, field with default_factory={f.__name__} (absent): loaded object holds {v1!r} "
                                      f"({type(v1).__name__}), the factory makes {want!r} ({type(want).__name__}) [{mode_name(dt, sc)}]", {"kind": kind, "factory": f.__name__})
                    elif isinstance(v1, _MUT + (collections.deque,)) and v1 is v2:
                        ctx.violation(f"default-shared-between-loads:{kind}:raw-builtin-factory", f"{kind} model: two loads share the object made by default_factory={f.__name__}", {"kind": kind, "factory": f.__name__})


def _attrs_parameters_named_unlike_their_attributes(ctx):
    """attrs lets a constructor PARAMETER be named unlike the attribute (private `_count` -> `count`, alias=), and a
    Factory(takes_self=True) default can only be evaluated by the constructor, so such a field is passed only when present - under the
    parameter's name (seeded change: the field id was used for these 'packed' fields)."""
    try:
        from attrs import Factory, define, field  # noqa: PLC0415
    except ImportError:
        ctx.count("attrs_missing")
        return
    from adaptix import Retort, name_mapping  # noqa: PLC0415

    @define
    class Basket:
        items: list = Factory(list)
        _count: int = field(default=Factory(lambda self: len(self.items), takes_self=True))
        total: int = field(alias="total_price", default=Factory(lambda self: 10 * len(self.items), takes_self=True))

    @define
    class Swapped:
        first: int = field(alias="second", default=Factory(lambda self: -1, takes_self=True))
        second: int = field(alias="first", default=Factory(lambda self: -2, takes_self=True))
    cases = [(Basket, {}, lambda: Basket()), (Basket, {"items": [1, 2]}, lambda: Basket([1, 2])), (Basket, {"items": [1, 2], "total": 99}, lambda: Basket([1, 2], total_price=99)),
             (Basket, {"items": [1, 2], "count": 7}, lambda: Basket([1, 2], count=7)), (Basket, {"count": 7, "total": 99}, lambda: Basket(count=7, total_price=99)),
             (Swapped, {}, lambda: Swapped()), (Swapped, {"first": 1}, lambda: Swapped(second=1)), (Swapped, {"first": 1, "second": 2}, lambda: Swapped(second=1, first=2))]
    for dt, sc in MODES[:3]:
        r = Retort(debug_trail=dt, strict_coercion=sc, recipe=[name_mapping(Basket, map={"_count": "count"})])
        for model, data, build in cases:
            want, got = build(), attempt(r.load, dict(data), model)
            ctx.evaluated(("attrs-param-names", model.__name__, repr(data), dt.name), nontrivial=True)
            ctx.count("loads")
            if got.kind != "ok" or got.value != want:
                ctx.violation("constructor-gets-wrong-arguments:attrs:parameter-name-differs", f"{model.__name__} from {data!r}: {got!r:.160}, the constructor itself gives {want!r}", {"model": model.__name__, "data": repr(data)})


DIRECTED = {"default-pool-sweep": _pool_sweep, "several-lookalike-defaults-in-one-model": _several_lookalike_defaults_in_one_model,
            "lookalike-container-defaults": _lookalike_container_defaults, "present-none-and-falsy-values": _present_none_and_falsy_values, "raw-builtin-factories": _raw_builtin_factories,
            "attrs-parameters-named-unlike-their-attributes": _attrs_parameters_named_unlike_their_attributes}
from ..suite_leg import make as _suite_leg  # noqa: E402

DIRECTED["suite-under-monitors"] = _suite_leg("C08")

