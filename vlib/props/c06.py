"""C06 - debug_trail changes only error reporting.

Monitor: three-way differential between the DISABLE / FIRST / ALL programs generated for the same
type and coercion mode (loading of valid+invalid data, dumping of well- and ill-typed objects)."""
from __future__ import annotations

from adaptix import DebugTrail

from .. import hostile, spec
from ..adx import DEBUG_MODES, attempt, error_nodes, make_retort, mode_name
from ..eq import strict_eq
from ..workload import ONE_SHOT, Program, data_bag, gen_node
from .c02 import sub_pairs


def _seq_eq(a, b):
    """input_value equality modulo list/tuple materialisation (FIRST/ALL tuple loaders report tuple(data))."""
    if isinstance(a, (list, tuple)) and isinstance(b, (list, tuple)):
        return len(a) == len(b) and all(_seq_eq(x, y) for x, y in zip(a, b))
    import collections.abc as cabc  # noqa: PLC0415

    for x, y in ((a, b), (b, a)):
        # tuple(data) reported by one mode, data itself (any sized iterable) by the other
        if type(x) is tuple and isinstance(y, cabc.Collection):
            try:
                return _seq_eq(x, tuple(y))
            except Exception:  # noqa: BLE001
                return False
    if a is b:
        return True
    try:
        return strict_eq(a, b) or bool(a == b)
    except Exception:  # noqa: BLE001
        return False


def corresponds(single, all_exc, one_shot):
    """The single error (DISABLE / FIRST) must match some node of the ALL tree: same class, same input_value."""
    for _, node in error_nodes(all_exc):
        if type(node) is type(single) or (type(single).__name__ == "LoadError" and type(node).__name__ == "UnionLoadError"):
            if one_shot or not hasattr(single, "input_value") or not hasattr(node, "input_value"):
                return True
            if _seq_eq(single.input_value, node.input_value):
                return True
    return False


def compare(ctx, node, label, fac, one_shot, sc, fns, what):
    if one_shot and node.kinds() & {"Union", "Optional"}:
        ctx.count("one_shot_vs_union_skipped")   # the first case that tries the iterator consumes it: nothing is documented about that
        return None
    outs = {}
    shared = None if one_shot else fac()   # the same object for all modes unless it is a one-shot iterator
    for dt in DEBUG_MODES:
        if (dt, sc) not in fns:
            return None
        outs[dt] = attempt(fns[dt, sc], fac() if one_shot else shared)
    kinds = {dt: ("ok" if o.kind == "ok" else "fail") for dt, o in outs.items()}
    failing = any(k == "fail" for k in kinds.values())
    ctx.evaluated((what, node.src, label, sc), nontrivial=failing or node.depth() > 1)
    ctx.count("triples")
    if failing:
        ctx.count("failing_triples")
    if len(set(kinds.values())) > 1:
        return ("success-disagreement", outs)
    if not failing:
        ref = outs[DebugTrail.ALL].value
        for dt in (DebugTrail.DISABLE, DebugTrail.FIRST):
            v = outs[dt].value
            if not (strict_eq(v, ref) or (one_shot and " at 0x" in repr(v))):
                if what == "dump" and _unordered_eq(v, ref):
                    continue
                return ("result-mismatch", outs)
        return None
    if what == "load":
        all_exc = outs[DebugTrail.ALL].exc
        for dt in (DebugTrail.DISABLE, DebugTrail.FIRST):
            if not corresponds(outs[dt].exc, all_exc, one_shot):
                if outs[dt].kind in ("exc", "impure") or outs[DebugTrail.ALL].kind in ("exc", "impure"):
                    ctx.count("non_loaderror_uncompared")   # C04's business; classes of foreign exceptions are not constrained by C06
                    continue
                return (f"error-without-counterpart-{dt.name}", outs)
    return None


def _unordered_eq(a, b):
    from .c02 import _dump_eq  # noqa: PLC0415

    return _dump_eq(a, b)


def localise(node, d, sc, mis):
    for child, subd in sub_pairs(node, d):
        try:
            fns = {(dt, sc): make_retort(dt, sc).get_loader(child.hint) for dt in DEBUG_MODES}
        except Exception:  # noqa: BLE001
            continue

        class _C:
            def evaluated(self, *a, **k): pass
            def count(self, *a, **k): pass
        r = compare(_C(), child, "", (lambda subd=subd: subd), False, sc, fns, "load")
        if r is not None and r[0] == mis:
            return localise(child, subd, sc, mis)
    return node, d


def check(ctx, node, prog, values, bag):
    for label, fac, one_shot in bag:
        for sc in (True, False):
            r = compare(ctx, node, label, fac, one_shot, sc, prog.loaders, "load")
            if r is not None:
                mis, outs = r
                lnode, ld = (node, fac()) if one_shot else localise(node, fac(), sc, mis)
                key = f"load:{mis}:{lnode.kind}:{type(ld).__name__}"
                if one_shot and "Tuple" in node.kinds():
                    key = "load:fixed-tuple-from-one-shot-iterator"   # one mechanism: DISABLE needs len(), FIRST/ALL materialise with tuple()
                ctx.violation(key, f"{node.src} <- {label} [{'strict' if sc else 'lax'}]: " + "; ".join(f"{dt.name}={o!r}" for dt, o in outs.items()),
                              {"type": node.src, "datum": repr(fac())[:300], "outcomes": {dt.name: repr(o) for dt, o in outs.items()}, "localised": lnode.src})
    # dumping: valid values and a few ill-typed objects
    objs = [(f"value#{i}", (lambda x=x: x), False) for i, x in enumerate(values)]
    objs += [(lbl, fac, lbl in ONE_SHOT) for lbl, fac in hostile.POOL[:0]]
    for label, fac, one_shot in objs:
        r = compare(ctx, node, label, fac, one_shot, True, prog.dumpers, "dump")
        if r is not None:
            mis, outs = r
            ctx.violation(f"dump:{mis}:{node.kind}", f"dump {node.src} <- {label}: " + "; ".join(f"{dt.name}={o!r}" for dt, o in outs.items()),
                          {"type": node.src, "outcomes": {dt.name: repr(o) for dt, o in outs.items()}})


def ill_typed_dump(ctx, rng, node, prog):
    """Dumping ill-typed objects: the three modes must still agree on success (errors are not LoadErrors here)."""
    for label, fac in rng.sample(hostile.POOL, 10):
        if label in ONE_SHOT:
            continue
        r = compare(ctx, node, "ill:" + label, fac, False, True, prog.dumpers, "dump")
        if r is not None:
            mis, outs = r
            ctx.violation(f"dump-ill:{mis}:{node.kind}", f"dump {node.src} <- ill-typed {label}: " + "; ".join(f"{dt.name}={o!r}" for dt, o in outs.items()),
                          {"type": node.src, "outcomes": {dt.name: repr(o) for dt, o in outs.items()}})


def run_case(ctx, rng, idx):
    node = gen_node(rng, ctx.tier, with_models=True)
    prog = Program(node)
    values, bag = data_bag(rng, node, n_valid=3, n_mut=12, n_pool=25)
    ctx.count("programs")
    if idx < 3:
        ctx.sample({"type": node.src, "data": [lbl for lbl, _, _ in bag][:10]})
    check(ctx, node, prog, values, bag)
    ill_typed_dump(ctx, rng, node, prog)


def _one(node, label):
    def run(ctx):
        check(ctx, node, Program(node), [], [(label, hostile.POOL_BY_LABEL[label], label in ONE_SHOT)])
    return run


DIRECTED = {
    "tuple-from-iterator": _one(spec.TupleT([spec.IntT(), spec.IntT()]), "iter([1,2])"),
}
