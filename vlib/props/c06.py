"""C06 - debug_trail changes only error reporting.

Monitor: three-way differential between the DISABLE / FIRST / ALL programs generated for the same
type and coercion mode (loading of valid+invalid data, dumping of well- and ill-typed objects)."""
from __future__ import annotations

from adaptix import DebugTrail
from adaptix.load_error import LoadError

from .. import hostile, spec
from ..adx import DEBUG_MODES, attempt, error_nodes, make_retort, mode_name
from ..eq import strict_eq
from ..workload import ONE_SHOT, Program, data_bag, gen_node
from .c02 import sub_pairs


def _seq_eq(a, b):
    """input_value equality modulo list/tuple materialisation (FIRST/ALL tuple loaders report tuple(data))."""
    if isinstance(a, (list, tuple)) and isinstance(b, (list, tuple)):
        return len(a) == len(b) and all(_seq_eq(x, y) for x, y in zip(a, b))
    import collections.abc as cabc  # noqa: PLC0415

    for x, y in ((a, b), (b, a)):
        # tuple(data) reported by one mode, data itself (any sized iterable) by the other
        if type(x) is tuple and isinstance(y, cabc.Collection):
            try:
                return _seq_eq(x, tuple(y))
            except Exception:  # noqa: BLE001
                return False
    if a is b:
        return True
    try:
        return strict_eq(a, b) or bool(a == b)
    except Exception:  # noqa: BLE001
        return False


def corresponds(single, all_exc, one_shot):
    """The single error (DISABLE / FIRST) must match some node of the ALL tree: same class, same input_value."""
    for _, node in error_nodes(all_exc):
        if type(node) is type(single) or (type(single).__name__ == "LoadError" and type(node).__name__ == "UnionLoadError"):
            if one_shot or not hasattr(single, "input_value") or not hasattr(node, "input_value"):
                return True
            if _seq_eq(single.input_value, node.input_value):
                return True
    return False


def compare(ctx, node, label, fac, one_shot, sc, fns, what):
    if one_shot and node.kinds() & {"Union", "Optional"}:
        ctx.count("one_shot_vs_union")   # the first case that tries the iterator consumes (part of) it: what the next case sees depends on the mode
    outs = {}
    shared = None if one_shot else fac()   # the same object for all modes unless it is a one-shot iterator
    for dt in DEBUG_MODES:
        if (dt, sc) not in fns:
            return None
        outs[dt] = attempt(fns[dt, sc], fac() if one_shot else shared)
    kinds = {dt: ("ok" if o.kind == "ok" else "fail") for dt, o in outs.items()}
    failing = any(k == "fail" for k in kinds.values())
    ctx.evaluated((what, node.src, label, sc), nontrivial=failing or node.depth() > 1)
    ctx.count("triples")
    if failing:
        ctx.count("failing_triples")
    if len(set(kinds.values())) > 1:
        return ("success-disagreement", outs)
    if not failing:
        ref = outs[DebugTrail.ALL].value
        for dt in (DebugTrail.DISABLE, DebugTrail.FIRST):
            v = outs[dt].value
            if not (strict_eq(v, ref) or (one_shot and " at 0x" in repr(v))):
                if what == "dump" and _unordered_eq(v, ref):
                    continue
                return ("result-mismatch", outs)
        return None
    if what == "load":
        all_exc = outs[DebugTrail.ALL].exc
        for dt in (DebugTrail.DISABLE, DebugTrail.FIRST):
            if not corresponds(outs[dt].exc, all_exc, one_shot):
                if outs[dt].kind in ("exc", "impure") or outs[DebugTrail.ALL].kind in ("exc", "impure"):
                    ctx.count("non_loaderror_uncompared")   # C04's business; classes of foreign exceptions are not constrained by C06
                    continue
                return (f"error-without-counterpart-{dt.name}", outs)
    return None


def _unordered_eq(a, b):
    from .c02 import _dump_eq  # noqa: PLC0415

    return _dump_eq(a, b)


def localise(node, d, sc, mis):
    for child, subd in sub_pairs(node, d):
        try:
            fns = {(dt, sc): make_retort(dt, sc).get_loader(child.hint) for dt in DEBUG_MODES}
        except Exception:  # noqa: BLE001
            continue

        class _C:
            def evaluated(self, *a, **k): pass
            def count(self, *a, **k): pass
        r = compare(_C(), child, "", (lambda subd=subd: subd), False, sc, fns, "load")
        if r is not None and r[0] == mis:
            return localise(child, subd, sc, mis)
    return node, d


def check(ctx, node, prog, values, bag):
    for label, fac, one_shot in bag:
        for sc in (True, False):
            r = compare(ctx, node, label, fac, one_shot, sc, prog.loaders, "load")
            if r is not None:
                mis, outs = r
                lnode, ld = (node, fac()) if one_shot else localise(node, fac(), sc, mis)
                key = f"load:{mis}:{lnode.kind}:{type(ld).__name__}"
                if one_shot and "Tuple" in node.kinds():
                    key = "load:fixed-tuple-from-one-shot-iterator"   # one mechanism: DISABLE needs len(), FIRST/ALL materialise with tuple()
                if one_shot and node.kinds() & {"Union", "Optional"}:
                    # one mechanism: the union loader hands the SAME iterator to every case; a case that fails under DISABLE / FIRST stops at its
                    # first bad element, under ALL it drains the iterator to collect every error - so the next case sees different remainders
                    key = "load:union-cases-share-one-shot-iterator"
                ctx.violation(key, f"{node.src} <- {label} [{'strict' if sc else 'lax'}]: " + "; ".join(f"{dt.name}={o!r}" for dt, o in outs.items()),
                              {"type": node.src, "datum": repr(fac())[:300], "outcomes": {dt.name: repr(o) for dt, o in outs.items()}, "localised": lnode.src})
    # dumping: valid values and a few ill-typed objects
    objs = [(f"value#{i}", (lambda x=x: x), False) for i, x in enumerate(values)]
    objs += [(lbl, fac, lbl in ONE_SHOT) for lbl, fac in hostile.POOL[:0]]
    for label, fac, one_shot in objs:
        r = compare(ctx, node, label, fac, one_shot, True, prog.dumpers, "dump")
        if r is not None:
            mis, outs = r
            ctx.violation(f"dump:{mis}:{node.kind}", f"dump {node.src} <- {label}: " + "; ".join(f"{dt.name}={o!r}" for dt, o in outs.items()),
                          {"type": node.src, "outcomes": {dt.name: repr(o) for dt, o in outs.items()}})


def ill_typed_dump(ctx, rng, node, prog):
    """Dumping ill-typed objects: the three modes must still agree on success (errors are not LoadErrors here)."""
    for label, fac in rng.sample(hostile.POOL, 10):
        if label in ONE_SHOT:
            continue
        r = compare(ctx, node, "ill:" + label, fac, False, True, prog.dumpers, "dump")
        if r is not None:
            mis, outs = r
            ctx.violation(f"dump-ill:{mis}:{node.kind}", f"dump {node.src} <- ill-typed {label}: " + "; ".join(f"{dt.name}={o!r}" for dt, o in outs.items()),
                          {"type": node.src, "outcomes": {dt.name: repr(o) for dt, o in outs.items()}})


def run_case(ctx, rng, idx):
    node = gen_node(rng, ctx.tier, with_models=True)
    prog = Program(node)
    values, bag = data_bag(rng, node, n_valid=3, n_mut=12, n_pool=25)
    ctx.count("programs")
    if idx < 3:
        ctx.sample({"type": node.src, "data": [lbl for lbl, _, _ in bag][:10]})
    check(ctx, node, prog, values, bag)
    ill_typed_dump(ctx, rng, node, prog)
    broken_value_dump(ctx, rng, node, prog, values)
    optional_field_dumper_raises(ctx, rng)
    for _ in range(3):
        run_user_code_case(ctx, rng)


# ---- dumping broken values: valid values with one position deleted or replaced ---------------------------------------------------
_DEL = object()


def _children(x):
    from ..eq import model_fields  # noqa: PLC0415

    if isinstance(x, dict):
        return [("k", k, v) for k, v in x.items()]
    if isinstance(x, (list, tuple)):
        return [("i", i, v) for i, v in enumerate(x)]
    f = model_fields(x)
    if f is not None:
        return [("a", k, v) for k, v in f.items()]
    return []


def _set_child(x, kind, key, value):
    import copy  # noqa: PLC0415

    if kind == "k":
        y = copy.copy(x)
        if value is _DEL:
            del y[key]
        else:
            y[key] = value
        return y
    if kind == "i":
        items = list(x)
        if value is _DEL:
            # fixed tuples: drop the LAST item, so that no value moves under another position's type (an IPv6Network shifted under an
            # Iterable[...] position iterates 2**96 addresses - the run hung there)
            del items[key if isinstance(x, list) else -1]
        else:
            items[key] = value
        if isinstance(x, list):
            return type(x)(items)
        return type(x)(*items) if hasattr(type(x), "_fields") else tuple(items)
    y = copy.copy(x)
    if value is _DEL:
        object.__delattr__(y, key)
    else:
        object.__setattr__(y, key, value)
    return y


def _mutate(rng, x, depth=0):
    """One position of x deleted or replaced by an ill-typed value (functional: x itself is not touched). LookupError if x has no positions."""
    ch = _children(x)
    if not ch:
        raise LookupError
    kind, key, v = rng.choice(ch)
    if depth < 4 and _children(v) and rng.random() < 0.6:
        return _set_child(x, kind, key, _mutate(rng, v, depth + 1))
    repl = rng.choice([_DEL, _DEL, None, "a", 1, 1.5, True, [], {}, (), object(), b"x", [None], {"a": 1}])
    return _set_child(x, kind, key, repl)


def broken_value_dump(ctx, rng, node, prog, values):
    """The three dumper programs agree on whether a *broken* value (missing key / attribute, ill-typed field deep inside) can be dumped
    and on the result (seeded change: DISABLE swallowing a KeyError raised inside an optional field's dumper)."""
    for i, x in enumerate(values):
        for j in range(6):
            try:
                y = _mutate(rng, x)
            except LookupError:
                break
            except Exception:  # noqa: BLE001
                ctx.count("broken_value_not_buildable")
                continue
            r = compare(ctx, node, f"broken#{i}.{j}", (lambda y=y: y), False, True, prog.dumpers, "dump")
            ctx.count("broken_value_dumps")
            if r is not None:
                mis, outs = r
                ctx.violation(f"dump-broken:{mis}:{node.kind}", f"dump {node.src} <- broken value {y!r:.200}: " + "; ".join(f"{dt.name}={o!r:.160}" for dt, o in outs.items()),
                              {"type": node.src, "value": repr(y)[:400], "outcomes": {dt.name: repr(o)[:300] for dt, o in outs.items()}})


def optional_field_dumper_raises(ctx, rng):
    """An optional (NotRequired) TypedDict key that is PRESENT and whose own dumper raises - in particular the very exception class the
    accessor uses for 'key absent' (KeyError): nested TypedDict lacking a required key, user dumper doing a dict lookup."""
    import typing as t  # noqa: PLC0415

    from adaptix import Retort, dumper  # noqa: PLC0415

    exc_cls = rng.choice([KeyError, KeyError, LookupError, ValueError, AttributeError, IndexError, TypeError])
    codes = {1: "one"}

    def int_dumper(v):
        if v == 13:
            raise exc_cls(v)
        return codes.get(v, v)
    Inner = t.TypedDict("Inner", {"x": int, "y": t.NotRequired[int]})
    shapes = {
        "inner": (t.NotRequired[Inner], {"x": 1}, [{}, {"y": 2}, {"x": 13}]),
        "items": (t.NotRequired[t.List[Inner]], [{"x": 1}], [[{}], [{"x": 1}, {"y": 1}], [{"x": 13}]]),
        "by_key": (t.NotRequired[t.Dict[str, Inner]], {"k": {"x": 1}}, [{"k": {}}, {"k": {"x": 13}}]),
        "maybe": (t.NotRequired[t.Optional[Inner]], None, [{}, {"y": 1}]),
        "num": (t.NotRequired[int], 2, [13]),
        "pair": (t.NotRequired[t.Tuple[Inner, int]], ({"x": 1}, 2), [({}, 2), ({"x": 13}, 2)]),
    }
    names = rng.sample(sorted(shapes), rng.randint(1, 3))
    Outer = t.TypedDict("Outer", {"name": str, **{n: shapes[n][0] for n in names}})
    hint = rng.choice([Outer, t.List[Outer], t.Dict[str, Outer], t.Optional[Outer]])
    fns = {dt: Retort(debug_trail=dt, recipe=[dumper(int, int_dumper)]).get_dumper(hint) for dt in DEBUG_MODES}
    ctx.count("optional_dumper_programs")
    for n in names:
        for bad in shapes[n][2]:
            value = {"name": "n", **{m: shapes[m][1] for m in names}, n: bad}
            wrapped = value if hint is Outer or t.get_origin(hint) is t.Union else ([value] if t.get_origin(hint) is list else {"k": value})
            outs = {dt: attempt(fns[dt], wrapped) for dt in DEBUG_MODES}
            ctx.evaluated(("optional-dumper", repr(hint)[:80], tuple(names), n, repr(bad), exc_cls.__name__), nontrivial=True)
            ctx.count("triples")
            ctx.count("optional_dumper_triples")
            ok = {dt: o.kind == "ok" for dt, o in outs.items()}
            info = {"type": repr(hint)[:200], "value": repr(wrapped)[:300], "outcomes": {dt.name: repr(o)[:300] for dt, o in outs.items()}}
            if len(set(ok.values())) > 1:
                ctx.violation("dump-broken:success-disagreement:optional-field-dumper-raises", f"dump {wrapped!r:.200} (field {n}, user dumper raises {exc_cls.__name__} for 13): "
                              + "; ".join(f"{dt.name}={o!r:.120}" for dt, o in outs.items()), info)
            elif all(ok.values()) and not all(strict_eq(outs[dt].value, outs[DebugTrail.ALL].value) for dt in DEBUG_MODES):
                ctx.violation("dump-broken:result-mismatch:optional-field-dumper-raises", f"dump {wrapped!r:.200}: " + "; ".join(f"{dt.name}={o!r:.120}" for dt, o in outs.items()), info)
            if not all(ok.values()):
                ctx.count("failing_triples")


# ---- user code that raises (recipes with loaders / validators, constructors that refuse) ------------------------------------------
class _Boom(Exception):
    pass


@__import__("dataclasses").dataclass(frozen=True)
class _FrozenBoom(Exception):
    """An exception that refuses new attributes (the trail cannot be attached to it): defect #60."""
    value: str = "frozen"


class _SlotLoadError(__import__("adaptix").load_error.LoadError):
    """A LoadError of the user's own that refuses new attributes."""
    def __setattr__(self, k, v):
        raise AttributeError("immutable")


def _user_programs(rng):
    """(hint, recipe, good datum, poisoned data) where user-supplied code raises a NON-LoadError (or a LoadError of its own) for
    particular values: constructors (__post_init__), loader(...) functions, validators. The poisoned value sits where another union
    case / container sibling could still accept the datum, so that a mode that loses the 'unexpected' mark changes acceptance."""
    import typing as t  # noqa: PLC0415
    from dataclasses import dataclass, make_dataclass  # noqa: PLC0415

    from adaptix import P, loader, validator  # noqa: PLC0415
    from adaptix.load_error import ValueLoadError  # noqa: PLC0415

    exc_cls = rng.choice([ValueError, TypeError, KeyError, _Boom, ZeroDivisionError, AttributeError, LookupError, _FrozenBoom, _SlotLoadError, StopIteration])

    def post_init(self):
        if self.lo > self.hi:
            raise exc_cls("lo must not exceed hi")
    Range = make_dataclass("Range", [("lo", int), ("hi", int)], namespace={"__post_init__": post_init})
    Job = make_dataclass("Job", [("span", Range), ("tag", str, "t")])
    Leaf = make_dataclass("Leaf", [("n", int), ("s", str, "")])
    Outer = make_dataclass("Outer", [("leaf", Leaf), ("leaves", t.List[Leaf], ())])

    def int_loader(v):
        if v == "boom":
            raise exc_cls("user loader refuses")
        if v == "mild":
            raise ValueLoadError("user load error", v)
        if type(v) not in (int, str):
            raise ValueLoadError("user load error: not a number", v)     # a LoadError, not a stray TypeError from int([])
        return int(v)
    how = rng.choice(["constructor", "loader", "validator-raising", "loader-in-list"])
    if how == "constructor":
        model, recipe, good, bad = Job, [], {"span": {"lo": 1, "hi": 2}}, {"span": {"lo": 5, "hi": 1}}
        alt = t.Dict[str, t.Dict[str, int]]
    elif how == "loader":
        model, recipe, good, bad = Leaf, [loader(int, int_loader)], {"n": 1}, {"n": "boom"}
        alt = rng.choice([t.Dict[str, str], t.Dict[str, t.Any]])     # Dict[str, Any] accepts whatever the model case refused
    elif how == "validator-raising":
        def check(x):
            if x == 13:
                raise exc_cls("validator itself crashed")
            return x >= 0
        model, recipe, good, bad = Leaf, [validator(P[Leaf].n, check, "must be non-negative")], {"n": 1}, {"n": 13}
        alt = t.Dict[str, int]
    else:
        model, recipe, good, bad = Outer, [loader(int, int_loader)], {"leaf": {"n": 1}, "leaves": [{"n": 2}]}, {"leaf": {"n": 1}, "leaves": [{"n": 2}, {"n": "boom"}]}
        alt = t.Dict[str, t.Any]
    wrappers = [
        ("union-first", lambda m: t.Union[m, alt], lambda d: d),
        ("union-last", lambda m: t.Union[t.List[int], m], lambda d: d),
        ("plain", lambda m: m, lambda d: d),
        ("list", lambda m: t.List[m], lambda d: [good, d]),
        ("dict-value", lambda m: t.Dict[str, m], lambda d: {"a": good, "b": d}),
        ("optional", lambda m: t.Optional[m], lambda d: d),
        ("tuple", lambda m: t.Tuple[m, int], lambda d: [d, 1]),
        ("union-of-containers", lambda m: t.Union[t.List[m], t.List[alt]], lambda d: [d]),
        ("model-field-union", None, None),
    ]
    name, mk, wrap = rng.choice(wrappers)
    if mk is None:
        Holder = make_dataclass("Holder", [("f", t.Union[model, alt]), ("g", int, 0)])
        hint, wrap = Holder, (lambda d: {"f": d})
    else:
        hint = mk(model)
    data = [("good", wrap(good)), ("poisoned", wrap(bad))]
    if how in ("loader", "loader-in-list"):
        data.append(("mild", wrap({"n": "mild"} if how == "loader" else {"leaf": {"n": "mild"}, "leaves": []})))
        data.append(("poisoned+type-error", wrap({"n": "boom", "s": 5} if how == "loader" else {"leaf": {"n": "boom", "s": 5}, "leaves": [{"n": []}]})))
    if how == "loader":
        # several failing fields of ONE model in both orders: an unexpected error followed by a LoadError and the reverse
        # (seeded change: the 'unexpected' mark was overwritten by the last failing field instead of latched)
        Three = make_dataclass("Three", [("n", int), ("s", t.List[str]), ("m", int, 0)])
        Three.__module__ = "a_vlib_c06"      # union cases are tried in normal-form order (by text): the model has to come before dict
        hint3 = t.Union[Three, t.Dict[str, t.Any]]
        for label, d in (("unexpected-then-loaderror", {"n": "boom", "s": 5, "m": 1}), ("loaderror-then-unexpected", {"n": 1, "s": 5, "m": "boom"}),
                         ("unexpected-loaderror-unexpected", {"n": "boom", "s": 5, "m": "boom"}), ("mild-then-unexpected", {"n": "mild", "s": [], "m": "boom"})):
            data.append((f"three:{label}", ("other-hint", hint3, d)))
        # the same two-errors-in-one-place shape inside containers: a dict ITEM whose key is refused (LoadError) and whose value loader
        # crashes - every mode loads the key first (defect #74: DISABLE evaluated the value first and so disagreed with FIRST) -, and a
        # list whose element 0 is refused and whose element 1 crashes
        import datetime  # noqa: PLC0415
        data.append(("container:dict-badkey-then-unexpected-value", ("other-hint", t.Union[t.Dict[datetime.date, int], t.Dict[str, str]], {"a": "boom"})))
        data.append(("container:dict-badkey-then-unexpected-value", ("other-hint", t.Dict[str, t.Union[t.Dict[datetime.date, int], t.Dict[str, str]]], {"k": {"a": "boom", "2020-01-01": "1"}})))
        data.append(("container:list-loaderror-then-unexpected", ("other-hint", t.Union[t.List[int], t.List[str]], ["mild", "boom"])))
    return f"{how}/{name}/{exc_cls.__name__}", hint, recipe, data, exc_cls


def _all_nodes(e):
    yield e
    for s in getattr(e, "exceptions", None) or ():
        yield from _all_nodes(s)


def run_user_code_case(ctx, rng):
    from adaptix import Retort  # noqa: PLC0415

    desc, hint, recipe, data, exc_cls = _user_programs(rng)
    for sc in (True, False):
        try:
            fns = {dt: Retort(debug_trail=dt, strict_coercion=sc, recipe=recipe).get_loader(hint) for dt in DEBUG_MODES}
        except Exception:  # noqa: BLE001
            ctx.count("user_code_creation_errors")
            return
        ctx.count("user_code_programs")
        for label, d in data:
            if isinstance(d, tuple) and len(d) == 3 and d[0] == "other-hint":
                try:
                    fns3 = {dt: Retort(debug_trail=dt, strict_coercion=sc, recipe=recipe).get_loader(d[1]) for dt in DEBUG_MODES}
                except Exception:  # noqa: BLE001
                    continue
                d = d[2]
                outs = {dt: attempt(fns3[dt], d) for dt in DEBUG_MODES}
            else:
                outs = {dt: attempt(fns[dt], d) for dt in DEBUG_MODES}
            ctx.evaluated(("user-code", desc, label, sc), nontrivial=True)
            ctx.count("triples")
            ctx.count("user_code_triples")
            kinds = {dt: o.kind == "ok" for dt, o in outs.items()}
            info = {"program": desc, "datum": repr(d)[:300], "outcomes": {dt.name: repr(o)[:300] for dt, o in outs.items()}}
            if len(set(kinds.values())) > 1:
                key = "load:success-disagreement:user-code-error"
                if exc_cls is StopIteration:
                    key = "load:user-code-StopIteration-meets-iteration-machinery"
                elif label in ("three:loaderror-then-unexpected", "three:mild-then-unexpected") and kinds[DebugTrail.DISABLE] and kinds[DebugTrail.FIRST] and not kinds[DebugTrail.ALL] \
                        and not issubclass(exc_cls, LoadError):
                    # known finding: DISABLE / FIRST stop at the LoadError of an earlier field (the union goes on to its next case), ALL also
                    # reaches the later field whose loader crashes, and refuses
                    key = "load:success-disagreement:loaderror-before-unexpected-error-in-one-model"
                elif label.startswith("container:") and kinds[DebugTrail.DISABLE] and kinds[DebugTrail.FIRST] and not kinds[DebugTrail.ALL] and not issubclass(exc_cls, LoadError):
                    # the same known mechanism with the two errors inside one container (one dict item / two list elements)
                    key = "load:success-disagreement:loaderror-before-unexpected-error-in-one-container"
                ctx.violation(key, f"{desc} <- {label} {d!r:.200} [{'strict' if sc else 'lax'}]: "
                              + "; ".join(f"{dt.name}={o!r:.120}" for dt, o in outs.items()), info)
                continue
            if all(kinds.values()):
                if not all(strict_eq(outs[dt].value, outs[DebugTrail.ALL].value) for dt in DEBUG_MODES):
                    ctx.violation("load:result-mismatch:user-code", f"{desc} <- {label}: " + "; ".join(f"{dt.name}={o!r:.120}" for dt, o in outs.items()), info)
                continue
            ctx.count("failing_triples")
            # the single error of DISABLE / FIRST has a counterpart of the same class somewhere in what ALL raised
            all_classes = {type(n) for n in _all_nodes(outs[DebugTrail.ALL].exc)}
            for dt in (DebugTrail.DISABLE, DebugTrail.FIRST):
                single = outs[dt].exc
                leaves = [n for n in _all_nodes(single) if not getattr(n, "exceptions", None)]
                if not any(type(n) in all_classes or (type(n).__name__ == "LoadError" and any(c.__name__ == "UnionLoadError" for c in all_classes)) for n in leaves):
                    ctx.violation("load:user-code-StopIteration-meets-iteration-machinery" if exc_cls is StopIteration else f"load:error-without-counterpart-{dt.name}:user-code", f"{desc} <- {label}: {dt.name} raised {single!r:.150}, ALL raised {outs[DebugTrail.ALL].exc!r:.200}", info)
            # whether user code crashed (a non-LoadError is involved) is the same in every mode
            crashed = {dt: outs[dt].kind in ("exc", "impure") for dt in DEBUG_MODES}
            if len(set(crashed.values())) > 1 and exc_cls is not StopIteration and not issubclass(exc_cls, LoadError):
                ctx.violation("load:unexpected-error-reported-as-load-error", f"{desc} <- {label}: " + "; ".join(f"{dt.name}={o!r:.120}" for dt, o in outs.items()), info)


def _one(node, label):
    def run(ctx):
        check(ctx, node, Program(node), [], [(label, hostile.POOL_BY_LABEL[label], label in ONE_SHOT)])
    return run


def _dict_items_with_a_bad_key(ctx):
    """Mappings whose FIRST / only / every item has a key the key loader refuses while the value is fine (and the reverse): the three modes
    agree on the outcome, plain and as a union case (seeded change: ALL stored a value under a key that had failed to load -
    UnboundLocalError for the first item; caught by a random case at three of four seeds only)."""
    K = spec.SCALAR_BY_KIND
    nodes = [spec.DictT("Dict", spec.IntT(), spec.StrT()), spec.DictT("Mapping", K["date"], spec.IntT()), spec.DictT("DefaultDict", spec.IntT(), spec.IntT()),
             spec.UnionT([spec.DictT("Dict", spec.IntT(), spec.StrT()), spec.DictT("Dict", spec.StrT(), spec.StrT())]), spec.IterT("List", spec.DictT("Dict", spec.IntT(), spec.StrT()))]
    data = [("bad-key-first", {"x": "a", 1: "b"}), ("bad-key-only", {"x": "a"}), ("bad-key-last", {1: "b", "x": "a"}), ("bad-value-first", {1: 5, 2: "b"}), ("bad-key-and-value", {"x": 5}),
            ("two-bad-keys", {"x": "a", "y": "b"}), ("good", {1: "a"})]
    for n in nodes:
        bag = [(lbl, (lambda d=d, n=n: [dict(d)] if n.kind == "List" else dict(d)), False) for lbl, d in data]
        check(ctx, n, Program(n), [], bag)


def _union_over_one_shot_iterator(ctx):
    """The known finding: Union[List[int], List[str]] <- iter(['a', 'b']) gives ['b'] under DISABLE / FIRST and [] under ALL."""
    for n in (spec.UnionT([spec.IterT("List", spec.IntT()), spec.IterT("List", spec.StrT())]),
              spec.UnionT([spec.IterT("Set", spec.IntT()), spec.IterT("VarTuple", spec.StrT())])):
        check(ctx, n, Program(n), [], [("iter(['a','b'])", (lambda: iter(["a", "b"])), True), ("iter(['a'])", (lambda: iter(["a"])), True),
                                       ("iter([1,'b'])", (lambda: iter([1, "b"])), True)])


DIRECTED = {
    "dict-items-with-a-bad-key": _dict_items_with_a_bad_key,
    "union-over-one-shot-iterator": _union_over_one_shot_iterator,
    "tuple-from-iterator": _one(spec.TupleT([spec.IntT(), spec.IntT()]), "iter([1,2])"),
}
