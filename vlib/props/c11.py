"""C11 - results never depend on call history; retorts are immutable.

Monitor: a warmed retort (after a generated history of facade calls over mutually confusable requests)
is compared, probe by probe, with a freshly constructed equal retort (normalize_type's LRU cleared);
replace()/extend() must leave the original and loaders obtained from it unchanged. The call-cache monitor
supplies hit counts (non-triviality) and names confusable-key hits."""
from __future__ import annotations

import collections.abc as cabc
import typing
from dataclasses import dataclass, field
from enum import IntEnum
from typing import Annotated, Any, Callable, Dict, Iterable, List, Literal, NewType, Optional, Sequence, Tuple, Union

from adaptix import DebugTrail, Retort, loader, name_mapping
import importlib

nt_module = importlib.import_module("adaptix._internal.type_tools.normalize_type")
from adaptix.conversion import ConversionRetort, coercer

from ..adx import attempt, error_sig
from ..eq import strict_eq
from ..monitors import cache as CM


class IE(IntEnum):
    ZERO = 0
    ONE = 1


@dataclass
class M1:
    a: int
    b: str = "x"


@dataclass
class M2:
    a: int
    b: str = "x"


@dataclass
class MBool:
    a: bool
    b: str = "x"


@dataclass
class Lit01:
    v: Literal[0, 1]


@dataclass
class LitFT:
    v: Literal[False, True]


@dataclass
class Rec:
    v: int
    kids: List["Rec"] = field(default_factory=list)
    nxt: Optional["Rec"] = None


@dataclass
class RA:
    v: int
    b: Optional["RB"] = None


@dataclass
class RB:
    w: str
    a: Optional[RA] = None


@dataclass
class Holder:
    r: Rec
    lits: List[Literal[0, 1]]


T = typing.TypeVar("T")


@dataclass
class G(typing.Generic[T]):
    x: T
    xs: List[T] = field(default_factory=list)


NT1 = NewType("NT1", M1)
NTInt = NewType("NTInt", int)

REC_DATA = [{"v": 1, "kids": [{"v": 2, "kids": [{"v": 3}], "nxt": {"v": 4}}], "nxt": {"v": 5, "kids": [{"v": 6}]}}, {"v": "bad"}, {"v": 1, "kids": [{"v": 2, "kids": [{"v": "bad"}]}]}]
SCALARS = [0, 1, False, True, 2, "0", 1.0, None, [0], "a"]
M_DATA = [{"a": 1}, {"a": True}, {"a": 1, "b": "y"}, {"a": "1"}, {}, {"a": 0, "b": 5}]

# (label, side, type, probe data). side: 'load' | 'dump'
POOL = [
    ("Literal[0,1]", "load", Literal[0, 1], SCALARS),
    ("Literal[False,True]", "load", Literal[False, True], SCALARS),
    ("Literal[1,0]", "load", Literal[1, 0], SCALARS),
    ("Literal[True,False]", "load", Literal[True, False], SCALARS),
    ("Literal[0,1,2,3,4]", "load", Literal[0, 1, 2, 3, 4], SCALARS),
    ("Literal[False,True,2,3,4]", "load", Literal[False, True, 2, 3, 4], SCALARS),
    ("Literal[IE.ZERO,IE.ONE]", "load", Literal[IE.ZERO, IE.ONE], SCALARS),
    ("Literal[0,True]", "load", Literal[0, True], SCALARS), ("Literal[False,1]", "load", Literal[False, 1], SCALARS), ("Literal[True,0]", "load", Literal[True, 0], SCALARS),
    ("Literal['x',0,True]", "load", Literal["x", 0, True], [*SCALARS, "x"]), ("Literal['x',False,True]", "load", Literal["x", False, True], [*SCALARS, "x"]),
    ("Literal['x',0,1]", "load", Literal["x", 0, 1], [*SCALARS, "x"]), ("Literal[0]", "load", Literal[0], SCALARS), ("Literal[False]", "load", Literal[False], SCALARS),
    ("Literal[1]", "load", Literal[1], SCALARS), ("Literal[True]", "load", Literal[True], SCALARS), ("Tuple[Lit[0,True],Lit[False,True]]", "load", Tuple[Literal[0, True], Literal[False, True]],
                                                                                                 [[0, False], [False, False], [0, 0], [True, True], [True, 1]]),
    ("dump:Literal[0,True]", "dump", Literal[0, True], [0, True]), ("dump:Literal[False,True]", "dump", Literal[False, True], [False, True]),
    ("Optional[Literal[0,1]]", "load", Optional[Literal[0, 1]], SCALARS),
    ("Optional[Literal[False,True]]", "load", Optional[Literal[False, True]], SCALARS),
    ("List[Literal[0,1]]", "load", List[Literal[0, 1]], [[0, 1], [False], [True, 0], [2]]),
    ("List[Literal[False,True]]", "load", List[Literal[False, True]], [[0, 1], [False], [True, 0], [2]]),
    ("Lit01", "load", Lit01, [{"v": 0}, {"v": True}, {"v": 1}, {"v": False}]),
    ("LitFT", "load", LitFT, [{"v": 0}, {"v": True}, {"v": 1}, {"v": False}]),
    ("Union[Literal[0],Literal[False]]", "load", Union[Literal[0], str], SCALARS),
    # requests that differ only in values whose HASHES collide (hash(-1) == hash(-2), hash(2**61 - 1) == hash(0) on 64-bit CPython):
    # whatever memoises by request must compare the requests, not their hashes (seeded change: call cache keyed by hash(key))
    ("Literal[-1]", "load", Literal[-1], [-1, -2, 0, 2 ** 61 - 1]), ("Literal[-2]", "load", Literal[-2], [-1, -2, 0, 2 ** 61 - 1]),
    ("Literal[2**61-1]", "load", Literal[2305843009213693951], [-1, -2, 0, 2 ** 61 - 1]),
    ("List[Literal[-1]]", "load", List[Literal[-1]], [[-1], [-2]]), ("List[Literal[-2]]", "load", List[Literal[-2]], [[-1], [-2]]),
    ("dump:Union[Literal[-1],str]", "dump", Union[Literal[-1], str], [-1, "a"]), ("dump:Union[Literal[-2],str]", "dump", Union[Literal[-2], str], [-2, "a"]),
    ("List[int]", "load", List[int], [[1], [True], ["1"], (1,), "ab", {1: 2}]),
    ("list[int]", "load", list[int], [[1], [True], ["1"], (1,), "ab", {1: 2}]),
    ("Sequence[int]", "load", Sequence[int], [[1], [True], ["1"], (1,), "ab", {1: 2}]),
    ("Iterable[int]", "load", Iterable[int], [[1], [True], ["1"], (1,), "ab", {1: 2}]),
    ("List[bool]", "load", List[bool], [[1], [True], ["1"], (1,), "ab"]),
    ("Tuple[int,...]", "load", Tuple[int, ...], [[1], [True], (1,)]),
    ("Union[int,str]", "load", Union[int, str], SCALARS),
    ("Union[str,int]", "load", Union[str, int], SCALARS),
    ("Union[int,Union[str,None]]", "load", Union[int, Union[str, None]], SCALARS),
    ("Union[bool,int]", "load", Union[bool, int], SCALARS),
    ("Optional[int]", "load", Optional[int], SCALARS),
    ("int|None", "load", int | None, SCALARS),
    ("Dict[str,int]", "load", Dict[str, int], [{"a": 1}, {"a": True}, {1: 1}, []]),
    ("Dict[str,bool]", "load", Dict[str, bool], [{"a": 1}, {"a": True}, {1: 1}, []]),
    ("M1", "load", M1, M_DATA), ("M2", "load", M2, M_DATA), ("MBool", "load", MBool, M_DATA),
    ("NT1", "load", NT1, M_DATA), ("Annotated[M1]", "load", Annotated[M1, "meta"], M_DATA), ("Annotated[M2]", "load", Annotated[M2, "x"], M_DATA),
    ("NTInt", "load", NTInt, SCALARS), ("Annotated[int]", "load", Annotated[int, 1], SCALARS), ("int", "load", int, SCALARS), ("bool", "load", bool, SCALARS),
    ("G[int]", "load", G[int], [{"x": 1, "xs": [2]}, {"x": "a", "xs": []}, {"x": True}]),
    ("G[str]", "load", G[str], [{"x": 1, "xs": [2]}, {"x": "a", "xs": ["b"]}, {"x": True}]),
    ("G[bool]", "load", G[bool], [{"x": 1, "xs": [2]}, {"x": "a", "xs": []}, {"x": True, "xs": [False]}]),
    ("Rec", "load", Rec, REC_DATA), ("List[Rec]", "load", List[Rec], [REC_DATA[:1], [REC_DATA[1]]]), ("Optional[Rec]", "load", Optional[Rec], [*REC_DATA, None]),
    ("Holder", "load", Holder, [{"r": REC_DATA[0], "lits": [0, 1]}, {"r": REC_DATA[0], "lits": [True]}]),
    ("RA", "load", RA, [{"v": 1, "b": {"w": "x", "a": {"v": 2, "b": {"w": "y"}}}}, {"v": 1, "b": {"w": 5}}]),
    ("RB", "load", RB, [{"w": "x", "a": {"v": 2, "b": {"w": "y", "a": {"v": 3}}}}, {"w": "x", "a": {"v": "bad"}}]),
    ("Callable(unsupported)", "load", Callable[[int], int], [1]),
    ("Dict[str,Callable](unsupported)", "load", Dict[str, Callable[[int], int]], [{}]),
    # dumpers
    ("dump:Literal[0,1]", "dump", Literal[0, 1], [0, 1]),
    ("dump:Literal[IE]", "dump", Literal[IE.ZERO, IE.ONE], [IE.ZERO, IE.ONE]),
    ("dump:Literal[IE,1]", "dump", Literal[IE.ZERO, 1], [IE.ZERO, 1]),
    ("dump:List[int]", "dump", List[int], [[1, 2], (1,)]), ("dump:Sequence[int]", "dump", Sequence[int], [[1, 2], (1,)]), ("dump:list[int]", "dump", list[int], [[1, 2]]),
    ("dump:M1", "dump", M1, [M1(1), M1(2, "y")]), ("dump:M2", "dump", M2, [M2(1), M2(2, "y")]), ("dump:NT1", "dump", NT1, [M1(1)]),
    ("dump:Rec", "dump", Rec, [Rec(1, [Rec(2, [Rec(3)])], Rec(4))]), ("dump:List[Rec]", "dump", List[Rec], [[Rec(1, [Rec(2)])]]), ("dump:RA", "dump", RA, [RA(1, RB("x", RA(2)))]),
    ("dump:Union[int,str]", "dump", Union[int, str], [1, "a", True]), ("dump:Optional[M1]", "dump", Optional[M1], [None, M1(1)]),
    ("dump:G[int]", "dump", G[int], [G(1, [2])]), ("dump:G[str]", "dump", G[str], [G("a", ["b"])]),
    ("dump:Dict[str,M1]", "dump", Dict[str, M1], [{"k": M1(1)}]),
]


def outcome(o):
    if o.kind == "ok":
        return ("ok", o.value)
    return ("err", type(o.exc).__name__, error_sig(o.exc) if hasattr(o.exc, "__traceback__") else None)


def same(a, b):
    if a[0] != b[0]:
        return False
    if a[0] == "ok":
        return strict_eq(a[1], b[1])
    return a[1:] == b[1:]


def use(retort, item):
    """One facade use of a pool item: obtain the loader/dumper and run it on every probe datum."""
    _, side, tp, data = item
    outs = []
    if side == "load":
        for d in data:
            outs.append(outcome(attempt(retort.load, d, tp)))
    else:
        for d in data:
            outs.append(outcome(attempt(retort.dump, d, tp)))
    return outs


CONFIGS = [
    dict(), dict(strict_coercion=False), dict(debug_trail=DebugTrail.DISABLE), dict(debug_trail=DebugTrail.FIRST, strict_coercion=False),
]


def make(cfg, extra_recipe=()):
    return Retort(recipe=list(extra_recipe), **cfg)


def clear_global_caches():
    nt_module._cached_normalize.cache_clear()  # noqa: SLF001


def check_history(ctx, history, probe, cfg, label):
    clear_global_caches()
    warmed = make(cfg)
    before = CM.snapshot()
    for it in history:
        use(warmed, it)
    hits = CM.snapshot()["hits"] - before["hits"]
    conf_before = CM.STATS["confusable_hits"]
    got = use(warmed, probe)
    conf = CM.STATS["confusable_hits"] - conf_before
    clear_global_caches()
    fresh = make(cfg)
    want = use(fresh, probe)
    ctx.evaluated((label, tuple(h[0] for h in history), probe[0], repr(cfg)), nontrivial=hits > 0 or len(history) > 0)
    ctx.count("histories")
    ctx.count("history_cache_hits", hits)
    if conf:
        ctx.count("confusable_key_hits", conf)
    for i, (g, w) in enumerate(zip(got, want)):
        if not same(g, w):
            mech = "confusable-call-cache-key" if conf else "history-dependent-result"
            culprit = history
            if len(history) > 1:   # minimise: a single earlier request that alone changes the probe names the mechanism
                for h in history:
                    clear_global_caches()
                    w1 = make(cfg)
                    use(w1, h)
                    if not all(same(x, y) for x, y in zip(use(w1, probe), want)):
                        culprit = [h]
                        break
            ctx.violation(f"{mech}:{_family(culprit, probe)}",
                          f"after {[h[0] for h in history]} the probe {probe[0]} <- {probe[3][i]!r} gives {g!r:.200}; fresh retort gives {w!r:.200} [{cfg}]",
                          {"history": [h[0] for h in history], "probe": probe[0], "datum": repr(probe[3][i]), "warmed": repr(g)[:400], "fresh": repr(w)[:400], "cfg": repr(cfg),
                           "confusable_hits": CM.CONFUSABLE[-3:]})
            break


def _family(history, probe):
    def fam(label):
        for k in ("Literal", "Rec", "RA", "RB", "G[", "List", "Sequence", "Iterable", "Union", "M1", "M2", "NT", "Annotated", "Dict"):
            if k in label:
                return k.rstrip("[")
        return "other"
    return f"{fam(history[-1][0]) if history else '-'}->{fam(probe[0])}"


def setup(ctx):
    CM.install()


def run_exhaustive(ctx):
    """Every ordered pair 'A then probe B' of the pool (sharded), in the default configuration; every 4th pair in all configurations."""
    i = 0
    for a in POOL:
        for b in POOL:
            i += 1
            if i % ctx.nshards != ctx.shard:
                continue
            cfgs = CONFIGS if (i // ctx.nshards) % 4 == 0 or ctx.tier == "thorough" else CONFIGS[:1]
            for cfg in cfgs:
                check_history(ctx, [a], b, cfg, "pair")
            ctx.count("ordered_pairs")


def run_case(ctx, rng, idx):
    n = rng.randint(2, 12)
    history = [rng.choice(POOL) for _ in range(n)]
    probe = rng.choice(POOL)
    cfg = rng.choice(CONFIGS)
    if idx < 2:
        ctx.sample({"history": [h[0] for h in history], "probe": probe[0], "cfg": repr(cfg)})
    check_history(ctx, history, probe, cfg, "random")
    check_immutability(ctx, rng)
    for _ in range(3):
        check_conversion_history(ctx, rng)
    if ctx.tier == "thorough" and idx % 10 == 0:
        check_lru_eviction(ctx, rng)


def check_immutability(ctx, rng):
    check_union_dump_history(ctx, rng)
    """replace() / extend() return new retorts; the original and loaders already obtained keep their behaviour."""
    cfg = rng.choice(CONFIGS)
    item = rng.choice([p for p in POOL if p[1] == "load"])
    base = make(cfg)
    ld = attempt(base.get_loader, item[2])
    before = use(base, item)
    marker = loader(int, lambda x: ("M", x))
    derived = [
        base.extend(recipe=[marker, loader(str, lambda x: ("S", x)), loader(M1, lambda x: "m1"), name_mapping(map={"a": "A!"})]),
        base.replace(strict_coercion=not cfg.get("strict_coercion", True)),
        base.replace(debug_trail=DebugTrail.DISABLE if cfg.get("debug_trail") is not DebugTrail.DISABLE else DebugTrail.ALL),
    ]
    # a clone is a retort of its own: warmed original or not, it answers like a FRESH retort with the same options and recipe
    # (seeded change: clones shared the call cache of the original, recursive closures came from the relative)
    ext = [marker, loader(str, lambda x: ("S", x)), loader(M1, lambda x: "m1"), name_mapping(map={"a": "A!"})]
    sc2 = not cfg.get("strict_coercion", True)
    dt2 = DebugTrail.DISABLE if cfg.get("debug_trail") is not DebugTrail.DISABLE else DebugTrail.ALL
    twins = [make(cfg, extra_recipe=ext), make({**cfg, "strict_coercion": sc2}), make({**cfg, "debug_trail": dt2})]
    for which, d, twin in zip(("extend", "replace-strict_coercion", "replace-debug_trail"), derived, twins):
        for probe in (item, rng.choice(POOL), rng.choice([p for p in POOL if "Rec" in p[0] or "Holder" in p[0]] or POOL)):
            got, want = use(d, probe), use(twin, probe)
            ctx.count("clone_vs_fresh_twin")
            if not all(same(x, y) for x, y in zip(got, want)):
                ctx.violation(f"clone-differs-from-fresh-twin:{which}", f"{probe[0]} [{cfg}]: base.{which}(...) after the base had served {item[0]} answers {got!r:.200}, "
                              f"a fresh retort with the same options and recipe {want!r:.200}", {"item": item[0], "probe": probe[0], "cfg": repr(cfg)})
                break
    after = use(base, item)
    fresh = use(make(cfg), item)
    ctx.evaluated(("immutability", item[0], repr(cfg)))
    ctx.count("immutability_checks")
    for name, a, b in (("original-after-derivation", after, before), ("original-vs-fresh", after, fresh)):
        if not all(same(x, y) for x, y in zip(a, b)):
            ctx.violation(f"retort-mutated-by-extend-or-replace:{name}", f"{item[0]} [{cfg}]: behaviour of the original retort changed after extend()/replace()", {"item": item[0], "cfg": repr(cfg)})
    if ld.kind == "ok":
        again = [outcome(attempt(ld.value, d)) for d in item[3]]
        if not all(same(x, y) for x, y in zip(again, before)):
            ctx.violation("obtained-loader-changed-after-derivation", f"{item[0]} [{cfg}]: a loader obtained before extend()/replace() now behaves differently", {"item": item[0], "cfg": repr(cfg)})
    # the derived retorts really differ (otherwise the check is vacuous)
    probe_int = attempt(derived[0].load, 1, int)
    if probe_int.kind != "ok" or probe_int.value != ("M", 1):
        ctx.violation("extend-did-not-prepend", f"extend(recipe=[loader(int, marker)]) is not served first: {probe_int!r}", {})


@dataclass
class S1:
    a: int
    b: int


@dataclass
class D1:
    a: int
    b: int


@dataclass
class D2:
    a: int
    b: str


@dataclass
class D3:
    a: int


CONV_POOL = [(S1, D1), (S1, D3), (D1, S1), (S1, D2), (M1, M2), (M2, M1), (M1, MBool), (Rec, Rec)]


def _neg(x):
    return -x


def _dbl(x):
    return x * 2


CONV_RECIPES = {
    "none": lambda: [],
    "negate": lambda: [coercer(int, int, _neg)],
    "double": lambda: [coercer(int, int, _dbl)],
    "int->str": lambda: [coercer(int, str, str)],
}


def check_conversion_history(ctx, rng):
    """Histories over (src, dst, per-call recipe, name): get_converter / convert on ONE ConversionRetort (or through the module-level
    functions, which share one global retort) vs. the same probe on a fresh retort."""
    import adaptix.conversion as conv_mod  # noqa: PLC0415

    def mk_obj(src):
        return src(1, 2) if src in (S1, D1) else src(1) if src in (M1, M2) else Rec(1, [Rec(2)])

    def run(api, pair, rname, fname):
        src, dst = pair
        recipe = CONV_RECIPES[rname]()
        if api[1] == "get_converter":
            c = attempt(api[0].get_converter, src, dst, recipe=recipe, name=fname)
            if c.kind != "ok":
                return ("err", type(c.exc).__name__)
            return outcome(attempt(c.value, mk_obj(src)))
        return outcome(attempt(api[0].convert, mk_obj(src), dst, recipe=recipe))

    base_recipe = [coercer(int, str, str)] if rng.random() < 0.3 else []
    use_module = rng.random() < 0.25
    warmed = conv_mod if use_module else ConversionRetort(recipe=base_recipe)
    steps = [(rng.choice(CONV_POOL), rng.choice(list(CONV_RECIPES)), rng.choice([None, None, "f"]), rng.choice(["get_converter", "convert"])) for _ in range(rng.randint(1, 6))]
    # make confusable steps likely: the probe repeats an earlier (src, dst) with another recipe
    pair, _, fname, how = rng.choice(steps)
    probe = (pair, rng.choice(list(CONV_RECIPES)), fname, rng.choice(["get_converter", "convert"]))
    for pr, rn, fn, how_ in steps:
        run((warmed, how_), pr, rn, fn)
    got = run((warmed, probe[3]), probe[0], probe[1], probe[2])
    fresh = ConversionRetort(recipe=[] if use_module else base_recipe)
    want = run((fresh, probe[3]), probe[0], probe[1], probe[2])
    ctx.evaluated(("conversion-history", repr(steps), repr(probe), use_module))
    ctx.count("conversion_histories")
    if use_module:
        ctx.count("conversion_histories_module_level")
    if not (got[0] == want[0] and (got[0] != "ok" or strict_eq(got[1], want[1])) and (got[0] == "ok" or got[1:] == want[1:])):
        ctx.violation("history-dependent-converter", f"after {[(p[0].__name__, p[1].__name__, r, n, h) for p, r, n, h in steps]} the probe {(probe[0][0].__name__, probe[0][1].__name__, *probe[1:])} "
                                                     f"gives {got!r:.200}, a fresh retort {want!r:.200}", {"steps": repr(steps), "probe": repr(probe), "module_level": use_module})


def check_lru_eviction(ctx, rng):
    """More than 128 distinct hints evict the normalisation cache between uses of the probe."""
    r = make({})
    probe = rng.choice(POOL)
    first = use(r, probe)
    for i in range(140):
        tp = Tuple[tuple([int] * (i % 7 + 1) + [str] * (i // 7 + 1))]
        attempt(r.get_loader, tp)
    again = use(r, probe)
    ctx.evaluated(("lru-eviction", probe[0]))
    ctx.count("lru_evictions")
    if not all(same(x, y) for x, y in zip(first, again)):
        ctx.violation("result-changes-after-lru-eviction", f"{probe[0]} behaves differently after 140 other hints were normalised", {"probe": probe[0]})


def _literal_witness(ctx):
    by = {p[0]: p for p in POOL}
    for cfg in CONFIGS:
        check_history(ctx, [by["Literal[False,True]"]], by["Literal[0,1]"], cfg, "directed")
        check_history(ctx, [by["Literal[0,1]"]], by["Literal[False,True]"], cfg, "directed")
        check_history(ctx, [by["LitFT"]], by["Lit01"], cfg, "directed")
        check_history(ctx, [by["List[Rec]"], by["Holder"]], by["Rec"], cfg, "directed")


def check_union_dump_history(ctx, rng):
    """A produced union dumper holds no run-time state: dumping object k through a retort that has dumped objects 0..k-1 gives what a
    fresh retort gives for object k alone (seeded change: the class dispatcher wrote parent hits back into its table)."""
    from adaptix import dumper  # noqa: PLC0415

    classes = []
    for i in range(rng.randint(4, 7)):
        for _ in range(4):
            bases = tuple(rng.sample(classes, min(len(classes), rng.choice([0, 1, 1, 2, 2]))))
            try:
                classes.append(type(f"H{i}", bases, {"__init__": lambda self: None, "__repr__": lambda self: type(self).__name__ + "()"}))
                break
            except TypeError:
                continue
    if len(classes) < 3:
        return
    listed = rng.sample(classes, rng.randint(2, min(4, len(classes))))
    hint = Union[tuple(listed)]

    def mk():
        return Retort(recipe=[dumper(c, (lambda x, n=c.__name__: n)) for c in listed])
    warm = mk()
    order = [c() for c in classes] * 2
    rng.shuffle(order)
    for pos, obj in enumerate(order):
        got, want = attempt(warm.dump, obj, hint), attempt(mk().dump, obj, hint)
        ctx.evaluated(("union-dump-history", tuple(c.__name__ for c in listed), tuple(type(o).__name__ for o in order[:pos + 1])), nontrivial=pos > 0)
        ctx.count("union_dump_histories")
        same = got.kind == want.kind and (got.kind != "ok" or got.value == want.value)
        if not same:
            ctx.violation("history-dependent-union-dumper", f"after dumping {[type(o).__name__ for o in order[:pos]]} the retort dumps {type(obj).__name__} through Union{[c.__name__ for c in listed]} "
                          f"as {got!r:.100}, a fresh retort as {want!r:.100}", {"classes": {c.__name__: [b.__name__ for b in c.__bases__] for c in classes}})
            break


def _failed_request_then_success(ctx):  # noqa: C901
    """A request that FAILS is part of the history too: afterwards every other request gives what a fresh retort gives
    (defect #56: the failed search left a closure with a never-bound recursion stub in the call cache)."""
    import sys  # noqa: PLC0415
    import types as _types  # noqa: PLC0415
    from dataclasses import dataclass  # noqa: PLC0415

    from adaptix import P, loader  # noqa: PLC0415

    mod0 = _types.ModuleType("vlib_c11_failed")
    sys.modules["vlib_c11_failed"] = mod0
    exec(compile("from dataclasses import dataclass\nfrom typing import Optional\n"  # noqa: S102
                 "class Weird:\n    __slots__ = ('v',)\n    def __init__(self, *args):\n        self.v = args\n"
                 "    def __eq__(self, other):\n        return type(other) is Weird and self.v == other.v\n    __hash__ = None\n"
                 "@dataclass\nclass M:\n    f: Optional['N'] = None\n@dataclass\nclass N:\n    m: M\n    w: Weird\n@dataclass\nclass C:\n    root: M\n",
                 "<vlib_c11_failed>", "exec", dont_inherit=True), mod0.__dict__)
    Weird, M, N, C = mod0.Weird, mod0.M, mod0.N, mod0.C

    def mk():
        return Retort(recipe=[loader(P[C].root.f[N].w, Weird)])     # Weird is loadable only below C.root.f: get_loader(M) must fail
    data = {"root": {"f": {"m": {"f": {"m": {}, "w": 2}}, "w": 1}}}
    for side in ("load", "dump"):
        fresh = attempt(mk().load, data, C)
        warm = mk()
        first = attempt(warm.get_loader if side == "load" else warm.get_dumper, M)
        out = attempt(warm.load, data, C)
        ctx.evaluated(("failed-then-success", "loc-dependent-provider", side))
        ctx.count("failed_request_histories")
        if side == "load" and first.kind == "ok":
            ctx.count("failed_request_witness_not_failing")
        if fresh.kind != "ok" or out.kind != "ok" or not strict_eq(fresh.value, out.value):
            ctx.violation("history-dependent:after-failed-request", f"after a failed get_{side}er(M) the retort loads C as {out!r:.200}, a fresh retort as {fresh!r:.200}", {"first": repr(first)[:200]})
    # forward reference that becomes resolvable after the first (failing) attempt
    mod = _types.ModuleType("vlib_c11_fwd")
    sys.modules["vlib_c11_fwd"] = mod
    exec(compile("from dataclasses import dataclass\n@dataclass\nclass Payload:\n    x: 'Later'\n@dataclass\nclass Node:\n    children: list['Node']\n    payload: Payload\n",  # noqa: S102
                 "<vlib_c11_fwd>", "exec", dont_inherit=True), mod.__dict__)
    for side in ("load", "dump"):
        mod.__dict__.pop("Later", None)
        warm = Retort()
        first = attempt(warm.get_loader if side == "load" else warm.get_dumper, typing.List[mod.Node])
        exec(compile("@dataclass\nclass Later:\n    z: int\n", "<vlib_c11_fwd2>", "exec", dont_inherit=True), mod.__dict__)  # noqa: S102
        datum = [{"children": [{"children": [], "payload": {"x": {"z": 1}}}], "payload": {"x": {"z": 2}}}]
        fresh, out = attempt(Retort().load, datum, typing.List[mod.Node]), attempt(warm.load, datum, typing.List[mod.Node])
        if side == "dump" and fresh.kind == "ok":
            fresh, out = attempt(Retort().dump, fresh.value, typing.List[mod.Node]), attempt(warm.dump, fresh.value, typing.List[mod.Node])
        ctx.evaluated(("failed-then-success", "forward-reference", side))
        ctx.count("failed_request_histories")
        if first.kind == "ok":
            ctx.count("failed_request_witness_not_failing")
        if fresh.kind != "ok" or out.kind != "ok" or not strict_eq(fresh.value, out.value):
            ctx.violation("history-dependent:after-failed-request", f"forward reference defined after a failed first {side}er request: same retort {out!r:.200}, fresh retort {fresh!r:.200}", {"first": repr(first)[:200]})


def _stub_of_earlier_request(ctx):
    """Known finding: recursion stubs are keyed by the LAST location only and field locations carry no owner, so X.m, Y.m and N.m are
    'the same position'; a closure cached for the request X is reused for Y, which a fresh retort serves differently."""
    from dataclasses import dataclass  # noqa: PLC0415

    from adaptix import Chain, P, loader  # noqa: PLC0415

    import sys  # noqa: PLC0415
    import types as _types  # noqa: PLC0415

    mod0 = _types.ModuleType("vlib_c11_stub")
    sys.modules["vlib_c11_stub"] = mod0
    exec(compile("from dataclasses import dataclass\nfrom typing import Optional\n@dataclass\nclass M:\n    f: Optional['N'] = None\n    tag: str = ''\n"  # noqa: S102
                 "@dataclass\nclass N:\n    m: M\n@dataclass\nclass X:\n    m: M\n@dataclass\nclass Y:\n    m: M\n", "<vlib_c11_stub>", "exec", dont_inherit=True), mod0.__dict__)
    X, Y = mod0.X, mod0.Y

    def mark(m):
        m.tag += "!"
        return m

    def mk():
        return Retort(recipe=[loader(P[Y].m, mark, Chain.LAST)])
    data = {"m": {"f": {"m": {"f": {"m": {}}}}}}
    fresh = attempt(mk().load, data, Y)
    warm = mk()
    warm.get_loader(X)
    out = attempt(warm.load, data, Y)
    ctx.evaluated(("stub-of-earlier-request",))
    ctx.count("stub_reuse_histories")
    if fresh.kind != "ok" or out.kind != "ok" or not strict_eq(fresh.value, out.value):
        ctx.violation("history-dependent:recursion-stub-of-earlier-request-reused", f"after get_loader(X) the retort loads Y as {out!r:.200}, a fresh retort as {fresh!r:.200}", {})


def _union_dump_history_fixed(ctx):
    """The fixed form of check_union_dump_history: Union[L1, Sub] with Sub(L1), Mid(L1) and Y(Mid, Sub). Y's mro is Y, Mid, Sub, L1: it is
    dumped by Sub's case, also after a Mid object (whose nearest listed ancestor is L1) went through the same dumper, in every order of
    the four classes (seeded change: the class dispatcher memoised Mid -> L1 in the table the mro walk reads; at seed 2 no random hierarchy
    had this shape)."""
    import itertools  # noqa: PLC0415

    from adaptix import dumper  # noqa: PLC0415

    def cls(name, *bases):
        return type(name, bases, {"__init__": lambda self: None, "__repr__": lambda self: type(self).__name__ + "()"})
    L1 = cls("L1")
    Sub, Mid = cls("Sub", L1), cls("Mid", L1)
    Y, Z = cls("Y", Mid, Sub), cls("Z", Sub, Mid)
    listed = [L1, Sub]
    hint = Union[tuple(listed)]

    def mk():
        return Retort(recipe=[dumper(c, (lambda x, n=c.__name__: n)) for c in listed])
    for order in itertools.permutations([Mid, Y, Z, Sub, L1], 3):
        warm = mk()
        for pos, c in enumerate(order):
            got, want = attempt(warm.dump, c(), hint), attempt(mk().dump, c(), hint)
            ctx.evaluated(("union-dump-history-fixed", tuple(k.__name__ for k in order[:pos + 1])), nontrivial=pos > 0)
            ctx.count("union_dump_histories")
            if got.kind != want.kind or (got.kind == "ok" and got.value != want.value):
                ctx.violation("history-dependent-union-dumper", f"after dumping {[k.__name__ for k in order[:pos]]} the retort dumps {c.__name__} through Union[L1, Sub] as {got!r:.100}, a fresh retort as {want!r:.100}",
                              {"order": [k.__name__ for k in order]})
                return


class _InjectedBase(BaseException):
    """A fault that is no Exception (KeyboardInterrupt / SystemExit / GeneratorExit class of events)."""


def _reraise(e):
    raise RuntimeError(f"died with {type(e).__name__}") from e


class _InjectedError(RuntimeError):
    """A fault that is an ordinary Exception (MemoryError / RecursionError / a bug in user code class of events)."""


def _faults_at_every_point_of_the_first_request(ctx):
    """Source-free failpoints: the FIRST request of a fresh retort (get_loader / get_dumper of a recursive model with a union and a nested
    model; get_converter of a nested pair) is run under a tracer that raises at the k-th executed line inside adaptix, for k sweeping over the
    whole request and for a fault that is an Exception and one that is only a BaseException. Whatever becomes of that request, the retort must
    afterwards behave like a fresh one (same results, same errors) - a died request leaves nothing behind. (Generalises the NameError witness of
    failed-request-then-success from one fault site to every line; seeded changes 'cleanup only after CannotProvide' were found five times.)"""
    import os  # noqa: PLC0415
    import sys  # noqa: PLC0415
    import types as _types  # noqa: PLC0415

    import adaptix  # noqa: PLC0415
    from adaptix.conversion import ConversionRetort  # noqa: PLC0415

    root = os.path.dirname(adaptix.__file__)
    mod = _types.ModuleType("vlib_c11_faults")
    sys.modules[mod.__name__] = mod
    exec(compile("from dataclasses import dataclass, field\nfrom typing import List, Optional, Union, Dict\n"  # noqa: S102
                 "@dataclass\nclass Leaf:\n    z: int\n"
                 "@dataclass\nclass Tree:\n    kids: List['Tree']\n    leaf: Optional[Leaf] = None\n    tag: Union[int, str, None] = None\n    named: Dict[str, 'Tree'] = field(default_factory=dict)\n"
                 "@dataclass\nclass LeafD:\n    z: int\n"
                 "@dataclass\nclass Src:\n    a: int\n    leaf: Leaf\n    leaves: List[Leaf]\n"
                 "@dataclass\nclass Dst:\n    a: int\n    leaf: LeafD\n    leaves: List[LeafD]\n", "<vlib_c11_faults>", "exec", dont_inherit=True), mod.__dict__)
    Tree, Leaf, Src, Dst, LeafD = mod.Tree, mod.Leaf, mod.Src, mod.Dst, mod.LeafD
    good = {"kids": [{"kids": [{"kids": [], "leaf": {"z": 1}, "tag": "t"}], "named": {"n": {"kids": []}}}], "tag": 5}
    bad = {"kids": [{"kids": [{"kids": 5}]}], "tag": []}

    def traced(fn, k, exc):
        n = [0]

        def tr(frame, ev, arg):
            if not frame.f_code.co_filename.startswith(root):
                return None

            def local(frame, ev, arg):
                if ev == "line":
                    n[0] += 1
                    if n[0] == k:
                        raise exc("injected fault")
                return local
            return local
        old = sys.gettrace()
        sys.settrace(tr)
        try:
            try:
                out = attempt(fn)
            except BaseException as e:  # noqa: BLE001 - the injected BaseException itself
                out = attempt(_reraise, e)
        finally:
            sys.settrace(old)
        return out, n[0]

    plans = [
        ("get_loader", Retort, lambda r: r.get_loader(Tree), [lambda r: r.load(good, Tree), lambda r: r.load(bad, Tree), lambda r: r.load({"z": 1}, Leaf)]),
        ("get_dumper", Retort, lambda r: r.get_dumper(Tree), [lambda r: r.dump(Tree([Tree([], Leaf(1), "t")], None, 5, {"n": Tree([])}), Tree), lambda r: r.load(good, Tree)]),
        ("load", Retort, lambda r: r.load(good, Tree), [lambda r: r.load(good, Tree), lambda r: r.dump(Tree([]), Tree)]),
        ("get_converter", ConversionRetort, lambda r: r.get_converter(Src, Dst), [lambda r: r.convert(Src(1, Leaf(2), [Leaf(3)]), Dst), lambda r: r.get_converter(Leaf, LeafD)(Leaf(7))]),
    ]
    points = 36 if ctx.tier == "quick" else 150
    for name, mk, first, probes in plans:
        _, total = traced(lambda: first(mk()), -1, _InjectedError)
        refs = [attempt(p, mk()) for p in probes]
        ctx.count("fault_request_line_events", total)
        step = max(1, total // points)
        for k in range(1, total + 1, step):
            for exc in (_InjectedError, _InjectedBase):
                r = mk()
                died, _ = traced(lambda: first(r), k, exc)
                ctx.evaluated(("fault-injection", name, k, exc.__name__), nontrivial=True)
                ctx.count("faults_injected")
                ctx.count("faulted_requests_that_died" if died.kind != "ok" else "faulted_requests_that_survived")
                for i, (p, ref) in enumerate(zip(probes, refs)):
                    out = attempt(p, r)
                    same = out.kind == ref.kind and (strict_eq(out.value, ref.value) if out.kind == "ok" else type(out.exc) is type(ref.exc) and error_sig(out.exc) == error_sig(ref.exc))
                    if not same:
                        ctx.violation("history-dependent:after-injected-fault", f"{name}: a fault ({exc.__name__}) at executed line #{k} of {total} of the first request ({died!r:.80}); afterwards probe #{i} gives "
                                      f"{out!r:.160}, a fresh retort gives {ref!r:.160}", {"request": name, "line_event": k, "fault": exc.__name__})
                        break


DIRECTED = {"faults-at-every-point-of-the-first-request": _faults_at_every_point_of_the_first_request, "union-dump-history-fixed-hierarchy": _union_dump_history_fixed, "literal-bool-int-cache-key": _literal_witness, "failed-request-then-success": _failed_request_then_success,
            "recursion-stub-of-earlier-request": _stub_of_earlier_request}


def teardown(ctx):
    ctx.count("cache_hits_total", CM.STATS["hits"])
    ctx.count("cache_misses_total", CM.STATS["misses"])
