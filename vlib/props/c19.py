"""C19 - generated code treats names and keys purely as data.

Monitors: (a) behaviour - models whose field ids / mapped keys / class and function names come from hostile
dictionaries must load, dump and convert exactly like the reference layout model says; (b) generated-source
monitor - the AST of every generated program must be isomorphic (modulo identifier renaming and constant
values) to the AST generated for the same shape with benign names, and tracked hostile keys may occur only
inside string constants and comments; (c) audit-hook canary - nothing is exec'd / compiled / imported /
opened while the generated functions run."""
from __future__ import annotations

import copy
import dataclasses
import itertools
import keyword
import typing
from dataclasses import field, make_dataclass

from adaptix import DebugTrail, ExtraForbid, P, Retort, name_mapping
from adaptix.conversion import ConversionRetort, get_converter, impl_converter, link, link_function

from ..adx import DEBUG_MODES, attempt, error_nodes
from ..eq import strict_eq
from ..monitors import audit as AU, codegen as CG

C = AU.CANARY_PATH
FIELD_IDS = [
    # every name bound inside the generated functions, and the generators' own prefixes
    "data", "errors", "e", "value", "key", "getter", "sentinel", "extra", "packed_fields", "constructor", "result", "opt_fields", "has_unexpected_error", "has_not_found_error",
    "known_keys", "required_keys", "model_identity", "ctx", "coercer", "loader", "dumper", "append_trail", "extend_trail", "render_trail_as_note", "LoadError", "TypeLoadError",
    "AggregateLoadError", "CompatExceptionGroup", "CollectionsMapping", "CollectionsSequence", "ExtraFieldsLoadError", "NoRequiredFieldsLoadError", "trail_element", "saturator",
    "f_a", "r_a", "loader_a", "dumper_a", "dfl_a", "g_a", "f_data", "r_data", "loader_data", "dumper_value", "g_sentinel", "g_constructor", "g_loader_a", "data_1", "data_2", "extra_2",
    "known_keys_2", "result_2", "has_not_found_error_2", "v_data", "field", "fields", "namespace", "closure", "_closure_maker", "self", "cls", "args", "kwargs", "src", "dst", "convert",
    # builtins
    "list", "dict", "type", "id", "set", "len", "print", "isinstance", "Exception", "KeyError", "TypeError", "AttributeError", "getattr", "tuple", "str", "int", "object", "iter", "next",
    "map", "filter", "input", "open", "exec", "eval", "vars", "locals", "globals", "hash", "repr", "range", "ExceptionGroup", "BaseException", "NotImplemented", "Ellipsis",
    # keyword + underscore, soft keywords, dunder-ish
    "from_", "class_", "import_", "def_", "lambda_", "None_", "True_", "if_", "match", "case", "type_", "_", "__", "___", "__class__x", "__init__x", "__dict__x", "_private", "__mangled",
    # non-ASCII, NFKC-unstable, long
    "é", "имя", "名前", "ﬁeld", "ℌello", "x²".replace("²", "_2"), "µ", "ª", "a" * 300, "A_b_C", "camelCase", "UPPER", "x1_2_3",
]
import unicodedata  # noqa: E402

# excluded: identifiers CPython's own dataclass code generator mishandles (NFKC-unstable spellings, the name `field`)
FIELD_IDS = [n for n in dict.fromkeys(FIELD_IDS) if n.isidentifier() and not keyword.iskeyword(n) and unicodedata.normalize("NFKC", n) == n and n != "field"]

KEYS = [
    "plain", "", " ", "a b", "a'b", 'a"b', "a\\b", "a\\", "\\'", "'", '"', "'''", '"""', "a{b}", "{}", "{0}", "{a}", "{{", "}}", "%s", "%(a)s", "%", "$expr", "${x}", "$", "a\nb", "a\rb", "a\fb",
    "a\tb", "\n", "#", "a#b", "a # comment", "a b", "a b", "a\x00b", "\ud800", "é", "日本", "a.b", "a-b", "a/b", "a:b", "a,b", "a;b", "a=b", "(a)", "[a]", "a]", "[", "]", "a)", "0", "-1",
    "None", "True", "__class__", "__import__", "data", "key", "errors", "extra", "sentinel",
    f"'];__import__('os').system('touch {C}');['", f"\"];open('{C}','w');[\"", f"\\'];open('{C}','w');#", f"{{open('{C}','w')}}", f"x' if open('{C}','w') else 'y",
    f"x\nopen('{C}', 'w')\n", f"x\n    open('{C}', 'w')\n    y = '", f"');import {AU.CANARY_MODULE};('", f"${{open('{C}','w')}}", f"%(open('{C}','w'))s", f"\\\n'];open('{C}','w');['",
    "TRACKED_KEY_MARKER_1", "TRACKED'KEY_MARKER_2", "TRACKED\"KEY_MARKER_3\\", "TRACKED\nKEY_MARKER_4",
]
TRACKED = [f"open('{C}'", "import " + AU.CANARY_MODULE, "__import__('os')", "KEY_MARKER_1", "KEY_MARKER_2", "KEY_MARKER_3", "KEY_MARKER_4"]
CLASS_NAMES = ["a²", "x①y", "__debug__", "µ", "ﬁ", "import", "class", "from", "None", "list", "dict", "type", "a-b", "x y", "", "1abc", "coercer", "convert", "data", "a.b", "a'b", "a\"b", "a\nb", "{}", "é", "loader", "dumper",
               f"X');open('{C}','w');('", "lambda", "__class__", "model_identity", "Model\\", "#"]
FUNC_NAMES = ["a²", "__debug__", "x①", "coercer", "convert", "data", "import", "class", "list", "a-b", "x y", "", "é", "src", "dst", "ctx", "coerce_S_to_D", "_closure_maker", f"f');open('{C}','w');('", "a\nb", "lambda"]

_n = itertools.count()
USED = {"ids": set(), "keys": set(), "class_names": set(), "func_names": set()}


def pick(rng, pool, used, k):
    """Prefers entries of the dictionary that this shard has not used yet (every entry is used at least once per run)."""
    fresh = [x for x in pool if x not in used]
    rng.shuffle(fresh)
    out = fresh[:k]
    if len(out) < k:
        out += rng.sample([x for x in pool if x not in out], k - len(out))
    used.update(out)
    return out


def make_model(ids, defaults, cls_name="M"):
    flds = []
    for i, fid in enumerate(ids):
        if defaults[i] is dataclasses.MISSING:
            flds.append((fid, int))
        else:
            flds.append((fid, int, field(default=defaults[i])))
    flds.sort(key=lambda t: len(t) == 3)
    cls = make_dataclass(f"M{next(_n)}", flds)
    return cls


def build_recipe(cls, ids, keys, rng_layout):
    """name_mapping that maps field i to keys[i] (plain key, nested path or list index, fixed by rng_layout so that the twin gets the same shape)."""
    mp = {}
    for i, fid in enumerate(ids):
        form = rng_layout[i]
        if form == "plain":
            mp[fid] = keys[i]
        elif form == "nested":
            mp[fid] = (keys[i], keys[(i + 1) % len(keys)] + "!")
        elif form == "nested-shared":
            mp[fid] = ("shared" + keys[0], keys[i])
        elif form == "default":
            continue
    return mp


def expected_dump(ids, mp, values, defaults, omit):
    out = {}
    for fid in ids:
        if omit and defaults[fid] is not dataclasses.MISSING and values[fid] == defaults[fid]:
            continue
        path = mp.get(fid, (fid[:-1] if fid.endswith("_") and not fid.endswith("__") else fid,))
        if isinstance(path, str):
            path = (path,)
        cur = out
        for el in path[:-1]:
            cur = cur.setdefault(el, {})
        cur[path[-1]] = values[fid]
    return out


def valid_paths(ids, mp):
    paths = []
    for fid in ids:
        p = mp.get(fid, (fid[:-1] if fid.endswith("_") and not fid.endswith("__") else fid,))
        paths.append((p,) if isinstance(p, str) else tuple(p))
    if len(set(paths)) != len(paths):
        return False
    for a in paths:
        for b in paths:
            if a != b and b[:len(a)] == a:
                return False
    return True


def program(ctx, rng, ids, keys, forms, defaults_list, omit, forbid, dt, label):
    """Generates loader + dumper, checks behaviour under the audit canary, returns the captured sources."""
    cls = make_model(ids, defaults_list)
    mp = build_recipe(cls, ids, keys, forms)
    if not valid_paths(ids, mp):
        return None
    defaults = dict(zip(ids, defaults_list))
    kw = {"map": mp} if mp else {}
    if omit:
        kw["omit_default"] = True
    if forbid:
        kw["extra_in"] = ExtraForbid()
    CG.drain()
    retort = Retort(recipe=[name_mapping(cls, **kw)] if kw else [], debug_trail=dt)
    desc = {"label": label, "ids": [i[:60] for i in ids], "keys": [k[:80] for k in keys], "forms": forms, "omit": omit, "forbid": forbid, "mode": dt.name}
    ld, dp = attempt(retort.get_loader, cls), attempt(retort.get_dumper, cls)
    sources = CG.drain()
    for what, o in (("loader", ld), ("dumper", dp)):
        if o.kind != "ok":
            cause = getattr(o.exc, "__cause__", None)
            ctx.violation(f"generation-failed:{what}:{type(cause).__name__ if cause is not None else type(o.exc).__name__}:{label}",
                          f"{what} generation failed for ids={desc['ids']} keys={desc['keys']}: {o.exc!r} cause={cause!r:.300}", desc)
    if ld.kind != "ok" or dp.kind != "ok":
        return None
    values = {fid: (7 + i if rng.random() < 0.7 or defaults[fid] is dataclasses.MISSING else int(defaults[fid])) for i, fid in enumerate(ids)}   # plain ints as data
    obj = cls(**values)
    want = expected_dump(ids, mp, values, defaults, omit)
    with AU.armed():
        got = attempt(dp.value, obj)
        back = attempt(ld.value, got.value if got.kind == "ok" else want)
        first = ids[0]
        broken = dict(got.value) if got.kind == "ok" and isinstance(got.value, dict) else {k: v for k, v in want.items()}
        broken["__unknown key '\"\\ {} __"] = 1
        unk = attempt(ld.value, broken)
    ctx.evaluated((label, tuple(ids), tuple(keys), tuple(forms), omit, forbid, dt.name), nontrivial=True)
    ctx.count("programs")
    ctx.count("audit_events_seen_while_armed", AU.STATE["seen"])
    if AU.EVENTS:
        ctx.violation(f"audit-canary:{AU.EVENTS[0][0]}", f"while the generated functions ran the interpreter reported {AU.EVENTS[:3]}", desc)
        AU.EVENTS.clear()
    from ..layout import prune_empty  # noqa: PLC0415

    if got.kind != "ok" or not (strict_eq(got.value, want) or (omit and strict_eq(prune_empty(got.value), prune_empty(want)))):
        ctx.violation(f"dump-differs:{label}", f"dump {got!r:.300}, expected {want!r:.300}", desc)
    elif back.kind != "ok" or back.value != obj:
        ctx.violation(f"reload-differs:{label}", f"load(dump(x)) = {back!r:.300}, x = {obj!r:.200}", desc)
    if forbid:
        names = {type(n).__name__: n for _, n in error_nodes(unk.exc)} if unk.kind == "load_error" else {}
        if "ExtraFieldsLoadError" not in names or set(names["ExtraFieldsLoadError"].fields) != {"__unknown key '\"\\ {} __"}:
            ctx.violation(f"extra-forbid-differs:{label}", f"unknown key under ExtraForbid: {unk!r:.300}", desc)
    elif unk.kind != "ok" or unk.value != obj:
        ctx.violation(f"extra-skip-differs:{label}", f"unknown key under ExtraSkip: {unk!r:.300}", desc)
    return sources


def run_model_case(ctx, rng, idx):
    n = rng.randint(1, 5)
    ids = pick(rng, FIELD_IDS, USED["ids"], n)
    keys = pick(rng, KEYS, USED["keys"], n)
    if len(set(keys)) != n:
        return
    forms = [rng.choice(["plain", "plain", "nested", "nested-shared", "default"]) for _ in range(n)]
    # private fields (leading underscore) are skipped at dumping unless they are mapped explicitly (documented): map them
    forms = ["plain" if ids[i].startswith("_") and forms[i] == "default" else forms[i] for i in range(n)]
    defaults = [dataclasses.MISSING if rng.random() < 0.5 else rng.choice([0, 5, -1, EvilInt(5), EvilInt(0)]) for _ in range(n)]   # an int whose repr() is program text
    omit, forbid = rng.random() < 0.4, rng.random() < 0.4
    dt = rng.choice(DEBUG_MODES)
    if idx < 2:
        ctx.sample({"field_ids": [i[:40] for i in ids], "keys": [k[:60] for k in keys], "forms": forms})
    hostile = program(ctx, rng, ids, keys, forms, defaults, omit, forbid, dt, "hostile")
    if hostile is None:
        ctx.count("invalid_layout_skip")
        return
    # the same shape with benign names and keys: generated programs must have the same structure
    b_ids = [f"fld{i}" for i in range(n)]
    rank = {k: r for r, k in enumerate(sorted(keys))}
    b_keys = [f"key{rank[k]:02d}" for k in keys]      # same relative order as the hostile keys
    benign = program(ctx, rng, b_ids, b_keys, forms, defaults, omit, forbid, dt, "benign")
    if benign is None:
        return
    for (fn_h, src_h, _), (fn_b, src_b, _) in zip(hostile, benign):
        ctx.count("sources_compared")
        try:
            sh, sb = CG.shape(src_h), CG.shape(src_b)
        except SyntaxError as e:
            ctx.violation("generated-source-unparsable", f"{fn_h}: {e}", {"source": src_h[-1500:]})
            continue
        if sh == sb:
            ctx.count("sources_identical_node_sequence")
        # adaptix orders crown branches by the key strings, so twins may process fields in another order: the decisive
        # comparison is the multiset of AST node shapes (an injected statement or expression adds nodes)
        import collections  # noqa: PLC0415

        if collections.Counter(sh) != collections.Counter(sb):
            diff = (collections.Counter(sh) - collections.Counter(sb)) + (collections.Counter(sb) - collections.Counter(sh))
            ctx.violation("generated-ast-not-isomorphic", f"{fn_h}: AST node multiset differs from the benign twin: {dict(diff)} (ids={[x[:30] for x in ids]}, keys={[k[:40] for k in keys]})",
                          {"hostile_source": src_h[-2500:], "benign_source": src_b[-2500:]})
        leaked = CG.constants_outside_strings(src_h, [t for t in TRACKED if any(t in k for k in keys)])
        if leaked:
            ctx.violation("hostile-key-outside-string-constant", f"{fn_h}: {leaked} occurs outside string constants / comments", {"hostile_source": src_h[-2500:]})
    if len(hostile) != len(benign):
        ctx.violation("generated-program-count-differs", f"{len(hostile)} programs for hostile names, {len(benign)} for benign", {})


def run_typeddict_case(ctx, rng, idx):
    # "any field_id must be a valid python identifier" (tutorial): other keys are refused by design. The non-ASCII ones include
    # identifiers that are NOT NFKC-normalised ('µ' U+00B5, 'ﬁx'): the compiler normalises the names of generated source (defect #79)
    pool = [*keyword.kwlist, *FIELD_IDS[:60], "é", "имя", "名前", "ﬁeld", "ℌello", "µ", "ª", "ﬁx", "ｆｕｌｌ", "Å"]
    keys = [k for k in pick(rng, pool, USED["keys"], rng.randint(1, 4)) if isinstance(k, str)]
    keys = [k for k in dict.fromkeys(keys) if not k.startswith("_")]     # private keys are skipped at dumping by default (documented)
    if not keys:
        return
    kinds = "keyword" if any(keyword.iskeyword(k) for k in keys) else "non-identifier" if any(not k.isidentifier() for k in keys) else "identifier"
    try:
        TD = typing.TypedDict(f"TD{next(_n)}", {k: int for k in keys})
    except Exception:  # noqa: BLE001
        ctx.count("python_refused_typeddict")
        return
    ctx.count(f"typeddict_{kinds}")
    dt = rng.choice(DEBUG_MODES)
    retort = Retort(debug_trail=dt)
    desc = {"keys": [k[:60] for k in keys], "mode": dt.name}
    value = {k: i for i, k in enumerate(keys)}
    # default layout: key = field id with a single trailing underscore trimmed
    outer = {(k[:-1] if k.endswith("_") and not k.endswith("__") else k): v for k, v in value.items()}
    if len(outer) != len(value):
        return
    ld, dp = attempt(retort.get_loader, TD), attempt(retort.get_dumper, TD)
    ctx.evaluated(("typeddict", tuple(keys), dt.name), nontrivial=True)
    ctx.count("programs")
    for what, o in (("loader", ld), ("dumper", dp)):
        if o.kind != "ok":
            cause = getattr(o.exc, "__cause__", None)
            ctx.violation(f"generation-failed:typeddict-{what}:{type(cause).__name__ if cause is not None else type(o.exc).__name__}:{kinds}-key",
                          f"TypedDict {what} generation failed for keys {desc['keys']}: {o.exc!r} cause={cause!r:.200}", desc)
    if ld.kind != "ok" or dp.kind != "ok":
        return
    with AU.armed():
        got = attempt(dp.value, dict(value))
        back = attempt(ld.value, dict(outer))
    if AU.EVENTS:
        ctx.violation(f"audit-canary:{AU.EVENTS[0][0]}", f"{AU.EVENTS[:3]}", desc)
        AU.EVENTS.clear()
    if got.kind != "ok" or got.value != outer:
        ctx.violation(f"dump-differs:typeddict:{kinds}-key", f"dump {got!r:.300}, expected {outer!r:.300}", desc)
    if back.kind != "ok" or back.value != value:
        ctx.violation(f"reload-differs:typeddict:{kinds}-key", f"load {back!r:.300}, expected {value!r:.300}", desc)


def _rename(obj, name):
    obj.__name__ = name
    obj.__qualname__ = name
    return obj


def run_converter_case(ctx, rng, idx):
    n = rng.randint(1, 4)
    ids = pick(rng, FIELD_IDS, USED["ids"], n)
    src_cls = make_dataclass(f"S{next(_n)}", [(i, int) for i in ids])
    dst_cls = make_dataclass(f"D{next(_n)}", [(i, int) for i in ids])
    cname_s, cname_d = pick(rng, CLASS_NAMES, USED["class_names"], 2)
    fname = pick(rng, FUNC_NAMES, USED["func_names"], 1)[0]
    which = rng.choice(["class-names", "func-name", "stub-name", "field-ids-only", "link-function", "same-named-nested", "typeddict-keyword-dst", "link-function-name-pair", "hostile-constant", "builtin-named-object-vs-literal", "generator-counter-names"])
    if which in ("same-named-nested", "typeddict-keyword-dst", "link-function-name-pair", "hostile-constant", "builtin-named-object-vs-literal", "generator-counter-names"):
        ctx.count(f"converter_{which}")
        return run_converter_special(ctx, rng, which, ids)
    ctx.count(f"converter_{which}")
    desc = {"ids": [i[:40] for i in ids], "which": which, "class_names": [cname_s, cname_d] if which == "class-names" else None, "func_name": fname if which in ("func-name", "stub-name") else None}
    if which == "class-names":
        _rename(src_cls, cname_s)
        _rename(dst_cls, cname_d)
    CG.drain()
    if which == "func-name":
        made = attempt(get_converter, src_cls, dst_cls, name=fname)
    elif which == "stub-name":
        def stub(a: src_cls) -> dst_cls: ...
        stub.__annotations__ = {"a": src_cls, "return": dst_cls}
        _rename(stub, fname)
        made = attempt(impl_converter, stub)
    elif which == "link-function":
        first = ids[0]

        def fn(model, /):
            return 99
        _rename(fn, fname)
        made = attempt(get_converter, src_cls, dst_cls, recipe=[link_function(fn, first)])
    else:
        made = attempt(get_converter, src_cls, dst_cls)
    sources = CG.drain()
    ctx.evaluated(("converter", which, tuple(ids), cname_s, cname_d, fname), nontrivial=True)
    ctx.count("programs")
    if made.kind != "ok":
        cause = getattr(made.exc, "__cause__", None)
        what = {"class-names": f"class-name:{_name_class(cname_s, cname_d)}", "func-name": f"func-name:{_name_class(fname)}", "stub-name": f"stub-name:{_name_class(fname)}"}.get(which, which)
        ctx.violation(f"generation-failed:converter:{type(cause).__name__ if cause is not None else type(made.exc).__name__}:{what}",
                      f"converter generation failed ({desc}): {made.exc!r} cause={cause!r:.200}", desc)
        return
    values = {i: k + 1 for k, i in enumerate(ids)}
    with AU.armed():
        out = attempt(made.value, src_cls(**values))
    if AU.EVENTS:
        ctx.violation(f"audit-canary:{AU.EVENTS[0][0]}", f"{AU.EVENTS[:3]}", desc)
        AU.EVENTS.clear()
    want = dict(values)
    if which == "link-function":
        want[ids[0]] = 99
    if out.kind != "ok" or {i: getattr(out.value, i) for i in ids} != want or type(out.value) is not dst_cls:
        what = {"class-names": f"class-name:{_name_class(cname_s, cname_d)}", "func-name": f"func-name:{_name_class(fname)}", "stub-name": f"stub-name:{_name_class(fname)}"}.get(which, which)
        ctx.violation(f"converter-misbehaves:{type(out.exc).__name__ if out.kind != 'ok' else 'wrong-result'}:{what}", f"converter ({desc}) gave {out!r:.300}, expected fields {want!r}", desc)
    if which in ("func-name", "stub-name") and made.value.__name__ != fname and which == "stub-name":
        ctx.violation("stub-name-not-preserved", f"impl_converter renamed {fname!r} to {made.value.__name__!r}", desc)
    for fnm, src, _ in sources:
        leaked = CG.constants_outside_strings(src, [t for t in TRACKED if t in cname_s + cname_d + fname])
        if leaked and which in ("class-names", "func-name", "stub-name"):
            ctx.violation("hostile-name-outside-string-constant", f"{fnm}: {leaked} occurs outside string constants / comments", {"source": src[-2000:]})


class EvilStr(str):
    """Values whose repr() is program text: a generator that pastes repr(value) of anything but an exact builtin executes it."""
    __slots__ = ()

    def __repr__(self):
        return f"open('{C}', 'w')"


class EvilInt(int):
    def __repr__(self):
        return f"(open('{C}', 'w') and 0)"


class EvilFloat(float):
    def __repr__(self):
        return f"(open('{C}', 'w') and 0.0)"


class EvilBytes(bytes):
    def __repr__(self):
        return f"open('{C}', 'w')"


HOSTILE_CONSTANTS = [EvilStr("plain text"), EvilInt(7), EvilFloat(1.5), EvilBytes(b"raw"), (EvilStr("in tuple"), 1), [EvilInt(3)], {"k": EvilStr("v")}, "two\nlines", "a\r\nb", "  indented\n    more\n", "'" * 3, '"' * 3, "back\\slash\\", "{braces} $dollar %s", f"');open('{C}','w');('", " sep", "tab\t", ("t\nu", 1), ["l\ni"],
                     {"k\n": "v\n"}]


def run_converter_special(ctx, rng, which, ids):  # noqa: C901
    """Converter shapes where names of different generated entities meet: same-named nested models, keyword TypedDict keys as
    destination parameters, linked functions whose names collide with the generator's global prefix, constants with line breaks."""
    desc = {"which": which, "ids": [i[:40] for i in ids]}
    CG.drain()
    if which == "same-named-nested":
        nm = rng.choice(["M", "Model", "coercer", "data", "convert"])
        si = _rename(make_dataclass("SI", [(i, int) for i in ids]), nm)
        di = _rename(make_dataclass("DI", [(i, int) for i in ids]), nm)
        s_ = _rename(make_dataclass("S", [("inner", si), ("plain", int)]), nm)
        d_ = _rename(make_dataclass("D", [("inner", di), ("plain", int)]), nm)
        made = attempt(get_converter, s_, d_)
        src = s_(si(**{i: k for k, i in enumerate(ids)}), 5)

        def check(o):
            return type(o) is d_ and type(o.inner) is di and o.plain == 5 and all(getattr(o.inner, i) == k for k, i in enumerate(ids))
        desc["name"] = nm
    elif which == "typeddict-keyword-dst":
        keys = rng.sample(keyword.kwlist, 2) + [ids[0]] + rng.choice([[], ["__debug__"], ["__debug__"]])     # f(__debug__=1) is a SyntaxError too
        ts = typing.TypedDict(f"TS{next(_n)}", {k: int for k in keys})
        td = typing.TypedDict(f"TD{next(_n)}", {k: int for k in keys})
        made = attempt(get_converter, ts, td)
        src = {k: i for i, k in enumerate(keys)}
        loaded = attempt(Retort(recipe=[name_mapping(trim_trailing_underscore=False)]).load, dict(src), td)      # the loader passes the same names to the constructor
        if loaded.kind != "ok" or loaded.value != src:
            ctx.violation(f"generation-failed:loader:{type(getattr(loaded.exc, '__cause__', None) or loaded.exc).__name__}:typeddict-keyword-keys",
                          f"TypedDict with keys {keys}: load gave {loaded!r:.200}", {"keys": keys})

        def check(o):
            return o == src
        desc["keys"] = keys
    elif which == "builtin-named-object-vs-literal":
        # a user function / factory / class NAMED like a builtin next to a constant whose literal form CALLS that builtin
        # (range(0, 10, 2), frozenset({...}), slice(...), set(), bytearray(b'..')): the literal must reach the real builtin
        from adaptix.conversion import link_constant  # noqa: PLC0415

        bname, const = rng.choice([("range", range(0, 10, 2)), ("frozenset", frozenset({"x"})), ("slice", slice(None, None, 2)), ("set", set()), ("bytearray", bytearray(b"ab")),
                                   ("frozenset", frozenset()), ("range", [range(3)]), ("slice", (slice(1, 2), 1))])
        role = rng.choice(["link_function", "factory", "dst-class", "src-class"])
        s_ = make_dataclass(bname if role == "src-class" else "S", [("a", int)])
        d_ = make_dataclass(bname if role == "dst-class" else "D", [("a", int), ("c", typing.Any), ("y", typing.Any, field(default=None))])
        recipe = [link_constant(P[d_].c, value=const)]
        if role == "link_function":
            def f1(m, /):
                return "from-function"
            _rename(f1, bname)
            recipe.append(link_function(f1, P[d_].y))
        elif role == "factory":
            def fac():
                return "fresh"
            _rename(fac, bname)
            recipe.append(link_constant(P[d_].y, factory=fac))
        else:
            recipe.append(link_constant(P[d_].y, value="plain"))
        with AU.armed():
            made = attempt(get_converter, s_, d_, recipe=recipe)
        src = s_(0)
        want_y = {"link_function": "from-function", "factory": "fresh"}.get(role, "plain")

        def check(o):
            return o.a == 0 and strict_eq(o.c, const) and o.y == want_y
        desc.update(builtin=bname, role=role, constant=repr(const))
    elif which == "generator-counter-names":
        # a user function / class NAMED like the names the generator numbers its own objects with (constant_0, func_0, accessor_0), registered
        # BEFORE a constant without literal form, a functools.partial factory (no __name__) and an accessor of a TypedDict key: the user's name is
        # data and must not collide with the generator's (seeded change: counter names registered without mangling -> 'Key constant_0 is duplicated')
        import functools  # noqa: PLC0415

        from adaptix.conversion import link_constant  # noqa: PLC0415

        uname = rng.choice(["constant_0", "constant_1", "func_0", "func_1", "accessor_0", "constant_0_1"])
        role = rng.choice(["link_function", "dst-class", "src-class", "factory"])
        marker = object()
        s_ = typing.TypedDict(uname if role == "src-class" else "S", {"a": int}) if rng.random() < 0.5 else make_dataclass(uname if role == "src-class" else "S", [("a", int)])
        d_ = make_dataclass(uname if role == "dst-class" else "D", [("a", int), ("c", typing.Any), ("p", typing.Any), ("y", typing.Any, field(default=None))])

        def f1(m, /):
            return "from-function"
        _rename(f1, uname)

        def fac():
            return "fresh"
        _rename(fac, uname)
        first = {"link_function": [link_function(f1, P[d_].y)], "factory": [link_constant(P[d_].y, factory=fac)]}.get(role, [link_constant(P[d_].y, value="plain")])
        rest = [link_constant(P[d_].c, value=marker), link_constant(P[d_].p, factory=functools.partial(dict, k=1))]
        recipe = first + rest if rng.random() < 0.7 else rest + first
        with AU.armed():
            made = attempt(get_converter, s_, d_, recipe=recipe)
        src = {"a": 0} if isinstance(s_, type) and issubclass(s_, dict) else s_(0)
        want_y = {"link_function": "from-function", "factory": "fresh"}.get(role, "plain")

        def check(o):
            return o.a == 0 and o.c is marker and o.p == {"k": 1} and o.y == want_y
        desc.update(name=uname, role=role, order="user-object-first" if recipe[0] is first[0] else "generator-objects-first")
    elif which == "link-function-name-pair":
        base = rng.choice(["foo", "data", "coercer", "constant", ids[0]])
        s_ = make_dataclass("S", [("a", int)])
        d_ = make_dataclass("D", [("a", int), ("y", int), ("z", int)])

        def f1(m, /):
            return 1

        def f2(m, /):
            return 2
        _rename(f1, base)
        _rename(f2, rng.choice(["g_", "dfl_", "f_", "loader_"]) + base)
        made = attempt(get_converter, s_, d_, recipe=[link_function(f1, "y"), link_function(f2, "z")])
        src = s_(0)

        def check(o):
            return (o.a, o.y, o.z) == (0, 1, 2)
        desc["names"] = [f1.__name__, f2.__name__]
    else:
        from adaptix.conversion import link_constant  # noqa: PLC0415

        const = rng.choice(HOSTILE_CONSTANTS)
        s_ = make_dataclass("S", [("a", int)])
        d_ = make_dataclass("D", [("a", int), ("c", typing.Any)])
        if rng.random() < 0.4:
            # the same hostile value as the DEFAULT of an extra converter parameter (defect #69: the header was built with str(signature))
            from adaptix.conversion import from_param  # noqa: PLC0415

            def stub(s, k=const): ...
            stub.__annotations__ = {"s": s_, "return": d_}
            with AU.armed():
                made = attempt(lambda: impl_converter(recipe=[link(from_param("k"), P[d_].c)])(stub))
            desc["as"] = "parameter-default"
        else:
            with AU.armed():
                made = attempt(get_converter, s_, d_, recipe=[link_constant("c", value=const)])
        src = s_(0)

        def check(o):
            return o.a == 0 and strict_eq(o.c, const)
        desc["constant"] = repr(const)
    ctx.evaluated(("converter-special", which, repr(desc)), nontrivial=True)
    ctx.count("programs")
    if made.kind != "ok":
        cause = getattr(made.exc, "__cause__", None)
        ctx.violation(f"generation-failed:converter:{type(cause).__name__ if cause is not None else type(made.exc).__name__}:{which}", f"converter generation failed ({desc}): {made.exc!r} cause={cause!r:.200}", desc)
        return
    with AU.armed():
        out = attempt(made.value, src)
    if AU.EVENTS:
        ctx.violation(f"audit-canary:{AU.EVENTS[0][0]}", f"{AU.EVENTS[:3]}", desc)
        AU.EVENTS.clear()
    if out.kind != "ok" or not check(out.value):
        ctx.violation(f"converter-misbehaves:{type(out.exc).__name__ if out.kind != 'ok' else 'wrong-result'}:{which}", f"converter ({desc}) gave {out!r:.300}", desc)


def _name_class(*names):
    for n in names:
        if keyword.iskeyword(n):
            return "keyword"
    for n in names:
        if n in ("coercer", "convert", "data", "src", "dst", "ctx", "loader", "dumper", "model_identity", "coerce_S_to_D", "_closure_maker"):
            return "generated-name"
    for n in names:
        if not n.isidentifier():
            return "non-identifier"
    return "identifier"


def setup(ctx):
    CG.install()
    AU.install()
    if not AU.selftest():
        raise RuntimeError("audit hook does not see its own canary events")
    ctx.count("audit_selftests")


def run_case(ctx, rng, idx):
    for _ in range(6):
        run_model_case(ctx, rng, idx)
    for _ in range(2):
        run_typeddict_case(ctx, rng, idx)
    for _ in range(4):
        run_converter_case(ctx, rng, idx)


def teardown(ctx):
    ctx.count("sources_captured", CG.STATS["compiled"])
    ctx.count("dictionary_ids_used", len(USED["ids"]))
    ctx.count("dictionary_keys_used", len(USED["keys"]))
    ctx.count("dictionary_class_names_used", len(USED["class_names"]))
    ctx.count("dictionary_func_names_used", len(USED["func_names"]))
    import os  # noqa: PLC0415

    if os.path.exists(C):
        ctx.violation("audit-canary:file-created", f"the canary file {C} exists: injected text was executed", {})
        os.remove(C)


def _witnesses(ctx):
    import random  # noqa: PLC0415

    rng = random.Random(0)
    for keys in (["from"], ["class", "a"], ["import", "lambda", "x"]):
        TD = typing.TypedDict(f"TD{next(_n)}", {k: int for k in keys})
        r = Retort()
        for what, o in (("loader", attempt(r.get_loader, TD)), ("dumper", attempt(r.get_dumper, TD))):
            ctx.evaluated(("directed-typeddict", tuple(keys), what))
            ctx.count("programs")
            if o.kind != "ok":
                cause = getattr(o.exc, "__cause__", None)
                ctx.violation(f"generation-failed:typeddict-{what}:{type(cause).__name__ if cause is not None else type(o.exc).__name__}:keyword-key", f"TypedDict {keys}: {o.exc!r} cause={cause!r:.200}", {})
    S = make_dataclass("S", [("a", int)])
    D = make_dataclass("D", [("a", int)])
    for nm in ("coercer", "convert", "data"):
        made = attempt(get_converter, S, D, name=nm)
        out = attempt(made.value, S(1)) if made.kind == "ok" else made
        ctx.evaluated(("directed-func-name", nm))
        ctx.count("programs")
        if out.kind != "ok" or out.value != D(1):
            ctx.violation(f"converter-misbehaves:{type(out.exc).__name__}:func-name:generated-name", f"get_converter(name={nm!r}): {out!r:.200}", {})
    D2 = _rename(make_dataclass("D2", [("a", int)]), "import")
    made = attempt(get_converter, S, D2)
    out = attempt(made.value, S(1)) if made.kind == "ok" else made
    ctx.evaluated(("directed-class-name", "import"))
    if out.kind != "ok":
        cause = getattr(out.exc, "__cause__", None)
        ctx.violation(f"generation-failed:converter:{type(cause).__name__ if cause is not None else type(out.exc).__name__}:class-name:keyword", f"destination class named 'import': {out!r:.200}", {})


def _unnormalised_identifiers(ctx):
    """Legal identifiers whose NFKC form is another string, as keys of functional TypedDicts: the generated source is normalised by
    the compiler, the keys handed to the TypedDict and to the generated globals must not be (defect #79)."""
    for keys in (["µ"], ["ﬁx", "b"], ["µ", "from", "x"], ["ｆｕｌｌ", "ª", "Å"]):
        TD, TS = (typing.TypedDict(f"TD{next(_n)}", {k: int for k in keys}) for _ in range(2))
        value = {k: i for i, k in enumerate(keys)}
        r = Retort()
        outs = {"load": attempt(r.load, dict(value), TD), "dump": attempt(r.dump, dict(value), TD), "convert": attempt(lambda: get_converter(TS, TD)(dict(value)))}
        for what, o in outs.items():
            ctx.evaluated(("directed-nfkc", tuple(keys), what), nontrivial=True)
            ctx.count("programs")
            if o.kind != "ok":
                cause = getattr(o.exc, "__cause__", None)
                ctx.violation(f"generation-failed:typeddict-{what}:{type(cause).__name__ if cause is not None else type(o.exc).__name__}:unnormalised-identifier",
                              f"TypedDict {keys} {what}: {o.exc!r} cause={cause!r:.200}", {"keys": keys})
            elif o.value != value or list(map(ascii, sorted(o.value))) != list(map(ascii, sorted(value))):
                ctx.violation(f"{what}-differs:typeddict:unnormalised-identifier", f"TypedDict {keys} {what}: {ascii(o.value)}, expected {ascii(value)}", {"keys": keys})


def _keys_of_str_and_int_subclasses(ctx):
    """Mapped keys are data whatever their class: a member of `class K(str, Enum)`, a str subclass whose repr() is program text, an
    IntEnum list index - given directly, inside a path, or returned by a mapping function (defect #80)."""
    import enum  # noqa: PLC0415

    class K(str, enum.Enum):
        X = "x_key"

    class I(enum.IntEnum):  # noqa: E742
        ONE = 1
    M = make_dataclass("MK", [("x", int), ("y", int)])
    cases = [
        ("str-enum-key", {"x": K.X}, {"x_key": 1, "y": 2}),
        ("evil-str-key", {"x": EvilStr("k")}, {"k": 1, "y": 2}),
        ("path-of-subclass-keys", {"x": ("outer", K.X, I.ONE), "y": ("outer", EvilStr("k"))}, {"outer": {"x_key": [None, 1], "k": 2}}),
        ("evil-int-index", {"x": ("lst", EvilInt(0)), "y": ("lst", 1)}, {"lst": [1, 2]}),
        ("function-returning-subclass-key", [("x", lambda shape, fld: EvilStr("fk"))], {"fk": 1, "y": 2}),
    ]
    for label, mp, outer in cases:
        for dt in DEBUG_MODES:
            r = Retort(debug_trail=dt, recipe=[name_mapping(M, map=mp)])
            mk_l, mk_d = attempt(r.get_loader, M), attempt(r.get_dumper, M)      # generation compiles and executes source: armed only afterwards
            with AU.armed():
                ld = attempt(mk_l.value, copy.deepcopy(outer)) if mk_l.kind == "ok" else mk_l
                dp = attempt(mk_d.value, M(1, 2)) if mk_d.kind == "ok" else mk_d
            ctx.evaluated(("directed-subclass-key", label, dt.name), nontrivial=True)
            ctx.count("programs")
            info = {"case": label, "mode": dt.name}
            if AU.EVENTS:
                ctx.violation(f"audit-canary:{AU.EVENTS[0][0]}:mapped-key-subclass", f"{label}: {AU.EVENTS[:3]}", info)
                AU.EVENTS.clear()
            for what, o, want in (("loader", ld, M(1, 2)), ("dumper", dp, outer)):
                if o.kind != "ok":
                    cause = getattr(o.exc, "__cause__", None)
                    ctx.violation(f"generation-failed:{what}:{type(cause).__name__ if cause is not None else type(o.exc).__name__}:mapped-key-subclass", f"{label}: {o.exc!r} cause={cause!r:.200}", info)
                elif o.value != want:
                    ctx.violation(f"{what}-differs:mapped-key-subclass", f"{label}: {o.value!r}, expected {want!r}", info)


def _null_character_in_function_names(ctx):
    """'Model and function names with arbitrary characters': the one character compile() refuses in a FILE name (defect #81)."""
    S = make_dataclass("S", [("a", int)])
    D = make_dataclass("D", [("a", int)])

    def stub(s):
        ...
    stub.__annotations__ = {"s": S, "return": D}     # this module postpones the evaluation of annotations
    stub.__name__ = "st\0ub"
    for label, make in (("get_converter(name=)", lambda: get_converter(S, D, name="a\0b")), ("impl_converter(__name__)", lambda: impl_converter(stub))):
        made = attempt(make)
        out = attempt(made.value, S(1)) if made.kind == "ok" else made
        ctx.evaluated(("directed-func-name-nul", label), nontrivial=True)
        ctx.count("programs")
        if out.kind != "ok" or out.value != D(1):
            ctx.violation(f"converter-misbehaves:{type(out.exc).__name__}:func-name:null-character", f"{label}: {out!r:.200}", {})


def _attributes_named_like_keywords(ctx):
    """Attribute-accessed fields whose name is a keyword or not NFKC-normalised (a pydantic model made with create_model): the generated
    dumper and converter read them with getattr, not as `data.class` / `data.ﬁ` (defect #100)."""
    try:
        from pydantic import create_model  # noqa: PLC0415
    except ImportError:
        ctx.count("pydantic_missing")
        return
    for names in (["class"], ["from", "ok"], ["ﬁ"], ["µ", "class", "plain"]):
        A = create_model(f"PKA{next(_n)}", **{n: (int, ...) for n in names})
        B = create_model(f"PKB{next(_n)}", **{n: (int, ...) for n in names})
        value = {n: i + 1 for i, n in enumerate(names)}
        obj = A(**value)
        r = Retort()
        outs = {"dump": attempt(r.dump, obj), "load": attempt(lambda: r.load(dict(value), A).model_dump()), "convert": attempt(lambda: get_converter(A, B)(obj).model_dump())}
        for what, o in outs.items():
            ctx.evaluated(("directed-keyword-attribute", tuple(names), what), nontrivial=True)
            ctx.count("programs")
            if o.kind != "ok":
                cause = getattr(o.exc, "__cause__", None)
                ctx.violation(f"generation-failed:{what}:{type(cause).__name__ if cause is not None else type(o.exc).__name__}:attribute-named-like-keyword",
                              f"pydantic model with fields {names} {what}: {o.exc!r:.160} cause={cause!r:.160}", {"names": names})
            elif o.value != value or list(map(ascii, sorted(o.value))) != list(map(ascii, sorted(value))):
                ctx.violation(f"{what}-differs:attribute-named-like-keyword", f"fields {names} {what}: {ascii(o.value)}, expected {ascii(value)}", {"names": names})


def _converter_shapes_every_run(ctx):
    """The converter shapes whose detection would otherwise rest on what the random stream draws (name, role and order are drawn inside the
    shape): each runs under 48 fixed streams on every invocation."""
    import random  # noqa: PLC0415

    for which in ("generator-counter-names", "builtin-named-object-vs-literal", "link-function-name-pair"):
        for i in range(48):
            run_converter_special(ctx, random.Random(f"c19-directed/{which}/{i}"), which, ["a_", "b", "from_", "g_x"])
            ctx.count("directed_converter_shapes")


DIRECTED = {"converter-shapes-every-run": _converter_shapes_every_run, "attributes-named-like-keywords": _attributes_named_like_keywords, "keyword-keys-and-generated-names": _witnesses, "unnormalised-identifiers": _unnormalised_identifiers,
            "keys-of-str-and-int-subclasses": _keys_of_str_and_int_subclasses, "null-character-in-function-names": _null_character_in_function_names}
from ..suite_leg import make as _suite_leg  # noqa: E402

DIRECTED["suite-under-monitors"] = _suite_leg("C19")

