"""C15 - type normalisation is a canonical form.

Monitor: metamorphic relation checker. A generated type expression is spelled twice through random
sequences of meaning-preserving rewrites (normal forms must be equal, hash-equal and idempotent, loaders /
dumpers / predicates must behave identically) and once with a single meaning-changing edit (normal forms
must differ)."""
from __future__ import annotations

import collections.abc as cabc
import enum
import typing
from dataclasses import dataclass
from decimal import Decimal
from typing import Any, Dict, FrozenSet, Generic, List, Literal, Optional, Set, Tuple, TypeVar, Union

from adaptix import Retort, create_loc_stack_checker
from adaptix._internal.provider.loc_stack_filtering import LocStack
from adaptix._internal.provider.location import TypeHintLoc
from adaptix._internal.type_tools import normalize_type

from .. import hostile
from ..adx import attempt, error_sig
from ..eq import strict_eq

T = TypeVar("T")
B = TypeVar("B", bound=int)
C = TypeVar("C", str, bool)


@dataclass
class GT(Generic[T]):
    x: T


@dataclass
class GB(Generic[B]):
    x: B


@dataclass
class GC(Generic[C]):
    x: C


@dataclass
class G2(Generic[T, B]):
    x: T
    y: B


class CE(str, enum.Enum):
    A = "a"
    B2 = "b"


class IE1(enum.IntEnum):
    ONE = 1
    ZERO = 0


LEAVES = [int, str, bool, float, bytes, Decimal, None]
# "1" / 1: str() of the two is the same text (defect #53); CE.A == "a" and IE1.ONE == 1 == True: members of enums with a mixed-in data
# type EQUAL the plain value and hash like it, only the type tells them apart (seeded change: literal equality typed for bool only)
LITERALS = [0, 1, False, True, "a", "b", 2, b"x", None, "1", "True", "None", CE.A, IE1.ONE, IE1.ZERO]

# kind -> (arity, [spellings: callable(args) -> hint], bare spellings, implicit args)
GENERICS = {
    "list": (1, [lambda a: List[a[0]], lambda a: list[a[0]]], [List, list], [("leaf", Any)]),
    "set": (1, [lambda a: Set[a[0]], lambda a: set[a[0]]], [Set, set], [("leaf", Any)]),
    "frozenset": (1, [lambda a: FrozenSet[a[0]], lambda a: frozenset[a[0]]], [FrozenSet, frozenset], [("leaf", Any)]),
    "dict": (2, [lambda a: Dict[a[0], a[1]], lambda a: dict[a[0], a[1]]], [Dict, dict], [("leaf", Any), ("leaf", Any)]),
    "vartuple": (1, [lambda a: Tuple[a[0], ...], lambda a: tuple[a[0], ...]], [Tuple, tuple], [("leaf", Any)]),
    "tuple2": (2, [lambda a: Tuple[a[0], a[1]], lambda a: tuple[a[0], a[1]]], [], None),
    "sequence": (1, [lambda a: typing.Sequence[a[0]], lambda a: cabc.Sequence[a[0]]], [typing.Sequence, cabc.Sequence], [("leaf", Any)]),
    "iterable": (1, [lambda a: typing.Iterable[a[0]], lambda a: cabc.Iterable[a[0]]], [typing.Iterable, cabc.Iterable], [("leaf", Any)]),
    "mapping": (2, [lambda a: typing.Mapping[a[0], a[1]], lambda a: cabc.Mapping[a[0], a[1]]], [typing.Mapping, cabc.Mapping], [("leaf", Any), ("leaf", Any)]),
    "GT": (1, [lambda a: GT[a[0]]], [GT], [("leaf", Any)]),
    "GB": (1, [lambda a: GB[a[0]]], [GB], [("leaf", int)]),
    "GC": (1, [lambda a: GC[a[0]]], [GC], [("union", [("leaf", str), ("leaf", bool)])]),
    "G2": (2, [lambda a: G2[a[0], a[1]]], [G2], [("leaf", Any), ("leaf", int)]),
}
BOUNDED_ARGS = {"GB": [int, bool], "GC": [str, bool], "G2": None}


def gen(rng, depth):  # noqa: PLR0911
    r = rng.random()
    if depth <= 0 or r < 0.3:
        if rng.random() < 0.25:
            return ("lit", rng.sample(LITERALS, rng.randint(1, 3)))
        return ("leaf", rng.choice(LEAVES))
    if r < 0.55:
        n = rng.randint(2, 4)
        return ("union", [gen(rng, depth - 1) for _ in range(n)])
    kind = rng.choice(list(GENERICS))
    arity = GENERICS[kind][0]
    if kind == "GB":
        return ("gen", kind, [("leaf", rng.choice([int, bool]))])
    if kind == "GC":
        return ("gen", kind, [("leaf", rng.choice([str, bool]))])
    if kind == "G2":
        return ("gen", kind, [gen(rng, depth - 1), ("leaf", rng.choice([int, bool]))])
    if rng.random() < 0.15 and GENERICS[kind][3] is not None:
        return ("gen", kind, list(GENERICS[kind][3]), "implicit")     # arguments equal to the documented implicit parameters
    return ("gen", kind, [gen(rng, depth - 1) for _ in range(arity)])


# ---- independent canonical form (the meaning of an expression) -----------------------------------------------
def canon(e):  # noqa: C901
    k = e[0]
    if k == "leaf":
        return ("leaf", e[1])
    if k == "lit":
        vals = frozenset((type(v), v) for v in e[1])
        if vals == {(type(None), None)}:
            return ("leaf", None)
        return _mk_union([("lit1", tv) for tv in vals])
    if k == "union":
        members = []
        for m in e[1]:
            c = canon(m)
            if c[0] == "union":
                members.extend(c[1])
            else:
                members.append(c)
        return _mk_union(members)
    return ("gen", e[1], tuple(canon(a) for a in e[2]))


def _mk_union(members):
    flat = set()
    for m in members:
        if m == ("lit1", (type(None), None)):
            m = ("leaf", None)
        flat.add(m)
    if len(flat) == 1:
        return next(iter(flat))
    return ("union", frozenset(flat))


# ---- rendering with random meaning-preserving spellings -----------------------------------------------------
class Use:
    """Counts which rewrite rules were applied."""
    def __init__(self, ctx):
        self.ctx = ctx
        self.bare = False

    def hit(self, name):
        if name.startswith("bare<->implicit"):
            self.bare = True
        if self.ctx is not None:
            self.ctx.count(f"rule_{name}")


def render(e, rng, use, plain=False):  # noqa: C901, PLR0911, PLR0912
    k = e[0]
    if k == "leaf":
        if e[1] is None and not plain and rng.random() < 0.3:
            use.hit("None<->Literal[None]")
            return Literal[None]
        return e[1]
    if k == "lit":
        vals = list(e[1])
        if not plain and len(vals) > 1 and rng.random() < 0.5:
            use.hit("split-literal-union")
            rng.shuffle(vals)
            cut = rng.randint(1, len(vals) - 1)
            return Union[Literal[tuple(vals[:cut])], Literal[tuple(vals[cut:])]]
        if not plain and rng.random() < 0.3:
            use.hit("reorder-literal")
            rng.shuffle(vals)
        return Literal[tuple(vals)]
    if k == "union":
        members = [render(m, rng, use, plain) for m in e[1]]
        if plain:
            return Union[tuple(members)]
        r = rng.random()
        if r < 0.25:
            use.hit("reorder-union")
            rng.shuffle(members)
        elif r < 0.45 and len(members) > 2:
            use.hit("nest-union")
            return Union[members[0], Union[tuple(members[1:])]]
        elif r < 0.6:
            use.hit("duplicate-union-member")
            members = members + [rng.choice(members)]
        elif r < 0.8:
            try:
                out = members[0]
                for m in members[1:]:
                    out = out | m
                use.hit("pipe-syntax")
                return out
            except TypeError:
                pass
        if len(members) == 2 and sum(1 for m in members if m is None) == 1 and rng.random() < 0.7:
            other = next(m for m in members if m is not None)
            use.hit("Optional<->Union[X,None]")
            return Optional[other]
        return Union[tuple(members)]
    # generic
    kind, args = e[1], e[2]
    arity, spellings, bares, implicit = GENERICS[kind]
    if len(e) > 3 and not plain and bares and rng.random() < 0.6:
        use.hit(f"bare<->implicit:{kind}")
        return rng.choice(bares)
    rendered = [render(a, rng, use, plain) for a in args]
    if plain:
        return spellings[0](rendered)
    if len(spellings) > 1 and rng.random() < 0.5:
        use.hit("typing-alias<->builtin-generic")
        return spellings[1](rendered)
    return spellings[0](rendered)


# ---- single meaning-changing edits ----------------------------------------------------------------------------
def edit(e, rng, use):  # noqa: C901, PLR0911, PLR0912
    """Returns an expression with exactly one meaning-changing edit (or None if none applies here)."""
    k = e[0]
    if k == "leaf":
        other = rng.choice([t for t in LEAVES if t is not e[1]])
        use.hit("edit-leaf-type")
        return ("leaf", other)
    if k == "lit":
        vals = list(e[1])
        r = rng.random()
        swaps = {0: False, False: 0, 1: True, True: 1}
        cand = [i for i, v in enumerate(vals) if (type(v), v) in {(int, 0), (int, 1), (bool, False), (bool, True)} and not any(type(x) is type(swaps[v]) and x == swaps[v] for x in vals)]
        if cand and r < 0.5:
            i = rng.choice(cand)
            vals[i] = swaps[vals[i]]
            use.hit("edit-Literal[0]<->Literal[False]")
            return ("lit", vals)
        if r < 0.75 and len(vals) > 1:
            vals.pop(rng.randrange(len(vals)))
            use.hit("edit-remove-literal-member")
            return ("lit", vals)
        new = [v for v in LITERALS if not any(type(x) is type(v) and x == v for x in vals)]
        if new:
            use.hit("edit-add-literal-member")
            return ("lit", vals + [rng.choice(new)])
        return None
    if k == "union":
        i = rng.randrange(len(e[1]))
        if rng.random() < 0.5:
            sub = edit(e[1][i], rng, use)
            if sub is None:
                return None
            return ("union", e[1][:i] + [sub] + e[1][i + 1:])
        use.hit("edit-add-union-member")
        return ("union", e[1] + [("leaf", rng.choice([complex, bytearray]))])
    kind, args = e[1], list(e[2])
    if kind in ("GB", "GC"):
        pool = BOUNDED_ARGS[kind]
        cur = args[0][1]
        use.hit("edit-generic-argument")
        return ("gen", kind, [("leaf", next(t for t in pool if t is not cur))])
    i = rng.randrange(len(args)) if kind != "G2" else 0
    sub = edit(args[i], rng, use)
    if sub is None:
        return None
    use.hit("edit-generic-argument")
    args[i] = sub
    return ("gen", kind, args)


def show(h):
    return repr(h).replace("typing.", "").replace("vlib.props.c15.", "")[:300]


DATA = [lbl for lbl in ("None", "True", "False", "0", "1", "2**64", "1.0", "''", "'a'", "b'ab'", "[]", "[1,'a']", "[1,2]", "['a','b']", "(1,)", "{}", "{'a':1}", "{1:2}", "{'a':[]}",
                        "[[1]]", "[None]", "Decimal('1')", "'YQ=='", "frozenset", "{1,2}")]


def behaviour(hint, sides=("load", "dump")):
    r = Retort()
    out = []
    ld = attempt(r.get_loader, hint)
    if ld.kind != "ok":
        out.append(("no-loader", type(ld.exc).__name__))
    else:
        for lbl in DATA:
            extra = [{"x": hostile.POOL_BY_LABEL[l]()} for l in ()]
            o = attempt(ld.value, hostile.POOL_BY_LABEL[lbl]())
            out.append(("ok", o.value) if o.kind == "ok" else ("err", type(o.exc).__name__, error_sig(o.exc)))
        for d in ({"x": 1}, {"x": "a"}, {"x": True}, {"x": 1, "y": True}, {"x": [1], "y": 2}):
            o = attempt(ld.value, d)
            out.append(("ok", o.value) if o.kind == "ok" else ("err", type(o.exc).__name__, error_sig(o.exc)))
    dp = attempt(r.get_dumper, hint)
    out.append(("dumper", dp.kind if dp.kind == "ok" else type(dp.exc).__name__))
    if dp.kind == "ok":
        for v in (1, "a", None, True, [1], (1,), {"a": 1}, b"x", Decimal("1"), GT(1), GB(True), GC("s"), G2([1], 2), {1}, frozenset({1})):
            o = attempt(dp.value, v)
            out.append(("ok", o.value) if o.kind == "ok" else ("err", type(o.exc).__name__))
    return out


def same_behaviour(a, b):
    if len(a) != len(b):
        return False
    for x, y in zip(a, b):
        if x[0] != y[0]:
            return False
        if x[0] == "ok":
            if not strict_eq(x[1], y[1]):
                return False
        elif x[1:] != y[1:]:
            return False
    return True


def check_equivalent(ctx, e, h1, h2, tag, predicates=True):
    n1, n2 = attempt(normalize_type, h1), attempt(normalize_type, h2)
    info = {"hint_a": show(h1), "hint_b": show(h2), "meaning": repr(canon(e))[:300]}
    if n1.kind != "ok" or n2.kind != "ok":
        ctx.violation(f"normalisation-fails:{type((n1.exc or n2.exc)).__name__}", f"{show(h1)} / {show(h2)}: {n1!r} {n2!r}", info)
        return
    a, b = n1.value, n2.value
    ctx.evaluated(("equiv", show(h1), show(h2)), nontrivial=h1 is not h2 and show(h1) != show(h2))
    ctx.count("equivalent_pairs")
    key = _rule_key(h1, h2, e)
    if a != b:
        ctx.violation(f"equivalent-hints-normalise-differently:{key}", f"{show(h1)} and {show(h2)} denote the same type but normalise to {a!r:.200} and {b!r:.200}", info)
        return
    if hash(a) != hash(b):
        ctx.violation(f"equal-normal-forms-hash-differently:{key}", f"{show(h1)} / {show(h2)}", info)
    for h, n in ((h1, a), (h2, b)):
        again = attempt(normalize_type, n.source)
        if again.kind != "ok" or again.value != n:
            ctx.violation(f"normalisation-not-idempotent:{key}", f"normalize(normalize({show(h)}).source) = {again!r:.200} != {n!r:.200}", info)
    # behavioural equivalence: loaders, dumpers, predicates
    if tag % 3 == 0:
        b1, b2 = behaviour(h1), behaviour(h2)
        ctx.count("behaviour_comparisons")
        if not same_behaviour(b1, b2):
            i = next((i for i, (x, y) in enumerate(zip(b1, b2)) if not same_behaviour([x], [y])), -1)
            ctx.violation(f"equivalent-hints-behave-differently:{key}", f"{show(h1)} vs {show(h2)}: outcome #{i}: {b1[i] if i >= 0 else None!r:.200} vs {b2[i] if i >= 0 else None!r:.200}", info)
        p1, p2 = attempt(create_loc_stack_checker, h1), attempt(create_loc_stack_checker, h2)
        if not predicates:
            # as a *predicate* a bare generic matches every parametrisation while a parametrised one matches exactly (predicate system, C10)
            ctx.count("predicate_comparison_skipped_bare_generic")
        elif p1.kind == "ok" and p2.kind == "ok":
            for probe in (h1, h2, int, List[int], Optional[int]):
                st = LocStack(TypeHintLoc(type=probe))
                if p1.value.check_loc_stack(None, st) != p2.value.check_loc_stack(None, st):
                    ctx.violation(f"equivalent-hints-differ-as-predicates:{key}", f"{show(h1)} vs {show(h2)} on {show(probe)}", info)
                    break
        elif p1.kind != p2.kind:
            ctx.count("predicate_creation_differs")   # parametrised generics are refused as predicates by design; spelling may change that


def _rule_key(h1, h2, e):
    c = canon(e)
    return c[0] if c[0] != "gen" else f"gen:{c[1]}"


def check_different(ctx, e, e2, h1, h2):
    if canon(e) == canon(e2):
        ctx.count("edit_did_not_change_meaning")
        return
    n1, n2 = attempt(normalize_type, h1), attempt(normalize_type, h2)
    ctx.evaluated(("differ", show(h1), show(h2)), nontrivial=True)
    ctx.count("different_pairs")
    if n1.kind == "ok" and n2.kind == "ok" and n1.value == n2.value:
        ctx.violation(f"different-hints-collapse:{_rule_key(h1, h2, e)}", f"{show(h1)} and {show(h2)} denote different types but normalise to the same form {n1.value!r:.200}",
                      {"hint_a": show(h1), "hint_b": show(h2)})


def run_case(ctx, rng, idx):
    use = Use(ctx)
    for j in range(25):
        e = gen(rng, rng.choice([1, 2, 2, 3]))
        plain = render(e, rng, Use(None), plain=True)
        use.bare = False
        try:
            v1 = render(e, rng, use)
            v2 = render(e, rng, use)
        except TypeError:
            ctx.count("render_type_error")
            continue
        if idx < 1 and j < 2:
            ctx.sample({"meaning": repr(canon(e))[:200], "plain": show(plain), "rewritten": [show(v1), show(v2)]})
        check_equivalent(ctx, e, plain, v1, idx * 25 + j, predicates=not use.bare)
        check_equivalent(ctx, e, v1, v2, idx * 25 + j + 1, predicates=not use.bare)
        e2 = edit(e, rng, use)
        if e2 is not None:
            try:
                check_different(ctx, e, e2, v1, render(e2, rng, Use(None)))
            except TypeError:
                ctx.count("render_type_error")


def _directed(ctx):
    L = Literal
    pairs_equal = [
        (Union[int, str], Union[str, int]), (Optional[int], Union[None, int]), (Union[int, Union[str, None]], Union[int, str, None]), (List[int], list[int]),
        (List, List[Any]), (Dict, Dict[Any, Any]), (tuple, Tuple[Any, ...]), (L[1, 2], Union[L[1], L[2]]), (L[None], None), (GT, GT[Any]), (GB, GB[int]),
        (GC, GC[Union[str, bool]]), (typing.Sequence, typing.Sequence[Any]), (cabc.Iterable, cabc.Iterable[Any]), (typing.Mapping, typing.Mapping[Any, Any]), (Set, Set[Any]),
        (FrozenSet, FrozenSet[Any]), (typing.Collection, typing.Collection[Any]), (typing.AbstractSet, typing.AbstractSet[Any]),
        # equivalent spellings of one generic model inside a union collapse to the model (thorough-tier finding, repo fix 7eabfec)
        (GT[Any], Union[GT[Any], GT]), (Union[bytes, GT[Any], GT[bool]], Union[bytes, GT, GT[bool], GT[Any]]), (Set[Union[GT[Any], int]], Set[Union[GT, GT[Any], int]]),
        (GB[int], Union[GB, GB[int]]), (List[GT[Any]], List[Union[GT, GT[Any]]]),
        # members whose old sort keys collided or depended on the spelling (defect #53)
        (Union[list[L["1"]], list[L[1]]], Union[List[L[1]], List[L["1"]]]), (Union[Dict[str, L[True]], Dict[str, L["True"]]], Union[dict[str, L["True"]], dict[str, L[True]]]),
        (Union[typing.Callable[[List[int]], int], typing.Callable[[list[int]], str]], Union[typing.Callable[[list[int]], int], typing.Callable[[List[int]], str]]),
    ]
    # members whose sort TEXT is the same: classes made by a factory, enums / NewTypes / type variables named alike (defect #61)
    import enum as _enum  # noqa: PLC0415
    from dataclasses import make_dataclass  # noqa: PLC0415

    A1, A2 = make_dataclass("Same", [("x", int)]), make_dataclass("Same", [("y", int)])
    E1, E2 = _enum.Enum("Color", "RED"), _enum.Enum("Color", "RED")
    N1, N2 = typing.NewType("UserId", int), typing.NewType("UserId", int)
    pairs_equal += [(List[Union[A1, A2]], list[Union[A2, A1]]), (Dict[str, Union[List[A1], List[A2]]], dict[str, Union[list[A2], list[A1]]]),
                    (List[L[E1.RED, E2.RED]], list[L[E2.RED, E1.RED]]), (List[Union[N1, N2]], list[Union[N2, N1]]),
                    (Union[A1, A2, None], Optional[Union[A2, A1]])]
    for a, b in pairs_equal:
        check_equivalent(ctx, ("leaf", a), a, b, 0, predicates=bool(typing.get_args(a)) or a is None)
    # members of two DIFFERENT enums that share class name, member name and value (Order.Status.NEW / User.Status.NEW) are different literals
    # (seeded change: literal equality compared the sort keys, which are texts)
    pairs_diff = [(L[0], L[False]), (Union[L[0], L[False]], L[0]), (L[0, False], L[0]), (L[1, True], L[True]), (Union[int, str], Union[int, bytes]), (List[int], List[bool]),
                  (L[E1.RED], L[E2.RED]), (List[L[E1.RED, "x"]], List[L[E2.RED, "x"]]), (Union[L[E1.RED], L[E2.RED]], L[E1.RED]), (Dict[str, L[E1.RED]], Dict[str, L[E2.RED]])]
    for a, b in pairs_diff:
        n1, n2 = normalize_type(a), normalize_type(b)
        ctx.evaluated(("directed-differ", show(a), show(b)))
        ctx.count("different_pairs")
        if n1 == n2:
            ctx.violation("different-hints-collapse:literal-bool-int" if "Literal" in show(a) else "different-hints-collapse:other", f"{show(a)} and {show(b)} normalise to the same form {n1!r}", {})
    # Union[Literal[0], Literal[False]] must keep both members: loading False must work
    for d in (0, False):
        out = attempt(Retort().load, d, Union[L[0], L[False]])
        if out.kind != "ok" or not strict_eq(out.value, d):
            ctx.violation("different-hints-collapse:literal-bool-int", f"load({d!r}, Union[Literal[0], Literal[False]]) -> {out!r}", {})


def _string_bounds_across_modules(ctx):
    """'Bare generics receive ... the bound': a string bound is a name in the module that DEFINES the type variable, also when the
    generic class that uses it lives in another module (which may not know the name, or bind it to something else)."""
    import sys  # noqa: PLC0415
    import types as _types  # noqa: PLC0415

    def module(name, src, **extra):
        mod = _types.ModuleType(name)
        mod.__dict__.update(extra)
        sys.modules[name] = mod
        exec(compile(src, f"<{name}>", "exec", dont_inherit=True), mod.__dict__)  # noqa: S102
        return mod
    x = module("vlib_c15_x", "from dataclasses import dataclass\nfrom typing import TypeVar, List\n@dataclass\nclass Payload:\n    n: int\n"
               "PayloadT = TypeVar('PayloadT', bound='Payload')\nListT = TypeVar('ListT', bound='List[Payload]')\nCT = TypeVar('CT', 'Payload', int)\n"
               # forward references NESTED in a bound / constraint that is not a string itself (defect #76)
               "from typing import Optional\nNestT = TypeVar('NestT', bound=Optional['Payload'])\nNestC = TypeVar('NestC', List['Payload'], int)\n")
    users = {
        "name-unbound-in-user-module": "",
        "name-bound-to-other-class": "@dataclass\nclass Payload:\n    other: str\n",
    }
    for label, extra_src in users.items():
        y = module(f"vlib_c15_y_{label.replace('-', '_')}", "from dataclasses import dataclass\nfrom typing import Generic\n" + extra_src
                   + "@dataclass\nclass Box(Generic[PayloadT]):\n    item: PayloadT\n@dataclass\nclass LBox(Generic[ListT]):\n    items: ListT\n"
                   "@dataclass\nclass CBox(Generic[CT]):\n    item: CT\n"
                   "@dataclass\nclass NBox(Generic[NestT]):\n    item: NestT\n@dataclass\nclass NCBox(Generic[NestC]):\n    item: NestC\n",
                   PayloadT=x.PayloadT, ListT=x.ListT, CT=x.CT, NestT=x.NestT, NestC=x.NestC)
        for bare, full, good, bad in ((y.Box, y.Box[x.Payload], {"item": {"n": 1}}, {"item": {"other": "s"}}),
                                      (y.NBox, y.NBox[Optional[x.Payload]], {"item": {"n": 1}}, {"item": {"other": "s"}}),
                                      (y.NCBox, y.NCBox[Union[typing.List[x.Payload], int]], {"item": [{"n": 1}]}, {"item": [{"other": "s"}]}),
                                      (y.LBox, y.LBox[typing.List[x.Payload]], {"items": [{"n": 1}]}, {"items": [{"other": "s"}]}),
                                      (y.CBox, y.CBox[Union[x.Payload, int]], {"item": {"n": 1}}, {"item": {"other": "s"}})):
            n1, n2 = attempt(normalize_type, bare), attempt(normalize_type, full)
            ctx.evaluated(("string-bound", label, bare.__name__), nontrivial=True)
            ctx.count("equivalent_pairs")
            info = {"case": label, "bare": show(bare), "explicit": show(full)}
            if n1.kind != "ok" or n2.kind != "ok":
                ctx.violation(f"normalisation-fails:{type(n1.exc or n2.exc).__name__}:string-bound", f"{label}: bare {bare.__name__} -> {n1!r:.200}; explicit -> {n2!r:.200}", info)
                continue
            if n1.value != n2.value or hash(n1.value) != hash(n2.value):
                ctx.violation("equivalent-hints-normalise-differently:string-bound", f"{label}: bare {bare.__name__} normalises to {n1.value!r:.200}, with its implicit parameter written out {n2.value!r:.200}", info)
                continue
            for hint in (bare, full):
                r = Retort()
                ok_, ko_ = attempt(r.load, good, hint), attempt(r.load, bad, hint)
                if ok_.kind != "ok" or ko_.kind == "ok":
                    ctx.violation("equivalent-hints-behave-differently:string-bound", f"{label}: {show(hint)}: conforming data -> {ok_!r:.150}, data for the other class -> {ko_!r:.150}", info)
                    break


def _forward_refs_aliases_metadata(ctx):
    """Spellings outside the generated grammar that denote the same type: a ForwardRef that names its module the way `typing` does
    (defect #75), union members that differ only in Annotated metadata with one repr() (defect #78), a bare PEP 695 generic alias and
    the alias with its implicit parameters (defect #77; their NORMAL FORMS differ by a decision the test-suite pins: known finding)."""
    import sys  # noqa: PLC0415
    from dataclasses import field  # noqa: PLC0415
    from typing import Annotated, ForwardRef  # noqa: PLC0415

    def fr(name="int", module="builtins"):
        return ForwardRef(name, module=module)
    for a, b in ((fr(), int), (List[fr()], List[int]), (Optional[fr()], Optional[int]), (Dict[str, fr()], dict[str, int]), (Union[fr(), str], Union[str, int]),
                 (List[fr("Decimal", "decimal")], list[Decimal]), (fr("GT", __name__), GT), (Tuple[fr("GB", __name__), int], tuple[GB[int], int])):
        check_equivalent(ctx, ("leaf", b), a, b, 0)

    @dataclass(frozen=True)
    class Meta:
        name: str = field(repr=False)
    A1, A2, A3 = Annotated[int, Meta("x")], Annotated[int, Meta("y")], Annotated[int, Meta("z")]
    for a, b in ((Union[A1, A2, List[int]], Union[A2, A1, list[int]]), (List[Union[A1, A2]], list[Union[A2, A1]]), (Dict[str, Union[A3, A1, A2]], dict[str, Union[A2, A3, A1]]),
                 (Union[A3, A2, A1, None], Optional[Union[A1, A2, A3]])):
        check_equivalent(ctx, ("leaf", a), a, b, 0)
    if sys.version_info >= (3, 12):
        ns = {}
        exec("type AL[T] = list[T]\ntype AB[T: int] = dict[str, T]\ntype AC[K: (int, str), V] = dict[K, V]", ns)  # noqa: S102
        for bare, full in ((ns["AL"], ns["AL"][Any]), (ns["AB"], ns["AB"][int]), (ns["AC"], ns["AC"][Union[int, str], Any])):
            ctx.evaluated(("bare-generic-alias", show(bare)), nontrivial=True)
            ctx.count("equivalent_pairs")
            info = {"bare": show(bare), "explicit": show(full)}
            b1, b2 = behaviour(bare), behaviour(full)
            ctx.count("behaviour_comparisons")
            if not same_behaviour(b1, b2):
                i = next((i for i, (p, q) in enumerate(zip(b1, b2)) if not same_behaviour([p], [q])), -1)
                ctx.violation("equivalent-hints-behave-differently:bare-generic-alias", f"{show(bare)} vs {show(full)}: outcome #{i}: {b1[i] if i >= 0 else None!r:.200} vs {b2[i] if i >= 0 else None!r:.200}", info)
            n1, n2 = attempt(normalize_type, bare), attempt(normalize_type, full)
            if n1.kind != "ok" or n2.kind != "ok" or n1.value != n2.value:
                ctx.violation("equivalent-hints-normalise-differently:bare-generic-alias", f"{show(bare)} normalises to {n1!r:.160}, {show(full)} to {n2!r:.160}", info)


def _type_variables_in_pipe_unions(ctx):
    """`list[T] | None` (a types.UnionType) and Optional[list[T]] (typing.Union) mention the same type variables: the tools every provider
    and predicate is built on give the same answers for both spellings (seeded change: UnionType objects reported no type variables)."""
    import sys  # noqa: PLC0415
    if sys.version_info < (3, 10):
        return
    try:
        from adaptix._internal.type_tools import is_generic  # noqa: PLC0415
        from adaptix._internal.type_tools.basic_utils import get_type_vars_of_parametrized  # noqa: PLC0415
        from adaptix._internal.type_tools.fundamentals import get_type_vars  # noqa: PLC0415
    except ImportError:
        ctx.count("internal_helpers_moved")     # helpers below the observation point of the property: their absence decides nothing
        return
    K = TypeVar("K")
    for pipe, classic in ((list[T] | None, Optional[list[T]]), (dict[K, T] | list[T], Union[dict[K, T], list[T]]), (list[int] | None, Optional[list[int]]), (tuple[T, ...] | set[T] | None, Union[tuple[T, ...], set[T], None])):
        ctx.evaluated(("pipe-union-type-vars", show(pipe)), nontrivial=True)
        ctx.count("equivalent_pairs")
        for fn in (get_type_vars, get_type_vars_of_parametrized, is_generic, lambda h: attempt(create_loc_stack_checker, h).kind, lambda h: attempt(normalize_type, h).kind):
            a, b = attempt(fn, pipe), attempt(fn, classic)
            va = set(a.value) if a.kind == "ok" and isinstance(a.value, tuple) else (a.value if a.kind == "ok" else a.kind)
            vb = set(b.value) if b.kind == "ok" and isinstance(b.value, tuple) else (b.value if b.kind == "ok" else b.kind)
            if va != vb:
                ctx.violation("equivalent-hints-differ:type-variables-of-a-pipe-union", f"{getattr(fn, '__name__', 'probe')}({show(pipe)}) = {va!r}, for {show(classic)} = {vb!r}", {"pipe": show(pipe)})


DIRECTED = {"type-variables-in-pipe-unions": _type_variables_in_pipe_unions, "documented-equivalences": _directed, "string-bounds-across-modules": _string_bounds_across_modules,
            "forward-refs-aliases-metadata": _forward_refs_aliases_metadata}
from ..suite_leg import make as _suite_leg  # noqa: E402

DIRECTED["suite-under-monitors"] = _suite_leg("C15")

