"""C09 - recipe resolution is first-match in recipe order; chaining composes exactly once.

Two monitors: (a) the router trace monitor (vlib/monitors/router.py) checks every route_handler call of
every workload below against the linear chain-of-responsibility specification; (b) black-box marker
loaders with an invocation log are compared with a small reference interpreter of the recipe."""
from __future__ import annotations

import collections.abc as cabc
import itertools
import typing
from dataclasses import dataclass
from typing import Dict, List, Protocol, runtime_checkable

from adaptix import CannotProvide, Chain, DebugTrail, P, Retort, bound, dumper, loader
from adaptix._internal.morphing.provider_template import LoaderProvider

from ..adx import attempt
from ..eq import strict_eq
from ..monitors import router as RM


@runtime_checkable
class HasUpper(Protocol):
    def upper(self): ...


@dataclass
class Box:
    a: str
    b: str
    n: int


@dataclass(frozen=True)
class Site:
    """Last location of a request: type, field id (if a field), owner model (if a field)."""
    tp: typing.Any
    field: typing.Optional[str] = None
    owner: typing.Any = None


SIZED = (str, List[str], Dict[str, str])

# predicate forms: name -> (adaptix predicate, reference truth on a Site)
PREDS = {
    "str": (str, lambda s: s.tp is str),
    "int": (int, lambda s: s.tp is int),
    "Sized(abc)": (cabc.Sized, lambda s: s.tp in SIZED),
    "HasUpper(proto)": (HasUpper, lambda s: s.tp is str),
    "'a'": ("a", lambda s: s.field == "a"),
    "'a|b'(re)": ("a|b", lambda s: s.field in ("a", "b")),
    "P[Box].a": (P[Box].a, lambda s: s.field == "a" and s.owner is Box),
    "~P[int]": (~P[int], lambda s: s.tp is not int),
    "ANY": (P.ANY, lambda s: True),
    "ANY&~str": (P.ANY & ~P[str], lambda s: s.tp is not str),
    "Box": (Box, lambda s: s.tp is Box),
    "List[str]": (List[str], lambda s: s.tp == List[str]),
    "None": (None, lambda s: s.tp is None),
}
KINDS = ("plain", "FIRST", "LAST", "decline")


class Fail(Exception):
    pass


class NoLoader(Exception):
    """Reference: nothing in the recipe or among the builtin providers serves the request."""


class Unservable:
    """A class no builtin provider makes a loader for."""
    __slots__ = ()

    def __init__(self, *args):
        pass


UNSERVABLE = ("Undefined", typing.ForwardRef("Undefined"), Unservable)


class Log:
    def __init__(self):
        self.calls = []
        self.consults = []


class Declining(LoaderProvider):
    def __init__(self, tag, log):
        self.tag, self.log = tag, log

    def provide_loader(self, mediator, request):
        self.log.consults.append(self.tag)
        raise CannotProvide


@dataclass
class Prov:
    pred: str
    kind: str
    tag: str

    def func(self, log):
        tag = self.tag

        def marker(x):
            log.calls.append(tag)
            return f"{tag}({x!r})" if not isinstance(x, str) else f"{tag}({x})"
        return marker

    def provider(self, log):
        pred = PREDS[self.pred][0]
        if self.kind == "decline":
            return bound(pred, Declining(self.tag, log))
        chain = {"plain": None, "FIRST": Chain.FIRST, "LAST": Chain.LAST}[self.kind]
        return loader(pred, self.func(log), chain)

    def matches(self, site):
        return PREDS[self.pred][1](site)

    def __repr__(self):
        return f"{self.kind}:{self.pred}#{self.tag}"


# ---- reference interpreter of the chain of responsibility (strict coercion, first error aborts) -----------
def ref_loader(recipe, site, log):
    def resolve(i):
        for j in range(i, len(recipe)):
            p = recipe[j]
            if not p.matches(site):
                continue
            if p.kind == "decline":
                log.consults.append(p.tag)
                continue
            f = p.func(log)
            if p.kind == "plain":
                return f
            nxt = resolve(j + 1)   # NoLoader: the continuation consulted every later provider once and none serves -> nothing serves
            if p.kind == "FIRST":
                return lambda x, f=f, nxt=nxt: nxt(f(x))
            return lambda x, f=f, nxt=nxt: f(nxt(x))
        return builtin()

    def builtin():
        tp = site.tp
        if tp is str:
            def ld(x):
                if type(x) is not str:
                    raise Fail
                return x
            return ld
        if tp is int:
            def ld(x):
                if type(x) is not int:
                    raise Fail
                return x
            return ld
        if tp == List[str]:
            el = ref_loader(recipe, Site(str), log)

            def ld(x):
                if isinstance(x, (str, cabc.Mapping)) or not isinstance(x, cabc.Iterable):
                    raise Fail
                return [el(v) for v in x]
            return ld
        if tp == Dict[str, str]:
            k = ref_loader(recipe, Site(str), log)
            v = ref_loader(recipe, Site(str), log)

            def ld(x):
                if not isinstance(x, cabc.Mapping):
                    raise Fail
                return {k(a): v(b) for a, b in x.items()}
            return ld
        if tp is Box:
            fa = ref_loader(recipe, Site(str, "a", Box), log)
            fb = ref_loader(recipe, Site(str, "b", Box), log)
            fn = ref_loader(recipe, Site(int, "n", Box), log)

            def ld(x):
                if not isinstance(x, cabc.Mapping):
                    raise Fail
                try:
                    return Box(fa(x["a"]), fb(x["b"]), fn(x["n"]))
                except KeyError:
                    raise Fail from None
            return ld
        if tp is None:
            def ld(x):
                if x is not None:
                    raise Fail
                return x
            return ld
        if any(tp is u or tp == u for u in UNSERVABLE):
            raise NoLoader
        raise AssertionError(tp)

    return resolve(0)


REQUESTS = [
    (str, "x"), (int, 5), (List[str], ["p", "q"]), (Dict[str, str], {"k": "v"}), (Box, {"a": "A", "b": "B", "n": 1}), (None, None),
    # request types that cannot be normalised / that nothing serves: only the recipe can serve them, the router must not guess
    ("Undefined", 7), (typing.ForwardRef("Undefined"), 7), (Unservable, 7),
]


def run_recipe(ctx, recipe, make_retort=None, label="plain"):
    """Runs every request type against `recipe`; compares adaptix (with marker logs) to the reference interpreter."""
    for tp, datum in REQUESTS:
        alog, rlog = Log(), Log()
        providers = [p.provider(alog) for p in recipe]
        retort = make_retort(providers) if make_retort else Retort(recipe=providers, debug_trail=DebugTrail.DISABLE)
        created = attempt(retort.get_loader, tp)
        try:
            ref = ref_loader(recipe, Site(tp), rlog)
        except NoLoader:
            ref = None
        matching = sum(1 for p in recipe if p.matches(Site(tp)))
        ctx.evaluated((label, repr(recipe), repr(tp)), nontrivial=matching >= 2 or len(recipe) >= 2)
        ctx.count("recipes_x_requests")
        info = {"recipe": repr(recipe), "request": repr(tp), "variant": label}
        if ref is None:
            ctx.count("unservable_requests")
            for v in RM.drain():
                ctx.violation(f"router:{v['kind']}", f"recipe {recipe} request {tp!r}: route {v['request']} returned handler #{v['got']}, linear first match is #{v['expected']}", {**info, **v})
            if created.kind == "ok":
                ctx.violation("unservable-request-served", f"recipe {recipe} request {tp!r}: no provider of the recipe serves it (linear semantics), adaptix made a loader; calls {alog.calls}", info)
            elif type(created.exc).__name__ != "ProviderNotFoundError":
                ctx.violation(f"loader-creation-failed:{type(created.exc).__name__}", f"recipe {recipe} request {tp!r}: {created.exc!r}", info)
            elif sorted(alog.consults) != sorted(rlog.consults):
                chained_before = any(p.kind in ("FIRST", "LAST") and p.matches(Site(tp)) for p in recipe)
                more_only = all(alog.consults.count(t) >= rlog.consults.count(t) for t in set(rlog.consults)) and set(alog.consults) == set(rlog.consults)
                key = "provider-consulted-again-after-failed-chain-continuation" if chained_before and more_only else _key(recipe, "declining-consults")
                ctx.violation(key, f"recipe {recipe} request {tp!r} (nothing serves it): declining providers consulted {sorted(alog.consults)}, once each would be {sorted(rlog.consults)}",
                              {**info, "adaptix_consults": alog.consults, "reference_consults": rlog.consults})
            continue
        if created.kind != "ok":
            ctx.violation(f"loader-creation-failed:{type(created.exc).__name__}", f"recipe {recipe} request {tp}: {created.exc!r}", info)
            continue
        got = attempt(created.value, datum)
        try:
            want = ("ok", ref(datum))
        except Fail:
            want = ("fail", None)
        if (got.kind == "ok") != (want[0] == "ok") or (got.kind == "ok" and not strict_eq(got.value, want[1])):
            ctx.violation(_key(recipe, "result"), f"recipe {recipe} request {tp}: adaptix {got!r}, linear semantics {want!r}; calls {alog.calls} vs {rlog.calls}",
                          {**info, "adaptix": repr(got), "reference": repr(want), "adaptix_calls": alog.calls, "reference_calls": rlog.calls})
        elif got.kind == "ok" and alog.calls != rlog.calls:
            ctx.violation(_key(recipe, "call-log"), f"recipe {recipe} request {tp}: marker calls {alog.calls}, linear semantics {rlog.calls}",
                          {**info, "adaptix_calls": alog.calls, "reference_calls": rlog.calls})
        elif sorted(alog.consults) != sorted(rlog.consults):
            ctx.violation(_key(recipe, "declining-consults"), f"recipe {recipe} request {tp}: declining providers consulted {sorted(alog.consults)}, linear semantics {sorted(rlog.consults)}",
                          {**info, "adaptix_consults": alog.consults, "reference_consults": rlog.consults})
        for v in RM.drain():
            ctx.violation(f"router:{v['kind']}", f"recipe {recipe} request {tp}: route {v['request']} returned handler #{v['got']}, linear first match is #{v['expected']}", {**info, **v})
    _forget_routers()      # every retort of this recipe is finished


def _forget_routers():
    RM.forget()


def _key(recipe, what):
    return f"{what}-differs-from-linear-chain"


def all_providers():
    return [(pred, kind) for pred in PREDS for kind in KINDS]


def recipe_from(combo):
    return [Prov(pred, kind, chr(ord("A") + i)) for i, (pred, kind) in enumerate(combo)]


def setup(ctx):
    RM.install()


def run_exhaustive(ctx):
    """All recipes of length <= 2 (quick) / <= 3 (thorough) over the provider alphabet, sharded by index."""
    alphabet = all_providers()
    max_len = 2 if ctx.tier == "quick" else 3
    i = 0
    for n in range(1, max_len + 1):
        for combo in itertools.product(alphabet, repeat=n):
            i += 1
            if i % ctx.nshards != ctx.shard:
                continue
            ctx.count("exhaustive_recipes")
            run_recipe(ctx, recipe_from(combo))
    ctx.count("alphabet_size", len(alphabet) if ctx.shard == 0 else 0)


def run_case(ctx, rng, idx):
    alphabet = all_providers()
    n = rng.choice([3, 3, 4, 5, 6, 8])
    recipe = recipe_from([rng.choice(alphabet) for _ in range(n)])
    if idx < 2:
        ctx.sample({"recipe": repr(recipe), "requests": [repr(t) for t, _ in REQUESTS]})
    variant = rng.choice(["plain", "extend", "extend", "replace", "subclass", "inner-retort", "inner-retort-clone"])
    ctx.count(f"variant_{variant}")
    if variant == "plain":
        run_recipe(ctx, recipe)
    elif variant == "extend":
        k = rng.randint(0, n)
        # extend() prepends: Retort(recipe=tail).extend(recipe=head) == Retort(recipe=head + tail)
        run_recipe(ctx, recipe, lambda provs, k=k: Retort(recipe=provs[k:], debug_trail=DebugTrail.DISABLE).extend(recipe=provs[:k]), "extend")
    elif variant == "replace":
        run_recipe(ctx, recipe, lambda provs: Retort(recipe=provs, debug_trail=DebugTrail.ALL, strict_coercion=False).replace(debug_trail=DebugTrail.DISABLE, strict_coercion=True), "replace")
    elif variant == "subclass":
        k = rng.randint(0, n)

        def mk(provs, k=k):
            class Base(Retort):
                recipe = provs[k:]

            class Sub(Base):
                recipe = provs[k // 2:k]
            return Sub(recipe=provs[:k // 2], debug_trail=DebugTrail.DISABLE)
        run_recipe(ctx, recipe, mk, "subclass")
    elif variant == "inner-retort-clone":
        # a retort that has ALREADY served as a provider is extended / replaced, and the clone is placed in another recipe:
        # the host is served from the clone's recipe and options, not from the original's (seeded change: memoised request handlers)
        k = rng.randint(0, n)

        def mk_clone(provs, k=k):
            original = Retort(recipe=provs[k:], debug_trail=DebugTrail.ALL, strict_coercion=False)
            Retort(recipe=[original])          # the original is placed in a recipe once (no request: the marker logs stay clean)
            clone = original.extend(recipe=provs[:k]).replace(debug_trail=DebugTrail.DISABLE, strict_coercion=True)
            return Retort(recipe=[clone], debug_trail=DebugTrail.ALL, strict_coercion=False)
        run_recipe(ctx, recipe, mk_clone, "inner-retort-clone")
    else:
        # a retort placed in a recipe serves matched requests from its own recipe and options: everything is served by `inner`
        run_recipe(ctx, recipe, lambda provs: Retort(recipe=[Retort(recipe=provs, debug_trail=DebugTrail.DISABLE)], debug_trail=DebugTrail.ALL, strict_coercion=False), "inner-retort")
    check_dumper_chain(ctx, rng)
    check_bound_inner_retort(ctx, rng)
    for _ in range(3):
        check_recursive_chain(ctx, rng)


def check_dumper_chain(ctx, rng):
    """Chain.FIRST / LAST direction for dumpers + first-match for plain dumpers."""
    calls = []

    def mk(tag):
        def f(x):
            calls.append(tag)
            return f"{tag}({x})"
        return f
    kinds = [rng.choice([None, Chain.FIRST, Chain.LAST]) for _ in range(3)]
    recipe = [dumper(str, mk("A"), kinds[0]), dumper(P.ANY & ~P[int], mk("B"), kinds[1]), dumper(str, mk("C"), kinds[2])]
    got = attempt(Retort(recipe=recipe).dump, "x", str)

    def ref(i, x):
        if i == 3:
            return x
        tag = "ABC"[i]
        if kinds[i] is None:
            return f"{tag}({x})"
        if kinds[i] is Chain.FIRST:
            return ref(i + 1, f"{tag}({x})")
        return f"{tag}({ref(i + 1, x)})"
    want = ref(0, "x")
    ctx.evaluated(("dumper-chain", tuple(map(repr, kinds))))
    ctx.count("dumper_chains")
    if got.kind != "ok" or got.value != want:
        ctx.violation("dumper-chain-differs-from-linear-chain", f"dumper chain {kinds}: adaptix {got!r}, linear semantics {want!r}", {"kinds": repr(kinds)})
    for v in RM.drain():
        ctx.violation(f"router:{v['kind']}", f"dumper chain {kinds}: {v}", v)


def check_bound_inner_retort(ctx, rng):
    """bound(Box, inner): Box requests (top level and inside a list) are served from inner's own recipe and options."""
    log_i, log_o = Log(), Log()
    inner_recipe = recipe_from([rng.choice(all_providers()) for _ in range(rng.randint(0, 3))])
    outer_recipe = recipe_from([rng.choice(all_providers()) for _ in range(rng.randint(0, 3))])
    inner = Retort(recipe=[p.provider(log_i) for p in inner_recipe], debug_trail=DebugTrail.DISABLE)
    outer = Retort(recipe=[bound(Box, inner), *[p.provider(log_o) for p in outer_recipe]], strict_coercion=False)
    datum = {"a": "A", "b": "B", "n": 1}
    got = attempt(outer.load, datum, Box)
    log_i.calls.clear()
    want = attempt(inner.load, datum, Box)
    ctx.evaluated(("bound-inner", repr(inner_recipe), repr(outer_recipe)))
    ctx.count("bound_inner_retorts")
    same = got.kind == want.kind and (got.kind != "ok" or strict_eq(got.value, want.value))
    if not same:
        ctx.violation("inner-retort-not-served-from-own-recipe", f"outer {outer_recipe} + bound(Box, inner {inner_recipe}): outer gives {got!r}, inner alone {want!r}",
                      {"inner": repr(inner_recipe), "outer": repr(outer_recipe)})
    RM.drain()


@dataclass
class RNode:
    v: int
    kids: List["RNode"]


@dataclass
class RLink:
    v: int
    next: typing.Optional["RLink"]


def _tree(rng, depth):
    return {"v": rng.randint(0, 9), "kids": [_tree(rng, depth - 1) for _ in range(rng.randint(1, 2) if depth > 0 else 0)]}


def _count_nodes(t):
    return 1 + sum(_count_nodes(k) for k in t["kids"])


def check_recursive_chain(ctx, rng):  # noqa: C901
    """Chain.FIRST / Chain.LAST on recursive types: the user function is composed exactly once at EVERY position the predicate
    matches - the top level, and each position where the type closes its cycle (seeded change: the recursion stub was bound to the
    un-chained continuation, so the function ran at the top level only)."""
    side = rng.choice(["load", "dump"])
    chain = rng.choice([Chain.FIRST, Chain.LAST])
    shape = rng.choice(["tree", "link"])
    calls = []

    def f(x):
        calls.append(1)
        return x
    if shape == "tree":
        model = RNode
        data = _tree(rng, rng.choice([1, 2, 3]))
        n_nodes = _count_nodes(data)
        pred_name, pred, per_root = rng.choice([("RNode", RNode, n_nodes), ("P[RNode].kids", P[RNode].kids, n_nodes), ("P[RNode].v", P[RNode].v, n_nodes), ("int", int, n_nodes)])
    else:
        model = RLink
        n = rng.choice([1, 2, 4])
        data = None
        for i in range(n):
            data = {"v": i, "next": data}
        pred_name, pred, per_root = rng.choice([("RLink", RLink, n), ("P[RLink].next", P[RLink].next, n), ("P[RLink].v", P[RLink].v, n)])
    root_name, hint, wrap, mult = rng.choice([
        ("model", model, lambda d: d, 1), ("List", List[model], lambda d: [d, d], 2), ("Dict", Dict[str, model], lambda d: {"k": d}, 1),
        ("Optional", typing.Optional[model], lambda d: d, 1), ("Tuple", typing.Tuple[model, int], lambda d: [d, 1], 1),
    ])
    expected = per_root * mult + (1 if pred is int and root_name == "Tuple" else 0)
    mk = loader if side == "load" else dumper
    retort = Retort(recipe=[mk(pred, f, chain)])
    plain = Retort()
    if side == "load":
        got, want = attempt(retort.load, wrap(data), hint), attempt(plain.load, wrap(data), hint)
    else:
        obj = plain.load(wrap(data), hint)
        got, want = attempt(retort.dump, obj, hint), attempt(plain.dump, obj, hint)
    ctx.evaluated(("recursive-chain", side, repr(chain), shape, pred_name, root_name, repr(data)[:80]), nontrivial=True)
    ctx.count("recursive_chains")
    info = {"side": side, "chain": repr(chain), "predicate": pred_name, "root": root_name, "data": repr(data)[:300]}
    if got.kind != "ok" or want.kind != "ok" or not strict_eq(got.value, want.value):
        ctx.violation("recursive-chain-result-differs", f"{side} {root_name} of {shape} with {pred_name} {chain}: {got!r:.200} vs plain {want!r:.200}", info)
    elif len(calls) != expected:
        ctx.violation("chained-function-not-applied-once-per-position:recursive", f"{side} {root_name}[{shape}] with {mk.__name__}({pred_name}, f, {chain}): f ran {len(calls)} times, "
                      f"the predicate matches {expected} positions of the datum", {**info, "calls": len(calls), "expected": expected})
    for v in RM.drain():
        ctx.violation(f"router:{v['kind']}", f"recursive chain {info}: {v}", v)


@dataclass
class XComment:
    text: str
    post: typing.Optional["XPost"] = None


@dataclass
class XPost:
    title: str
    comments: List[XComment]


def _inner_retort_recursion(ctx):
    """Known finding: a recursion cycle whose head is processed by the OUTER retort and whose second occurrence falls into a retort placed
    in the recipe (bound(Comment, inner)) gets a recursion stub from the inner retort's resolver that nobody ever binds."""
    data = {"title": "t", "comments": [{"text": "a", "post": {"title": "u", "comments": [{"text": "b"}]}}]}
    want = attempt(Retort().load, data, XPost)
    inner = Retort()
    outer = Retort(recipe=[bound(XComment, inner)])
    got = attempt(outer.load, data, XPost)
    ctx.evaluated(("inner-retort-recursion", "load"))
    ctx.count("bound_inner_retorts")
    if want.kind != "ok" or got.kind != "ok" or not strict_eq(got.value, want.value):
        ctx.violation("inner-retort-recursion-across-the-boundary", f"bound(Comment, inner) with Post.comments: List[Comment], Comment.post: Optional[Post]: outer.load gives {got!r:.200}, "
                      f"a single retort {want!r:.120}", {})
    RM.drain()


def _witness_combiner(ctx):
    run_recipe(ctx, [Prov("int", "FIRST", "A"), Prov("ANY&~str", "FIRST", "B")])
    run_recipe(ctx, [Prov("str", "FIRST", "A"), Prov("~P[int]", "FIRST", "B")])
    run_recipe(ctx, [Prov("str", "plain", "A"), Prov("int", "plain", "B"), Prov("str", "FIRST", "C"), Prov("ANY", "LAST", "D")])


DIRECTED = {"single-entry-exact-origin-combo": _witness_combiner, "inner-retort-recursion-across-the-boundary": _inner_retort_recursion}
from ..suite_leg import make as _suite_leg  # noqa: E402

DIRECTED["suite-under-monitors"] = _suite_leg("C09")



def teardown(ctx):
    ctx.count("router_routes", RM.STATS["routes"])
    ctx.count("router_frames", RM.STATS["frames"])
    ctx.count("router_chained_frames", RM.STATS["chained_frames"])
    ctx.count("router_stops", RM.STATS["stops"])
    ctx.count("routers_created", RM.STATS["routers"])
