"""C17 - all supported model kinds behave the same for the same logical model.

Monitor: six-way differential. One logical model (field names, types, defaults) is materialised as
dataclass, NamedTuple, TypedDict, attrs class, pydantic model and SQLAlchemy mapped class (+ a plain
__init__ class for loading); the same inputs, bad inputs and name_mapping recipes are run through every
kind and the field-wise views, dumps and error signatures are compared, up to the documented per-kind
limitations (capabilities below). Converters between every ordered pair of kinds must copy every field."""
from __future__ import annotations

import copy
import itertools
import typing

from adaptix import NameStyle, Retort, name_mapping
from adaptix.conversion import get_converter

from .. import models, spec
from ..adx import attempt, error_sig
from ..eq import strict_eq

KINDS = ["dataclass", "namedtuple", "typeddict", "attrs", "pydantic", "sqlalchemy"]
LOAD_ONLY = ["init"]
# documented per-kind limitations encoded as capabilities
HAS_DEFAULTS = {"dataclass", "namedtuple", "attrs", "pydantic", "init"}     # TypedDict: absent key stays absent; SQLAlchemy: column defaults apply at flush time


PRIVATE_OK = ("dataclass", "attrs", "typeddict", "init")     # NamedTuple forbids leading underscores; pydantic private attributes and SQLAlchemy columns are another concept


def gen_logical(rng, private=False):
    n = rng.randint(1, 6)
    pool = ["ident", "name", "tags", "score", "kind_", "flag", "count", "meta_info", "x1"]
    if private:
        pool += ["_hidden", "_p", "_x_y"]     # no double leading underscore: Python mangles such names inside a class body
    names = rng.sample(pool, n)
    if private and not any(nm.startswith("_") for nm in names):
        names[-1] = "_hidden"
    fields = []
    for i, nm in enumerate(names):
        node = models.portable_field_node(rng)
        if i == 0:
            node = spec.IntT()      # SQLAlchemy needs a scalar primary key
        if i > 0 and rng.random() < 0.2:
            # the most common default of all: Optional[...] = None (a default that is falsy / None must still BE a default in every kind)
            node = spec.UnionT([spec.IntT(), spec.NoneT()], hint=typing.Optional[int], src="Optional[int]")
            fields.append(models.FieldSpec(nm, node, "default", rng.choice([None, None, 0])))
        elif i > 0 and rng.random() < 0.45:
            req, d = models.default_for(rng, node)
            fields.append(models.FieldSpec(nm, node, req, d))
        else:
            fields.append(models.FieldSpec(nm, node))
    head, tail = fields[:1], fields[1:]
    tail.sort(key=lambda f: not f.required)
    fields = head + tail
    if private and rng.random() < 0.6:
        # keyword-only tail (dataclass kw_only / attrs kw_only / init *): the constructor call must use the parameter NAME,
        # which for attrs differs from the field id of a private attribute
        k = rng.randint(1, len(fields))
        for f in fields[len(fields) - k:]:
            f.kw_only = True
    return fields


def outer_key(name, style, trim=True):
    from ..layout import style_ref  # noqa: PLC0415

    k = name[:-1] if trim and name.endswith("_") and not name.endswith("__") else name
    return style_ref(k, style) if style is not None else k


def view_of(kind, node, obj):
    return node.view(obj)


def comparable(views, fields, present):
    """Field-wise views restricted to what every involved kind can represent: fields present in the input
    (absent optional fields are compared only between kinds that have constructor-time defaults)."""
    out = {}
    for kind, v in views.items():
        out[kind] = {f.name: v[f.name] for f in fields if f.name in present and f.name in v}
    return out


def run_case(ctx, rng, idx):  # noqa: C901, PLR0912, PLR0915
    private = rng.random() < 0.3
    fields = gen_logical(rng, private)
    if private:
        ctx.count("models_with_private_or_kw_only_fields")
    nodes = {}
    for kind in (PRIVATE_OK if private else KINDS + LOAD_ONLY):
        try:
            nodes[kind] = models.ModelT(kind, models.clone_fields(fields))
        except Exception as e:  # noqa: BLE001
            ctx.count(f"kind_build_failed_{kind}")
    ctx.count("logical_models")
    recipe_desc, recipe = "default", []
    style = None
    r = rng.random()
    if r < 0.3:
        style = rng.choice([NameStyle.CAMEL, NameStyle.UPPER_SNAKE, NameStyle.PASCAL, NameStyle.LOWER_KEBAB])
        recipe, recipe_desc = [name_mapping(name_style=style)], f"name_style={style.name}"
    elif r < 0.5:
        ren = {f.name: "K!" + f.name for f in rng.sample(fields, min(2, len(fields)))}
        recipe, recipe_desc = [name_mapping(map=ren)], f"map={ren}"
    elif r < 0.6:
        opt = [f.name for f in fields if not f.required]
        if opt:
            sk = rng.choice(opt)
            recipe, recipe_desc = [name_mapping(skip=[sk])], f"skip=[{sk}]"
    ctx.count(f"recipe_{recipe_desc.split('=')[0]}")
    desc = {"fields": [f"{f.name}:{f.node.src}:{f.req}" for f in fields], "recipe": recipe_desc}
    if idx < 2:
        ctx.sample(desc)

    def key_of(f):
        if recipe_desc.startswith("map=") and ("K!" + f.name) in recipe_desc:
            return "K!" + f.name
        return outer_key(f.name, style)
    skipped = recipe_desc[6:-1] if recipe_desc.startswith("skip=") else None
    # ---- inputs
    base = {}
    values = {}
    for f in fields:
        v = f.node.gen(rng)
        values[f.name] = v
        base[key_of(f)] = f.node.dump(v)
    inputs = [("full", base, {f.name for f in fields})]
    opt = [f for f in fields if not f.required]
    if opt:
        ab = rng.choice(opt)
        d = {k: v for k, v in base.items() if k != key_of(ab)}
        inputs.append((f"absent:{ab.name}", d, {f.name for f in fields} - {ab.name}))
    inputs.append(("extra-key", {**base, "__unknown__": 1}, {f.name for f in fields}))
    bad_inputs = []
    for f in rng.sample(fields, min(2, len(fields))):
        bad_inputs.append((f"ill:{f.name}", {**base, key_of(f): object if f.node.kind != "Dict" else 5}))
    # the first field is SQLAlchemy's autoincrement primary key, whose input is optional by that library's semantics
    reqs = [f for f in fields[1:] if f.required]
    if reqs:
        f = rng.choice(reqs)
        bad_inputs.append((f"missing:{f.name}", {k: v for k, v in base.items() if k != key_of(f)}))
    bad_inputs.append(("not-a-mapping", [1, 2]))
    if len(fields) >= 2:
        f1, f2 = fields[0], fields[-1]
        bad_inputs.append(("two-ill", {**base, key_of(f1): "bad!", key_of(f2): object}))
    retorts = {k: Retort(recipe=recipe) for k in nodes}
    loaders = {}
    for kind, node in nodes.items():
        ld = attempt(retorts[kind].get_loader, node.hint)
        if ld.kind != "ok":
            ctx.violation(f"loader-refused:{kind}:{type(ld.exc).__name__}", f"{kind}: loader creation failed for {desc}: {ld.exc!r} cause={getattr(ld.exc, '__cause__', None)!r:.300}", desc)
        else:
            loaders[kind] = ld.value
    # ---- loads of valid inputs: field-wise equal objects
    loaded = {}
    for label, datum, present in inputs:
        if skipped:
            present = present - {skipped}
        views = {}
        for kind, ld in loaders.items():
            out = attempt(ld, copy.deepcopy(datum))
            ctx.count("loads")
            if out.kind != "ok":
                ctx.violation(f"valid-input-rejected:{kind}", f"{kind} rejected {label} {datum!r}: {out!r:.300}", {**desc, "kind": kind, "datum": repr(datum)})
                continue
            views[kind] = view_of(kind, nodes[kind], out.value)
            if label == "full":
                loaded[kind] = out.value
        cmpv = comparable(views, fields, present)
        ref_kind = next(iter(cmpv), None)
        for kind, v in cmpv.items():
            ctx.evaluated((repr(desc), label, kind), nontrivial=kind != ref_kind)
            if not strict_eq(v, cmpv[ref_kind]):
                diff = next((n for n in v if not strict_eq(v[n], cmpv[ref_kind].get(n))), "?")
                ctx.violation(f"kinds-load-differently:{kind}", f"{label}: {kind} loaded {v!r}, {ref_kind} loaded {cmpv[ref_kind]!r} (field {diff})", {**desc, "datum": repr(datum)})
        # absent optional fields: kinds with constructor-time defaults must agree with each other (and with the declared default)
        for f in fields:
            if f.name in present or f.name == skipped and False:
                continue
            have = {k: v[f.name] for k, v in views.items() if k in HAS_DEFAULTS and f.name in v}
            want = f.make_default()
            for kind, v in have.items():
                if not strict_eq(v, want):
                    ctx.violation(f"absent-field-default-differs:{kind}", f"{label}: {kind} holds {v!r} for absent {f.name}, declared default {want!r}", {**desc, "datum": repr(datum)})
    # ---- omit_default: an object that holds its defaults dumps the same keys in every kind that has constructor-time defaults
    opt_names = [f.name for f in fields if not f.required]
    if opt_names:
        minimal = {k: v for k, v in base.items() if k not in {key_of(f) for f in fields if not f.required}}
        od_dumps = {}
        for kind in ("dataclass", "namedtuple", "attrs", "pydantic"):
            if kind not in loaders:
                continue
            obj = attempt(loaders[kind], copy.deepcopy(minimal))
            if obj.kind != "ok":
                continue
            out = attempt(Retort(recipe=[name_mapping(omit_default=True), *recipe]).dump, obj.value, nodes[kind].hint)
            ctx.count("omit_default_dumps")
            if out.kind == "ok":
                od_dumps[kind] = out.value
            else:
                ctx.violation(f"dump-failed:{kind}:{type(out.exc).__name__}", f"{kind}: omit_default dump failed: {out.exc!r}", desc)
        if od_dumps:
            ref_kind = next(iter(od_dumps))
            for kind, d in od_dumps.items():
                ctx.evaluated((repr(desc), "omit-default-dump", kind), nontrivial=kind != ref_kind)
                if not strict_eq(_norm_dump(d), _norm_dump(od_dumps[ref_kind])):
                    ctx.violation(f"kinds-dump-differently:omit_default:{kind}", f"omit_default=True, every optional field at its default: {kind} dumps {d!r}, {ref_kind} dumps {od_dumps[ref_kind]!r}", desc)
    # ---- dumps: equal data
    dumps = {}
    for kind, obj in loaded.items():
        if kind in LOAD_ONLY:
            continue
        out = attempt(retorts[kind].dump, obj, nodes[kind].hint)
        ctx.count("dumps")
        if out.kind != "ok":
            ctx.violation(f"dump-failed:{kind}:{type(out.exc).__name__}", f"{kind}: dump failed: {out.exc!r}", desc)
        else:
            dumps[kind] = out.value
    if dumps:
        ref_kind = next(iter(dumps))
        for kind, d in dumps.items():
            ctx.evaluated((repr(desc), "dump", kind), nontrivial=kind != ref_kind)
            if not strict_eq(_norm_dump(d), _norm_dump(dumps[ref_kind])):
                ctx.violation(f"kinds-dump-differently:{kind}", f"{kind} dumps {d!r}, {ref_kind} dumps {dumps[ref_kind]!r}", desc)
    # ---- same errors for the same bad input
    for label, datum in bad_inputs:
        sigs = {}
        for kind, ld in loaders.items():
            out = attempt(ld, copy.deepcopy(datum) if not isinstance(datum, list) else list(datum))
            ctx.count("bad_loads")
            if out.kind == "ok":
                sigs[kind] = ("accepted",)
            elif out.kind == "load_error":
                sigs[kind] = error_sig(out.exc)
            else:
                sigs[kind] = ("non-load-error", type(out.exc).__name__)
        if label.startswith("missing:") and next(f for f in fields if f.name == label[8:]).node.kind == "Optional":
            sigs.pop("sqlalchemy", None)     # a nullable column is an optional input by SQLAlchemy's own semantics
            ctx.count("sqlalchemy_nullable_column_optional")
        ref_kind = next(iter(sigs), None)
        for kind, s in sigs.items():
            ctx.evaluated((repr(desc), label, kind, "err"), nontrivial=kind != ref_kind)
            if s != sigs[ref_kind]:
                if kind == "pydantic" and s[0] in ("non-load-error", "accepted"):
                    ctx.count("pydantic_own_validation")     # the model's own constructor validates / coerces: documented limitation
                    continue
                ctx.violation(f"kinds-report-errors-differently:{kind}", f"{label} {datum!r:.200}: {kind} -> {s!r:.300}; {ref_kind} -> {sigs[ref_kind]!r:.300}", {**desc, "datum": repr(datum)})
    # ---- converters between every ordered pair of kinds copy every field
    pairs = list(itertools.permutations([k for k in KINDS if k in loaded], 2))
    for a, b in (pairs if ctx.tier == "thorough" else rng.sample(pairs, min(8, len(pairs)))):
        made = attempt(get_converter, nodes[a].hint, nodes[b].hint)
        ctx.count("converters")
        ctx.evaluated((repr(desc), "convert", a, b), nontrivial=True)
        if made.kind != "ok":
            ctx.violation(f"converter-refused:{a}->{b}:{type(made.exc).__name__}", f"get_converter({a}, {b}) failed: {made.exc!r} cause={getattr(made.exc, '__cause__', None)!r:.300}", desc)
            continue
        src_obj = nodes[a].construct(copy.deepcopy(values))      # every field present (an absent TypedDict key has no value to copy)
        out = attempt(made.value, src_obj)
        if out.kind != "ok":
            ctx.violation(f"converter-raises:{a}->{b}:{type(out.exc).__name__}", f"converter {a}->{b} raised {out.exc!r}", desc)
            continue
        va, vb = view_of(a, nodes[a], src_obj), view_of(b, nodes[b], out.value)
        if not strict_eq({k: vb.get(k) for k in va}, va):
            ctx.violation(f"converter-drops-or-changes-field:{a}->{b}", f"converter {a}->{b}: source {va!r}, result {vb!r}", desc)


def _norm_dump(d):
    if isinstance(d, dict):
        return {k: _norm_dump(v) for k, v in d.items()}
    if isinstance(d, (list, tuple)):
        return [_norm_dump(v) for v in d]
    return d


def _typed_dict_type_predicates(ctx):
    """name_mapping(only=[int]) on twin models: TypedDict keeps Required[...] / NotRequired[...] in its field types."""
    fields = [models.FieldSpec("ident", spec.IntT()), models.FieldSpec("name", spec.StrT()), models.FieldSpec("count", spec.IntT(), "default", 5)]
    outs = {}
    for kind in ("dataclass", "typeddict", "attrs"):
        node = models.ModelT(kind, models.clone_fields(fields))
        obj = node.construct({"ident": 1, "name": "n", "count": 2})
        outs[kind] = attempt(Retort(recipe=[name_mapping(only=[int])]).dump, obj, node.hint)
        ctx.evaluated(("directed-type-predicate", kind))
    ref = outs["dataclass"]
    for kind, o in outs.items():
        if o.kind != ref.kind or (o.kind == "ok" and not strict_eq(o.value, ref.value)):
            ctx.violation(f"type-predicate-differs:{kind}", f"name_mapping(only=[int]): dataclass dumps {ref!r}, {kind} dumps {o!r}", {})


DIRECTED = {"typeddict-notrequired-type-predicates": _typed_dict_type_predicates}
