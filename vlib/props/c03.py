"""C03 - generated model loaders/dumpers honour the configured outer layout exactly.

Monitor: every generated (model, name_mapping recipe) program is run on inputs derived from the reference
dump (each mapped key present / absent / ill-typed, each container node of the wrong kind, extra keys
present) and compared with the reference model of the documentation in vlib/layout.py."""
from __future__ import annotations

import collections
import copy
import dataclasses
import types
import typing

from adaptix import NameStyle, ProviderNotFoundError

from .. import layout as L, models, spec
from ..adx import MODES, attempt, error_nodes, make_retort, mode_name
from ..eq import strict_eq

# ab1cd_field / x2y_z: a digit INSIDE a word starts no new word (defect #94: str.title capitalised the letter after it)
NAMES = ["a", "b_", "c_d", "long_name_x", "e1", "from_", "x__", "http_url", "q", "item_list", "v2_beta", "my_ab1cd_field", "x2y_z"]
STYLES = list(NameStyle)
EXTRA_KEYS = ["zz1", "__extra__", "Zz", "unknown key"]


def field_node(rng):
    r = rng.random()
    if r < 0.12:
        # types whose dumped form differs from the value (omit_default has to compare the VALUE with the default)
        return rng.choice([lambda: spec.SCALAR_BY_KIND["date"], lambda: spec.SCALAR_BY_KIND["UUID"], lambda: spec.SCALAR_BY_KIND["bytes"], lambda: spec.EnumT(spec.EInt),
                           lambda: spec.IterT("List", spec.SCALAR_BY_KIND["date"])])()
    if r < 0.45:
        return spec.IntT()
    if r < 0.7:
        return spec.StrT()
    if r < 0.85:
        return spec.IterT("List", spec.IntT())
    return spec.UnionT([spec.IntT(), spec.NoneT()], hint=typing.Optional[int], src="Optional[int]")


def ill_typed(node):
    return {"int": "bad", "str": 5, "List": 7, "Optional": "bad"}.get(node.kind, object)


def gen_fields(rng, kind):
    n = rng.randint(1, 6)
    names = rng.sample(NAMES, n)
    fields = []
    for nm in names:
        node = field_node(rng)
        if rng.random() < 0.45:
            req, dflt = models.default_for(rng, node)
            if kind == "typeddict":
                fields.append(models.FieldSpec(nm, node, "default", None))   # NotRequired key, no default
            else:
                fields.append(models.FieldSpec(nm, node, req, dflt))
        else:
            fields.append(models.FieldSpec(nm, node))
    fields.sort(key=lambda f: not f.required)
    return fields


_CUR_KIND = [None]


def _pred(rng, f, fields):
    r = rng.random()
    if _CUR_KIND[0] == "typeddict" and r >= 0.85:
        # adaptix keeps Required[...] / NotRequired[...] in TypedDict field types, so class predicates do not see the wrapped type
        # (recorded under C17: the kinds differ); C03 keeps to predicates whose meaning is the same for every kind
        r = 0.0
    if r < 0.6:
        return L.Pred("id", f.name)
    if r < 0.85:
        return L.Pred("re", f.name[0] + ".*") if len(f.name) > 1 else L.Pred("id", f.name)
    return L.Pred("type", f.node.hint) if f.node.kind in ("int", "str") else L.Pred("id", f.name)


def _upper(shape, fld):
    return fld.id.upper() + "!"


def _upper_ref(f):
    return f.name.upper() + "!"


def gen_nm(rng, fields, *, allow_extras, ctx, extra_field=None, list_ok=True, as_list_ok=True):  # noqa: C901, PLR0912
    nm = L.NM()
    if rng.random() < 0.45:
        nm.name_style = rng.choice(STYLES)
        ctx.count("opt_name_style")
    if rng.random() < 0.3:
        nm.trim_trailing_underscore = rng.random() < 0.5
        ctx.count("opt_trim")
    if rng.random() < 0.25:
        nm.skip = [_pred(rng, f, fields) for f in rng.sample(fields, rng.randint(0, min(2, len(fields))))]
        ctx.count("opt_skip")
    if rng.random() < 0.2:
        nm.only = [_pred(rng, f, fields) for f in rng.sample(fields, rng.randint(1, len(fields)))]
        ctx.count("opt_only")
    if rng.random() < 0.4:
        nm.omit_default = rng.choice([True, False, [_pred(rng, f, fields) for f in rng.sample(fields, 1)]])
        ctx.count("opt_omit_default")
    if list_ok and as_list_ok and rng.random() < 0.12:
        nm.as_list = True
        ctx.count("opt_as_list")
    entries = []
    used_idx = iter(rng.sample(range(8), 8) + list(range(8, 40)))
    for f in fields:
        if rng.random() < 0.4:
            choices = ["K_" + f.name, ("grp", ...), ("grp", "sub", "K2" + f.name), ..., None, ("w", ..., "in"), "weird key '\"{}"]
            if list_ok and f.required:
                choices += [("lst", next(used_idx)), ("grp", "arr", next(used_idx))]
            res = rng.choice(choices)
            form = rng.random()
            if form < 0.5:
                if entries and entries[-1][0] == "dict" and rng.random() < 0.7:
                    entries[-1][1][f.name] = res
                else:
                    entries.append(("dict", {f.name: res}))
            elif form < 0.9:
                entries.append(("pair", _pred(rng, f, fields), res))
            else:
                entries.append(("func", L.Pred("id", f.name), _upper, _upper_ref))
    if entries:
        nm.map = entries
        ctx.count("opt_map")
    if allow_extras and rng.random() < 0.45:
        opts = ["forbid", "forbid", "skip", ("saturator", _saturator)]
        if extra_field:
            opts += [("fields", [extra_field])] * 2
        nm.extra_in = rng.choice(opts)
        ctx.count("opt_extra_in")
    if allow_extras and rng.random() < 0.3:
        opts = ["skip", ("extractor", _extractor, _extractor)]
        if extra_field:
            opts += [("fields", [extra_field])] * 2
        nm.extra_out = rng.choice(opts)
        ctx.count("opt_extra_out")
    return nm


SATURATED = []


def _saturator(obj, extra):
    SATURATED.append((obj, dict(extra)))


def _extractor(obj):
    return {"ext!": 1}


def gen_program(rng, ctx):
    kind = rng.choice(["dataclass"] * 5 + ["namedtuple", "attrs", "typeddict", "pydantic"])
    _CUR_KIND[0] = kind
    for _ in range(30):
        fields = gen_fields(rng, kind)
        extra_field = None
        if rng.random() < 0.35 and kind in ("dataclass", "attrs"):
            extra_field = "extra_data"
            fields.append(models.FieldSpec(extra_field, spec.DictT("Dict", spec.StrT(), spec.AnyT()), "factory", dict))
        recipe = [gen_nm(rng, fields, allow_extras=True, ctx=ctx, extra_field=extra_field, as_list_ok=kind != "typeddict") for _ in range(rng.choice([1, 1, 2, 3]))]
        lay = L.resolve(fields, recipe)
        if lay.invalid:
            ctx.count("gen_invalid_layout_retry")
            continue
        if not any(p is not None for p in lay.paths_in.values()) or not any(p is not None for p in lay.paths_out.values()):
            continue   # a model without any presented field: the shape of the empty root is not documented
        # collecting extras + list nodes, optional field on a list index: documented refusals, keep a few, mostly retry
        if lay.problems_in and rng.random() < 0.7:
            continue
        if isinstance(lay.extra_out, tuple) and any(isinstance(el, int) for p in lay.paths_out.values() if p for el in p[:1]):
            continue   # merging extras into a list root is meaningless
        return kind, fields, recipe, lay
    return None


def variations(rng, lay, full):
    """(label, datum) inputs derived from the full reference dump."""
    out = [("full", full)]
    fb = {f.name: f for f in lay.fields}
    paths = {n: p for n, p in lay.paths_in.items() if p is not None}

    def setp(d, path, value, delete=False):
        d = copy.deepcopy(d)
        cur = d
        for el in path[:-1]:
            cur = cur[el]
        if delete:
            if isinstance(cur, dict):
                cur.pop(path[-1], None)
            else:
                del cur[path[-1]:]
        else:
            cur[path[-1]] = value
        return d

    for name, p in paths.items():
        try:
            out.append((f"absent:{name}", setp(full, p, None, delete=True)))
            out.append((f"ill:{name}", setp(full, p, ill_typed(fb[name].node))))
        except (KeyError, IndexError, TypeError):
            pass
    branches = {p[:i] for p in paths.values() for i in range(1, len(p))}
    for b in branches:
        for lbl, repl in [("list", []), ("dict", {}), ("int", 5), ("str", "s"), ("none", None), ("intkeyed", {0: 1, 1: 2})]:
            try:
                out.append((f"branch{list(b)}->{lbl}", setp(full, b, repl)))
            except (KeyError, IndexError, TypeError):
                pass
        try:
            sub = full
            for el in b:
                sub = sub[el]
            if isinstance(sub, dict):
                out.append((f"extra@{list(b)}", setp(full, (*b, rng.choice(EXTRA_KEYS)), 1)))
            elif isinstance(sub, list):
                out.append((f"extra-item@{list(b)}", setp(full, b, [*sub, 99])))
                out.append((f"tuple@{list(b)}", setp(full, b, tuple(sub))))
        except (KeyError, IndexError, TypeError):
            pass
    if isinstance(full, dict):
        for k in rng.sample(EXTRA_KEYS, 2):
            out.append((f"extra@root:{k}", {**copy.deepcopy(full), k: [1, {"n": 2}]}))
        out.append(("extra@root:2", {**copy.deepcopy(full), "zz1": 1, "Zz": None}))
        out.append(("OrderedDict", collections.OrderedDict(copy.deepcopy(full))))
        out.append(("mappingproxy", types.MappingProxyType(copy.deepcopy(full))))
    elif isinstance(full, list):
        out.append(("extra-item@root", [*copy.deepcopy(full), 99]))
        out.append(("tuple-root", tuple(copy.deepcopy(full))))
        out.append(("short-root", copy.deepcopy(full)[:-1]))
    for lbl, repl in [("root->list", []), ("root->dict", {}), ("root->int", 5), ("root->str", "abc"), ("root->none", None)]:
        out.append((lbl, repl))
    # pairs of variations
    singles = out[1:]
    return out


expected_load = L.expected_load


def check_program(ctx, rng, kind, fields, recipe, lay, modes):  # noqa: C901, PLR0912, PLR0915
    model = models.ModelT(kind, fields)
    use_pred = rng.random() < 0.7
    providers = [nm.provider(model.cls) if use_pred else nm.provider() for nm in recipe]
    desc = {"model": model.src, "recipe": [nm.describe() for nm in recipe], "paths_in": {k: repr(v) for k, v in lay.paths_in.items()}}
    x = model.gen(rng)
    if isinstance(lay.extra_out, tuple) and lay.extra_out[0] == "fields":
        for name in lay.extra_out[1]:
            setattr(x, name, {"ext_k": 1, "ext_j": [2]})
    if isinstance(lay.extra_in, tuple) and lay.extra_in[0] == "fields" and not isinstance(lay.extra_out, tuple):
        for name in lay.extra_in[1]:
            if name in model.view(x):
                setattr(x, name, {})
    if kind == "typeddict":
        lay.omit = {k: False for k in lay.omit}   # NotRequired keys have no default, so there is nothing omit_default could compare with
    sieved = any(lay.omit.values())
    for dt, sc in modes:
        r = make_retort(dt, sc, providers)
        # ---- dumper
        dumper = attempt(r.get_dumper, model.hint)
        if dumper.kind != "ok":
            ctx.violation(f"dumper-refused:{type(dumper.exc).__name__}", f"dumper creation failed for a valid layout: {dumper.exc!r} cause={getattr(dumper.exc, '__cause__', None)!r:.300}", desc)
        else:
            got = attempt(dumper.value, x)
            ref = L.ref_dump(lay, model, x)
            ctx.evaluated(("dump", model.src, repr(desc["recipe"]), repr(x)[:200], dt.name), nontrivial=True)
            ctx.count("dumps")
            ok = got.kind == "ok" and (strict_eq(got.value, ref) or (sieved and strict_eq(L.prune_empty(got.value), L.prune_empty(ref))))
            if not ok and got.kind == "ok" and sieved:
                alt = L.ref_dump(lay, model, x, omit_on_dumped=True)
                if strict_eq(got.value, alt) or strict_eq(L.prune_empty(got.value), L.prune_empty(alt)):
                    ctx.violation("omit-default-compares-dumped-value", f"omit_default: adaptix {got!r}, documented {ref!r}: a field whose value equals its default is kept "
                                  f"(or one that differs is dropped) because the DUMPED value is compared with the raw default [{mode_name(dt, sc)}]",
                                  {**desc, "x": repr(x), "adaptix": repr(got), "reference": repr(ref), "mode": mode_name(dt, sc)})
                    ok = True
            if not ok:
                ctx.violation(_dump_key(lay, got, ref), f"dump differs from the documented layout: adaptix {got!r}, reference {ref!r} [{mode_name(dt, sc)}]",
                              {**desc, "x": repr(x), "adaptix": repr(got), "reference": repr(ref), "mode": mode_name(dt, sc)})
        # ---- loader
        loader = attempt(r.get_loader, model.hint)
        if lay.problems_in:
            ctx.count("documented_loader_refusals")
            if loader.kind == "ok" and any("required field" in p for p in lay.problems_in):
                ctx.violation("loader-not-refused:skipped-required-field", f"loader created although {lay.problems_in}", desc)
            elif loader.kind != "ok" and not isinstance(loader.exc, ProviderNotFoundError):
                ctx.violation(f"loader-refusal-class:{type(loader.exc).__name__}", f"refusal is not ProviderNotFoundError: {loader.exc!r}", desc)
            continue
        if loader.kind != "ok":
            ctx.violation(f"loader-refused:{type(loader.exc).__name__}", f"loader creation failed for a valid layout: {loader.exc!r} cause={getattr(loader.exc, '__cause__', None)!r:.300}", desc)
            continue
        full_lay = L.Layout(lay.fields, lay.paths_in, lay.paths_in, {k: False for k in lay.omit}, lay.extra_in, "skip", lay.as_list)
        xfull = model.construct({f.name: (model.view(x)[f.name] if f.name in model.view(x) else f.make_default()) for f in fields}) if kind != "typeddict" else {
            f.name: (x[f.name] if f.name in x else f.node.gen(rng)) for f in fields}
        full = L.ref_dump(full_lay, model, xfull)
        for label, datum in variations(rng, lay, full):
            exp = expected_load(lay, model, datum, sc)
            SATURATED.clear()
            out = attempt(loader.value, datum)
            ctx.evaluated(("load", model.src, repr(desc["recipe"]), label, repr(datum)[:200], dt.name, sc), nontrivial=exp[0] != "unspec")
            ctx.count(f"expected_{exp[0]}")
            if exp[0] == "unspec":
                continue
            if exp[0] == "reject":
                if out.kind == "ok":
                    ctx.violation(f"accepts-rejectable:{_why_class(exp[1])}", f"loader accepted {datum!r} -> {out.value!r}; reference rejects ({exp[1]}) [{mode_name(dt, sc)}]",
                                  {**desc, "datum": repr(datum), "input": label, "adaptix": repr(out), "mode": mode_name(dt, sc)})
                elif out.kind == "load_error" and exp[1] == "unknown keys" and dt.name == "ALL":
                    _check_unknown_sets(ctx, lay, model, datum, sc, out.exc, desc)
                continue
            expected_obj, (extras, unknown) = exp[1], exp[2]
            if out.kind != "ok":
                if out.kind in ("exc", "impure"):
                    ctx.count("non_loaderror_on_acceptable")
                ctx.violation(f"rejects-acceptable:{label.split(':')[0].split('[')[0]}", f"loader rejected {datum!r} with {out!r}; reference loads {expected_obj!r} [{mode_name(dt, sc)}]",
                              {**desc, "datum": repr(datum), "input": label, "adaptix": repr(out), "mode": mode_name(dt, sc)})
                continue
            if not strict_eq(_strip(out.value), _strip(expected_obj)):
                key = f"wrong-object:{label.split(':')[0].split('[')[0]}"
                if isinstance(lay.extra_in, tuple) and lay.extra_in[0] == "fields" and _only_empty_branches_differ(lay, model, out.value, expected_obj):
                    key = "collected-extras-contain-known-branch-keys"
                ctx.violation(key, f"loaded {out.value!r}, reference {expected_obj!r} from {datum!r} [{mode_name(dt, sc)}]",
                              {**desc, "datum": repr(datum), "input": label, "adaptix": repr(out), "reference": repr(expected_obj), "mode": mode_name(dt, sc)})
            if isinstance(lay.extra_in, tuple) and lay.extra_in[0] == "saturator":
                want = [dict(extras or {})]
                have = [e for _, e in SATURATED]
                if have != want:
                    key = "saturator-extras"
                    if len(have) == 1 and _prune_known(lay, have[0]) == want[0]:
                        key = "collected-extras-contain-known-branch-keys"
                    ctx.violation(key, f"saturator received {have!r}, expected exactly one call with {want!r} [{mode_name(dt, sc)}]", {**desc, "datum": repr(datum)})


def _strip(obj):
    return obj


def _prune_known(lay, extras):
    """Removes from a collected-extras mapping the keys of known branches whose collected content is (recursively) empty."""
    root = L.tree(lay.paths_in, lay.as_list)

    def prune(br, d):
        out = {}
        for k, v in d.items():
            c = br.children.get(k) if isinstance(br, L.Branch) else None
            if isinstance(c, L.Branch) and isinstance(v, dict):
                sub = prune(c, v)
                if sub:
                    out[k] = sub
            else:
                out[k] = v
        return out
    return prune(root, dict(extras))


def _only_empty_branches_differ(lay, model, got, expected):
    try:
        g, e = model.view(got), model.view(expected)
        for name in lay.extra_in[1]:
            g = {**g, name: _prune_known(lay, g[name])}
        return strict_eq(g, e)
    except Exception:  # noqa: BLE001
        return False


def _why_class(why):
    return why.split(" ")[0] if not why.startswith("field") else "field"


def _dump_key(lay, got, ref):
    if got.kind != "ok":
        return f"dump-crash:{type(got.exc).__name__}"
    return "dump-layout-mismatch"


def _check_unknown_sets(ctx, lay, model, datum, sc, exc, desc):
    """ExtraForbid: exactly the unknown key set per dict node (ALL mode)."""
    # recompute the unknown map with the policy switched off
    lay2 = L.Layout(lay.fields, lay.paths_in, lay.paths_out, lay.omit, "skip", lay.extra_out, lay.as_list)
    try:
        _, _, unknown = L.ref_load(lay2, model, datum, sc)
    except (L.Reject, L.Unspecified):
        return
    have = {}
    for trail, node in error_nodes(exc):
        if type(node).__name__ == "ExtraFieldsLoadError":
            have[tuple(trail)] = set(node.fields)
    if have != {tuple(k): v for k, v in unknown.items()}:
        ctx.violation("extra-forbid-key-set", f"ExtraFieldsLoadError sets {have!r} differ from the unknown keys {unknown!r}", {**desc, "datum": repr(datum)})
    ctx.count("forbid_sets_checked")


def run_case(ctx, rng, idx):
    g = gen_program(rng, ctx)
    if g is None:
        ctx.count("gen_gave_up")
        return
    kind, fields, recipe, lay = g
    ctx.count("programs")
    ctx.count(f"kind_{kind}")
    modes = MODES if ctx.tier == "thorough" or idx % 4 == 0 else rng.sample(MODES, 2)
    if idx < 2:
        ctx.sample({"kind": kind, "fields": [f"{f.name}:{f.node.src}:{f.req}" for f in fields], "recipe": [nm.describe() for nm in recipe],
                    "paths": {k: repr(v) for k, v in lay.paths_in.items()}})
    check_program(ctx, rng, kind, fields, recipe, lay, modes)


# ---- directed witnesses ------------------------------------------------------------------------------
def _omit_default_unhashable(ctx):
    import random  # noqa: PLC0415

    fields = [models.FieldSpec("a", spec.IntT()), models.FieldSpec("b", spec.IterT("List", spec.IntT()), "default", [])]
    recipe = [L.NM(omit_default=True)]
    lay = L.resolve(fields, recipe)
    check_program(ctx, random.Random(0), "namedtuple", fields, recipe, lay, MODES[:2])


def _collected_extras_known_branches(ctx):
    import random  # noqa: PLC0415

    fields = [models.FieldSpec("a", spec.IntT()), models.FieldSpec("c", spec.IntT(), "default", 5),
              models.FieldSpec("extra_data", spec.DictT("Dict", spec.StrT(), spec.AnyT()), "factory", dict)]
    recipe = [L.NM(map=[("dict", {"c": ("grp", "sub", "k")})], extra_in=("fields", ["extra_data"]))]
    lay = L.resolve(fields, recipe)
    check_program(ctx, random.Random(0), "dataclass", fields, recipe, lay, MODES[:2])


def _enum_class_as_single_predicate(ctx):
    """'Both parameters take predicate or iterable of predicates': an Enum CLASS is one predicate although it is iterable (defect #63)."""
    from dataclasses import make_dataclass  # noqa: PLC0415

    from adaptix import Retort, name_mapping  # noqa: PLC0415

    M = make_dataclass("M", [("a", int), ("c", spec.EInt), ("s", spec.EStr)])
    x = M(1, spec.EInt.A, spec.EStr.X)
    for kw, want in (({"skip": spec.EInt}, {"a": 1, "s": "x"}), ({"only": spec.EInt}, {"c": 1}), ({"skip": [spec.EInt]}, {"a": 1, "s": "x"}), ({"only": (spec.EInt, spec.EStr)}, {"c": 1, "s": "x"}),
                     ({"omit_default": spec.EInt}, {"a": 1, "c": 1, "s": "x"})):
        out = attempt(lambda kw=kw: Retort(recipe=[name_mapping(M, **kw)]).dump(x))
        ctx.evaluated(("enum-class-predicate", repr(kw)))
        ctx.count("dumps")
        if out.kind != "ok" or out.value != want:
            ctx.violation("dump-layout-mismatch:enum-class-predicate", f"name_mapping(M, {kw}): {out!r:.200}, documented {want!r}", {"kw": repr(kw)})


def _map_reaches_every_descendant(ctx):
    """A `map` given for a class also lays out its subclasses (the repository's own test_typehint_location pins the direct child; the docs
    are silent): then it does so at EVERY depth and through every branch of the MRO, and a nearer class overrides a farther one
    (seeded change: only the direct bases were consulted)."""
    from dataclasses import dataclass  # noqa: PLC0415

    from adaptix import Retort, name_mapping  # noqa: PLC0415

    @dataclass
    class Root:
        id: int

    @dataclass
    class Child(Root):
        name: str

    @dataclass
    class Grand(Child):
        created_at: int

    @dataclass(kw_only=True)
    class Mixin:
        flag: bool = False

    @dataclass
    class Great(Grand, Mixin):
        z: int = 0
    recipe = [name_mapping(Root, map={"id": "ID", "created_at": ("meta", "created")}), name_mapping(Child, map={"name": "NAME"}), name_mapping(Mixin, map={"flag": "FLAG"}),
              name_mapping(Grand, map={"id": "GrandID"})]
    r = Retort(recipe=recipe)
    table = [(Root, Root(1), {"ID": 1}), (Child, Child(1, "n"), {"ID": 1, "NAME": "n"}), (Grand, Grand(1, "n", 5), {"GrandID": 1, "NAME": "n", "meta": {"created": 5}}),
             (Great, Great(1, "n", 5, 9, flag=True), {"GrandID": 1, "NAME": "n", "meta": {"created": 5}, "FLAG": True, "z": 9})]
    # a generic descendant asked for with its arguments is the same model as the bare one (defect #93)
    import typing as t  # noqa: PLC0415
    T = t.TypeVar("T")
    import types as _types  # noqa: PLC0415
    GenKid = dataclass(_types.new_class("GenKid", (Child, t.Generic[T]), exec_body=lambda ns: ns.update({"__annotations__": {"payload": T}})))
    table += [(GenKid, GenKid(1, "n", 7), {"ID": 1, "NAME": "n", "payload": 7}), (GenKid[int], GenKid(1, "n", 7), {"ID": 1, "NAME": "n", "payload": 7})]
    for cls, obj, doc in table:
        d, l = attempt(r.dump, obj, cls), attempt(r.load, doc, cls)
        ctx.evaluated(("map-inheritance", getattr(cls, "__name__", repr(cls))), nontrivial=True)
        ctx.count("dumps")
        if d.kind != "ok" or d.value != doc:
            ctx.violation("dump-layout-mismatch:map-of-an-ancestor", f"{cls!r}: dump {d!r:.200}, the maps of its ancestors give {doc!r}", {"class": repr(cls)})
        if l.kind != "ok" or l.value != obj:
            ctx.violation("load-layout-mismatch:map-of-an-ancestor", f"{cls!r}: load of {doc!r} gave {l!r:.200}", {"class": repr(cls)})


def _omit_default_of_empty_factories(ctx):
    """'omit_default removes exactly the fields whose value EQUALS their default': a field whose default factory makes something empty
    (list, dict, str, bytes, tuple) and whose type admits OTHER falsy values - None, 0, False, '' - keeps those (seeded change: the sieve
    of such fields became plain truthiness); and the round trip gives the object back."""
    import typing as t  # noqa: PLC0415
    from dataclasses import dataclass, field  # noqa: PLC0415

    from adaptix import DebugTrail, Retort, name_mapping  # noqa: PLC0415

    from dataclasses import make_dataclass  # noqa: PLC0415
    F = make_dataclass("F", [("ident", int), ("tags", t.Optional[t.List[str]], field(default_factory=list)), ("nums", t.Union[int, t.List[int]], field(default_factory=list)),
                             ("anyd", t.Any, field(default_factory=dict)), ("text", t.Optional[str], field(default_factory=str)),
                             ("pair", t.Union[bool, t.Tuple[int, ...]], field(default_factory=tuple))])
    values = {"tags": [None, [], ["a"]], "nums": [0, [], [0], 5], "anyd": [False, 0, "", None, {}, {"k": 1}], "text": [None, "", "x"], "pair": [False, (), (0,)]}
    defaults = {"tags": [], "nums": [], "anyd": {}, "text": "", "pair": ()}
    for dt in DebugTrail:
        r = Retort(debug_trail=dt, recipe=[name_mapping(F, omit_default=True)])
        for name, vals in values.items():
            for v in vals:
                obj = F(1, **{name: v})
                d = attempt(r.dump, obj)
                is_default = type(v) is type(defaults[name]) and v == defaults[name]
                ctx.evaluated(("omit-default-empty-factory", name, repr(v), dt.name), nontrivial=True)
                ctx.count("dumps")
                info = {"field": name, "value": repr(v), "mode": dt.name}
                if d.kind != "ok":
                    ctx.violation(f"dump-crash:omit-default-empty-factory:{type(d.exc).__name__}", f"{name}={v!r}: {d.exc!r:.120}", info)
                    continue
                if (name in d.value) == is_default:
                    ctx.violation("dump-layout-mismatch:omit-default-of-an-empty-factory", f"omit_default, {name}={v!r} (default {defaults[name]!r}): dumped {d.value!r}", info)
                    continue
                back = attempt(r.load, d.value, F)
                if back.kind != "ok" or back.value != obj or type(getattr(back.value, name)) is not type(v if not isinstance(v, tuple) else ()):
                    ctx.violation("round-trip-lost:omit-default-of-an-empty-factory", f"{obj!r} -> {d.value!r} -> {back!r:.160}", info)


def _generic_alias_as_single_predicate(ctx):
    """'Both parameters take predicate or iterable of predicates ... you can filter fields based on their type': ONE parametrised generic is
    one predicate although typing aliases are iterable since Python 3.11 (defect #92), in every spelling and next to the list form."""
    import typing as t  # noqa: PLC0415
    from dataclasses import field, make_dataclass  # noqa: PLC0415

    from adaptix import Retort, name_mapping  # noqa: PLC0415

    D = make_dataclass("DG", [("a", int), ("b", t.List[int], field(default_factory=list)), ("c", t.Optional[int], None), ("d", t.Dict[str, int], field(default_factory=dict))])
    x = D(1, [2], 3, {"k": 4})
    full = {"a": 1, "b": [2], "c": 3, "d": {"k": 4}}
    cases = [({"skip": t.List[int]}, ["b"]), ({"skip": [t.List[int]]}, ["b"]), ({"skip": list[int]}, ["b"]), ({"skip": t.Dict[str, int]}, ["d"]), ({"skip": t.Optional[int]}, ["c"]),
             ({"skip": (t.List[int], "c")}, ["b", "c"]), ({"only": t.List[int]}, ["a", "c", "d"]), ({"only": [t.List[int], t.Dict[str, int]]}, ["a", "c"]), ({"only": t.Dict[str, int]}, ["a", "b", "c"])]
    for kw, dropped in cases:
        want = {k: v for k, v in full.items() if k not in dropped}
        out = attempt(lambda kw=kw: Retort(recipe=[name_mapping(D, **kw)]).dump(x))
        ctx.evaluated(("generic-alias-predicate", repr(kw)), nontrivial=True)
        ctx.count("dumps")
        if out.kind != "ok" or out.value != want:
            ctx.violation("dump-layout-mismatch:generic-alias-predicate", f"name_mapping(D, {kw}): {out!r:.200}, documented {want!r}", {"kw": repr(kw)})
    out = attempt(lambda: Retort(recipe=[name_mapping(D, omit_default=t.List[int])]).dump(D(1)))
    if out.kind != "ok" or out.value != {"a": 1, "c": None, "d": {}}:
        ctx.violation("dump-layout-mismatch:generic-alias-predicate", f"name_mapping(D, omit_default=List[int]): {out!r:.200}", {})


def _extra_out_with_a_list_root(ctx):
    """'Only ExtraSkip and ExtraForbid could be used with mapping to list': extra data is merged into the dumped MAPPING, so extra_out on a
    model whose root is a list is refused when the dumper is created (as collecting extra_in is), not by a TypeError at every dump
    (defect #95); a nested list under a dict root is fine."""
    import typing as t  # noqa: PLC0415
    from dataclasses import field, make_dataclass  # noqa: PLC0415

    from adaptix import ProviderNotFoundError, Retort, name_mapping  # noqa: PLC0415

    X = make_dataclass("XO", [("a", int), ("extra", t.Dict[str, t.Any], field(default_factory=dict))])
    x = X(1, {"k": 2})
    for kw, want in (({"as_list": True, "extra_out": "extra"}, None), ({"map": {"a": 0}, "extra_out": "extra"}, None),
                     ({"map": {"a": ("lst", 0)}, "extra_out": "extra"}, {"lst": [1], "k": 2}), ({"extra_out": "extra"}, {"a": 1, "k": 2}), ({"as_list": True}, [1, {"k": 2}])):
        r = Retort(recipe=[name_mapping(X, **kw)])
        made = attempt(r.get_dumper, X)
        out = attempt(made.value, x) if made.kind == "ok" else made
        ctx.evaluated(("extra-out-list-root", repr(kw)), nontrivial=True)
        ctx.count("dumps")
        if want is None:
            if made.kind == "ok" or not isinstance(made.exc, ProviderNotFoundError):
                ctx.violation("excluded-configuration-not-refused:extra_out-with-list-root", f"name_mapping({kw}): get_dumper -> {made!r:.100}, dump -> {out!r:.100}", {"kw": repr(kw)})
        elif out.kind != "ok" or out.value != want:
            ctx.violation("dump-layout-mismatch:extra_out", f"name_mapping({kw}): {out!r:.160}, documented {want!r}", {"kw": repr(kw)})


def _forbidden_unknown_keys_whatever_the_count(ctx):
    """ExtraForbid rejects 'with exactly the set of unknown keys' however many known keys are present: k optional keys omitted and exactly
    k unknown ones added leaves len(data) unchanged (seeded change, found three times: the check was skipped when the length matched)."""
    from dataclasses import make_dataclass  # noqa: PLC0415

    from adaptix import ExtraForbid, Retort, name_mapping  # noqa: PLC0415
    from adaptix.load_error import ExtraFieldsLoadError  # noqa: PLC0415

    M = make_dataclass("MF", [("ident", int), ("name", str), ("email", str, ""), ("age", int, 0)])
    Inner = make_dataclass("InnerF", [("v", int), ("w", int, 0)])
    Outer = make_dataclass("OuterF", [("inner", Inner), ("note", str, "")])
    cases = [(M, {"ident": 1, "name": "a", "nmae": "b"}, {"nmae"}), (M, {"ident": 1, "name": "a", "x": 1, "y": 2}, {"x", "y"}), (M, {"ident": 1, "name": "a", "email": "e", "x": 1}, {"x"}),
             (M, {"ident": 1, "name": "a", "email": "e", "age": 3, "x": 1}, {"x"}), (M, {"ident": 1, "name": "a"}, None), (M, {"ident": 1, "name": "a", "email": "e", "age": 3}, None),
             (Outer, {"inner": {"v": 1, "u": 2}, "note": "n"}, {"u"}), (Outer, {"inner": {"v": 1, "w": 2}, "nope": "n"}, {"nope"})]
    for dt, sc in MODES:
        r = Retort(debug_trail=dt, strict_coercion=sc, recipe=[name_mapping(extra_in=ExtraForbid())])
        for cls, datum, unknown in cases:
            out = attempt(r.load, dict(datum), cls)
            ctx.evaluated(("forbid-by-count", cls.__name__, repr(datum), dt.name, sc), nontrivial=True)
            ctx.count("expected_reject" if unknown else "expected_ok")
            info = {"model": cls.__name__, "datum": repr(datum), "mode": mode_name(dt, sc)}
            if unknown is None:
                if out.kind != "ok":
                    ctx.violation("rejects-acceptable:forbid", f"{cls.__name__} <- {datum!r}: {out!r:.160}", info)
                continue
            if out.kind == "ok":
                ctx.violation("accepts-rejectable:unknown", f"ExtraForbid loader accepted {datum!r} -> {out.value!r}; unknown keys {unknown} [{mode_name(dt, sc)}]", info)
                continue
            leaves = [e for _, e in error_nodes(out.exc) if isinstance(e, ExtraFieldsLoadError)] if out.kind == "load_error" else []
            if not leaves or set().union(*[set(e.fields) for e in leaves]) != unknown:
                ctx.violation("unknown-key-set-differs", f"{cls.__name__} <- {datum!r}: {out!r:.200}, unknown keys are {unknown}", info)


@dataclasses.dataclass
class _LPt:
    x_pos: int = 0
    y_: int = 0
    tags: list = dataclasses.field(default_factory=list)


@dataclasses.dataclass
class _LSeg:
    start: _LPt
    finish: _LPt


def _layouts_bound_to_locations(ctx):
    """ONE model reached at two locations of one retort (and on its own) under name_mapping providers bound to the LOCATION (P[Seg].start):
    each location gets exactly the layout of the provider matched there - compared with fresh retorts that configure the inner model alone
    (seeded change: the sieves of a dict crown left out of equality, so the cached dumper of the first layout served the second)."""
    import itertools  # noqa: PLC0415
    from adaptix import P, name_mapping  # noqa: PLC0415

    Pt, Seg = _LPt, _LSeg
    options = [("default", {}), ("omit_default", {"omit_default": True}), ("camel", {"name_style": NameStyle.CAMEL}), ("map", {"map": {"x_pos": "X"}}), ("skip", {"skip": ["y_"]}),
               ("as_list", {"as_list": True}), ("no-trim", {"trim_trailing_underscore": False}), ("only", {"only": ["x_pos", "tags"]}),
               ("omit+map", {"omit_default": True, "map": {"y_": ("n", "y")}}), ("omit-one", {"omit_default": "x_pos"}), ("nested", {"map": {"tags": ("meta", "tags")}})]
    values = [(Pt(), Pt(1)), (Pt(0, 5), Pt(0, 0, ["t"])), (Pt(3, 4, ["a"]), Pt())]
    turn = 0
    for (na, a), (nb, b) in itertools.product(options, repeat=2):
        if na == nb:
            continue
        for order in ("outer-first", "inner-first", "finish-bound-first"):
            turn += 1
            for dt, sc in (MODES[turn % len(MODES)],):   # the modes take turns: 330 retorts, each in one of the six modes
                recipe = [name_mapping(P[Seg].start, **a), name_mapping(P[Seg].finish, **b)]
                if order == "finish-bound-first":
                    recipe.reverse()
                r = make_retort(dt, sc, recipe)
                ra, rb, r0 = make_retort(dt, sc, [name_mapping(Pt, **a)]), make_retort(dt, sc, [name_mapping(Pt, **b)]), make_retort(dt, sc, [])
                for p1, p2 in values:
                    info = {"start": na, "finish": nb, "order": order, "mode": mode_name(dt, sc), "value": repr((p1, p2))}
                    ctx.evaluated(("bound-layouts", na, nb, order, dt.name, sc, repr((p1, p2))), nontrivial=True)
                    ctx.count("location_bound_layouts")
                    want_inner = r0.dump(p1, Pt)
                    want = {"start": ra.dump(p1, Pt), "finish": rb.dump(p2, Pt)}
                    steps = [("inner", lambda: r.dump(p1, Pt), want_inner), ("outer", lambda: r.dump(Seg(p1, p2), Seg), want)]
                    if order == "outer-first":
                        steps.reverse()
                    for what, fn, expected in steps:
                        got = attempt(fn)
                        if got.kind != "ok" or not strict_eq(got.value, expected):
                            ctx.violation("dump-layout-mismatch:location-bound", f"start={na}, finish={nb}, {order}: dump of the {what} model gave {got!r:.200}, the layouts configured per location give {expected!r:.200} "
                                          f"[{mode_name(dt, sc)}]", info)
                    back = attempt(r.load, copy.deepcopy(want), Seg)
                    want_obj = attempt(lambda: Seg(ra.load(copy.deepcopy(want["start"]), Pt), rb.load(copy.deepcopy(want["finish"]), Pt)))
                    if want_obj.kind == "ok" and (back.kind != "ok" or back.value != want_obj.value):
                        ctx.violation("wrong-object:location-bound", f"start={na}, finish={nb}, {order}: load of {want!r:.160} gave {back!r:.200}, the layouts configured per location give {want_obj.value!r:.200} "
                                      f"[{mode_name(dt, sc)}]", info)


@dataclasses.dataclass
class _PropM:
    a: int
    items_: typing.List[int]
    note: str = "n"

    @property
    def total_sum(self) -> int:
        return sum(self.items_) + self.a

    @property
    def label_(self) -> typing.List[str]:
        return [self.note] * 2


@dataclasses.dataclass
class _PropTwin:
    a: int
    items_: typing.List[int]
    note: str = "n"
    total_sum: int = dataclasses.field(kw_only=True)    # required like a property (no default that omit_default could drop), yet declared last
    label_: typing.List[str] = dataclasses.field(kw_only=True)


def _properties_as_output_fields(ctx):
    """with_property(Model, name) makes a property an output field: every name_mapping option treats it like a declared field - compared with
    a twin model in which the properties are ordinary fields holding the same values (map, name_style, trim, skip, only, as_list, omit_default,
    nested paths), and the loader ignores it."""
    from adaptix import P, name_mapping, with_property  # noqa: PLC0415

    options = [("default", {}), ("camel", {"name_style": NameStyle.CAMEL}), ("upper", {"name_style": NameStyle.UPPER_SNAKE}), ("map-prop", {"map": {"total_sum": "T"}}),
               ("map-prop-nested", {"map": {"total_sum": ("meta", "sum"), "label_": ("meta", "labels")}}), ("map-field", {"map": {"a": "A"}}), ("skip-prop", {"skip": ["total_sum"]}),
               ("skip-field", {"skip": ["note"]}), ("only", {"only": ["a", "items_", "label_"]}), ("no-trim", {"trim_trailing_underscore": False}), ("as_list", {"as_list": True}),
               ("omit_default", {"omit_default": True}), ("omit+camel", {"omit_default": True, "name_style": NameStyle.CAMEL}), ("map-list-index", {"map": {"total_sum": ("arr", 1), "a": ("arr", 0)}}),
               ("by-type", {"map": [(int, "an_int_" )]}), ("skip-by-type", {"skip": [typing.List[str]]})]
    values = [(1, [2, 3], "n"), (0, [], "x"), (5, [0], "")]
    turn = 0
    for oname, opts in options:
        for props in (("total_sum", "label_"), ("label_", "total_sum"), ("total_sum",)):
            turn += 1
            dt, sc = MODES[turn % len(MODES)]
            # every second turn leaves the type to inference: this module's annotations are strings (defect #116: the string was taken for the type)
            recipe = [with_property(_PropM, p, *([{'total_sum': int, 'label_': typing.List[str]}[p]] if turn % 2 else [])) for p in props] + [name_mapping(_PropM, **opts)]
            twin_skip = [p for p in ("total_sum", "label_") if p not in props]
            topts = dict(opts)   # one provider for the twin: options of an earlier name_mapping would shadow the later one's
            if twin_skip and "only" in topts:
                topts["only"] = [x for x in topts["only"] if x not in twin_skip]
            elif twin_skip:
                topts["skip"] = [*topts.get("skip", []), *twin_skip]
            twin_recipe = [name_mapping(_PropTwin, **topts)]
            r, rt = make_retort(dt, sc, recipe), make_retort(dt, sc, twin_recipe)
            for a, items, note in values:
                m = _PropM(a, list(items), note)
                fields = {"a": a, "items_": list(items), "note": note, "total_sum": m.total_sum, "label_": m.label_}
                if len(props) > 1 and "as_list" in opts:
                    continue   # the relative order of several properties is not documented: list layouts only with one property
                twin = _PropTwin(**fields)
                got, want = attempt(r.dump, m), attempt(rt.dump, twin)
                ctx.evaluated(("with-property", oname, props, dt.name, sc, repr((a, items, note))), nontrivial=True)
                ctx.count("property_dumps")
                info = {"options": oname, "properties": list(props), "mode": mode_name(dt, sc), "value": repr(m)}
                if want.kind != "ok":
                    ctx.count("property_twin_unusable")
                    continue
                if got.kind != "ok" or not _prop_eq(got.value, want.value):
                    ctx.violation("dump-layout-mismatch:property-as-output-field", f"{oname}, properties {props}: dump gave {got!r:.200}, the twin with ordinary fields gives {want.value!r:.200} [{mode_name(dt, sc)}]", info)
                    continue
                if "as_list" in opts or oname in ("skip-field", "only", "map-list-index"):
                    continue
                back = attempt(r.load, copy.deepcopy(got.value), _PropM)
                if back.kind != "ok" or back.value != m:
                    ctx.violation("wrong-object:property-as-output-field", f"{oname}, properties {props}: load of its own dump {got.value!r:.160} gave {back!r:.200} [{mode_name(dt, sc)}]", info)


def _prop_eq(a, b):
    if isinstance(a, dict) and isinstance(b, dict):
        return a.keys() == b.keys() and all(_prop_eq(a[k], b[k]) for k in a)
    if isinstance(a, (list, tuple)) and isinstance(b, (list, tuple)):
        return len(a) == len(b) and all(_prop_eq(x, y) for x, y in zip(a, b))
    return strict_eq(a, b)


DIRECTED = {"properties-as-output-fields": _properties_as_output_fields, "layouts-bound-to-locations": _layouts_bound_to_locations, "forbidden-unknown-keys-whatever-the-count": _forbidden_unknown_keys_whatever_the_count, "extra-out-with-a-list-root": _extra_out_with_a_list_root, "generic-alias-as-single-predicate": _generic_alias_as_single_predicate, "omit-default-of-empty-factories": _omit_default_of_empty_factories, "map-reaches-every-descendant": _map_reaches_every_descendant, "enum-class-as-single-predicate": _enum_class_as_single_predicate, "omit-default-unhashable-default": _omit_default_unhashable, "collected-extras-known-branches": _collected_extras_known_branches}
