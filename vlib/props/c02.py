"""C02 - non-model loaders/dumpers implement exactly the documented per-type rules.

Monitor: every load/dump of a generated type in all 6 modes is compared with the three-valued
reference model of the documentation (vlib/spec.py)."""
from __future__ import annotations

import typing

from adaptix import Retort

from .. import spec
from ..adx import MODES, attempt, make_retort, mode_name
from ..eq import strict_eq
from ..workload import Program, data_bag, gen_node


def sub_pairs(node, d):
    """(child node, sub datum) pairs used to localise a mismatch to the innermost node."""
    import collections.abc as cabc  # noqa: PLC0415

    if isinstance(node, spec.WrapT):
        yield node.child, d
    elif isinstance(node, spec.UnionT):
        for c in node.children:
            yield c, d
    elif isinstance(node, spec.IterT):
        if isinstance(d, (list, tuple, set, frozenset)):
            for v in d:
                yield node.elem, v
    elif isinstance(node, spec.TupleT):
        if isinstance(d, (list, tuple)) and len(d) == len(node.children):
            yield from zip(node.children, d)
    elif isinstance(node, spec.DictT):
        if isinstance(d, cabc.Mapping):
            for k, v in d.items():
                yield node.key, k
                yield node.val, v
    elif getattr(node, "is_model", False) and hasattr(node, "fields"):
        if isinstance(d, cabc.Mapping):
            for f in node.fields:
                if f.name in d and f.node.hint is not None:
                    yield f.node, d[f.name]


def classify(node, d_spec, d_run, dt, sc, loader):
    """Returns (mismatch class | None, verdict, outcome)."""
    v = node.accept(d_spec, sc)
    out = attempt(loader, d_run)
    if d_spec is not d_run and out.kind == "ok" and " at 0x" in repr(out.value):
        return None, v, out   # identity / address-bearing result of a one-shot iterator: not comparable across two objects
    if v.k == spec.U:
        return None, v, out
    if v.k == spec.R:
        if out.kind == "ok":
            return "accepts-rejectable", v, out
        return None, v, out
    if out.kind == "ok":
        if not spec.matches(v, out.value):
            return "wrong-value", v, out
        return None, v, out
    if out.kind == "load_error":
        return "rejects-acceptable", v, out
    if out.kind == "recursion":
        return None, v, out
    return "crash-on-acceptable", v, out


def localise(node, d, dt, sc, mismatch, depth=0):
    if depth > 8:
        return node, d
    for child, subd in sub_pairs(node, d):
        try:
            ld = make_retort(dt, sc).get_loader(child.hint)
        except Exception:  # noqa: BLE001
            continue
        m, _, o = classify(child, subd, subd, dt, sc, ld)
        if m == mismatch or (mismatch == "crash-on-acceptable" and o.kind in ("exc", "impure")):
            return localise(child, subd, dt, sc, mismatch, depth + 1)
    return node, d


def check_program(ctx, rng, node, prog, values, bag):
    for (kind, dt, sc), e in prog.creation_errors.items():
        ctx.violation(f"no-{kind}:{node.kind}", f"{kind} creation failed for documented type {node.src} in {mode_name(dt, sc)}: {e!r}",
                      {"type": node.src, "mode": mode_name(dt, sc), "error": repr(e), "cause": repr(getattr(e, "__cause__", None))[:500]})
    # loading
    for label, fac, one_shot in bag:
        for (dt, sc), loader in prog.loaders.items():
            d_run = fac()
            d_spec = fac() if one_shot else d_run
            try:
                m, v, out = classify(node, d_spec, d_run, dt, sc, loader)
            except RecursionError:
                ctx.count("recursion_skipped")
                continue
            nontrivial = v.k != spec.U and (node.depth() > 1 or v.k == spec.R)
            ctx.evaluated((node.src, label, repr(d_spec)[:200], dt.name, sc), nontrivial=nontrivial)
            ctx.count(f"verdict_{v.k}")
            ctx.count(f"outcome_{out.kind}")
            if m is not None:
                lnode, ld = (node, d_spec) if one_shot else localise(node, d_spec, dt, sc, m)
                key = f"{m}:{lnode.kind}:{'strict' if sc else 'lax'}:{type(ld).__name__}"
                ctx.violation(key, f"{node.src} <- {label} [{mode_name(dt, sc)}]: spec {v!r}, adaptix {out!r}",
                              {"type": node.src, "datum": repr(d_spec)[:400], "mode": mode_name(dt, sc), "spec": repr(v), "adaptix": repr(out),
                               "localised_type": lnode.src, "localised_datum": repr(ld)[:300]})
    # dumping valid values + self-consistency of the reference (its own dump must be acceptable and reload to x)
    for x in values:
        try:
            ref = node.dump(x)
        except LookupError:
            continue
        for sc in (True, False):
            v = node.accept(ref, sc)
            if v.k == spec.R or (v.k == spec.A and v.vals is not None and not any(_lenient_eq(x, y) for y in v.vals)):
                ctx.count("reference_self_inconsistent")
                ctx.violation(f"reference-self-check:{node.kind}", f"reference model rejects/mis-loads its own dump for {node.src}: x={x!r} dump={ref!r} verdict={v!r}",
                              {"type": node.src, "x": repr(x), "dump": repr(ref), "verdict": repr(v)})
        for (dt, sc), dumper in prog.dumpers.items():
            out = attempt(dumper, x)
            ctx.evaluated((node.src, "dump", repr(x)[:200], dt.name, sc), nontrivial=ref is not x)
            ctx.count("dumps")
            if out.kind != "ok":
                ctx.violation(f"dump-crash:{node.kind}:{type(out.exc).__name__}", f"dump of valid {node.src} value {x!r} raised {out.exc!r} [{mode_name(dt, sc)}]",
                              {"type": node.src, "x": repr(x)})
            elif not _dump_eq(out.value, ref):
                ln = _localise_dump(node, x, dt, sc)
                ctx.violation(f"dump-mismatch:{ln.kind}", f"dump of {node.src} value {x!r}: adaptix {out.value!r}, documented {ref!r} [{mode_name(dt, sc)}]",
                              {"type": node.src, "x": repr(x), "adaptix": repr(out.value), "reference": repr(ref)})


def _lenient_eq(x, y):
    return strict_eq(x, y) or strict_eq(y, x)


def _dump_eq(a, b):
    """Dumped tuples of sets come in arbitrary order: compare unordered where the reference built a tuple from a set."""
    if strict_eq(a, b):
        return True
    if type(a) is type(b) and isinstance(a, tuple) and len(a) == len(b):
        rest = list(b)
        for x in a:
            for i, y in enumerate(rest):
                if _dump_eq(x, y):
                    del rest[i]
                    break
            else:
                return False
        return True
    if type(a) is type(b) and isinstance(a, list) and len(a) == len(b):
        return all(_dump_eq(x, y) for x, y in zip(a, b))
    if type(a) is type(b) and isinstance(a, dict) and len(a) == len(b):
        try:
            return all(k in b and _dump_eq(v, b[k]) for k, v in a.items())
        except TypeError:
            return False
    return False


def _localise_dump(node, x, dt, sc):
    for child in node.children:
        for sub in _sub_values(node, child, x):
            try:
                got = make_retort(dt, sc).get_dumper(child.hint)(sub)
                if not _dump_eq(got, child.dump(sub)):
                    return _localise_dump(child, sub, dt, sc)
            except Exception:  # noqa: BLE001
                continue
    return node


def _sub_values(node, child, x):
    if isinstance(node, spec.WrapT):
        yield x
    elif isinstance(node, spec.UnionT):
        if node.dump_case(x) is child:
            yield x
    elif isinstance(node, spec.IterT):
        yield from x
    elif isinstance(node, spec.TupleT):
        for c, v in zip(node.children, x):
            if c is child:
                yield v
    elif isinstance(node, spec.DictT):
        yield from (x.keys() if child is node.key else x.values())
    elif getattr(node, "is_model", False) and hasattr(node, "fields"):
        view = node.view(x)
        for f in node.fields:
            if f.node is child and f.name in view:
                yield view[f.name]


def run_case(ctx, rng, idx):
    node = gen_node(rng, ctx.tier)
    prog = Program(node)
    values, bag = data_bag(rng, node)
    ctx.count("programs")
    for k in node.kinds():
        ctx.count(f"kind_{k}")
    if idx < 3:
        ctx.sample({"type": node.src, "data": [lbl for lbl, _, _ in bag][:12], "values": [repr(v)[:80] for v in values]})
    check_program(ctx, rng, node, prog, values, bag)
    union_dispatch_case(ctx, rng)


def union_dispatch_case(ctx, rng):  # noqa: C901
    """'Union dumped by runtime class with nearest-ancestor fallback' over random class hierarchies with multiple inheritance:
    the case used for an object is the FIRST class of type(obj).__mro__ that is listed in the union - for every object, whatever was
    dumped before through the same retort (seeded change: a dispatch memo that is only sound under single inheritance)."""
    import typing as t  # noqa: PLC0415

    from adaptix import DebugTrail, Retort, dumper  # noqa: PLC0415

    # random DAG of classes: every class picks 0-2 bases among the earlier ones (orders that Python refuses are skipped)
    classes = []
    for i in range(rng.randint(4, 8)):
        for _ in range(4):
            bases = tuple(rng.sample(classes, min(len(classes), rng.choice([0, 1, 1, 2, 2]))))
            try:
                classes.append(type(f"K{i}", bases, {"__init__": lambda self: None, "__repr__": lambda self: type(self).__name__ + "()"}))
                break
            except TypeError:
                continue
    if len(classes) < 3:
        return
    listed = rng.sample(classes, rng.randint(2, min(4, len(classes))))
    if rng.random() < 0.3:
        listed.insert(rng.randrange(len(listed) + 1), object)   # the last class of every mro is a legal union case too (seeded change: mro[:-1])
    hint = t.Union[tuple(listed)]
    recipe = [dumper(c, (lambda x, n=c.__name__: n)) for c in listed]
    dt = rng.choice(list(DebugTrail))
    retort = Retort(recipe=recipe, debug_trail=dt)
    made = attempt(retort.get_dumper, hint)
    made_list = attempt(retort.get_dumper, t.List[hint])
    ctx.count("union_dispatch_programs")
    if made.kind != "ok" or made_list.kind != "ok":
        ctx.violation("no-dumper:Union:classes", f"dumper creation failed for Union of plain classes {listed}: {made!r} {made_list!r}", {"listed": repr(listed)})
        return

    def expected(obj):
        for k in type(obj).__mro__:
            if k in listed:
                return k.__name__
        return None
    order = [c() for c in classes] * 2 + [5, "s"]
    rng.shuffle(order)
    desc = {"classes": {c.__name__: [b.__name__ for b in c.__bases__] for c in classes}, "listed": [c.__name__ for c in listed], "order": [type(o).__name__ for o in order], "mode": dt.name}
    for pos, obj in enumerate(order):
        got, want = attempt(made.value, obj), expected(obj)
        ctx.evaluated(("union-dispatch", repr(desc["classes"]), tuple(desc["listed"]), type(obj).__name__, pos), nontrivial=True)
        ctx.count("union_dispatches")
        if want is None:
            if got.kind == "ok":
                ctx.violation("dump:union-case-for-unrelated-class", f"object of {type(obj).__name__} (no listed ancestor) dumped as {got.value!r} through Union{desc['listed']}", desc)
        elif got.kind != "ok" or got.value != want:
            ctx.violation("dump:union-case-not-nearest-ancestor", f"{type(obj).__name__} (mro {[k.__name__ for k in type(obj).__mro__]}) dumped with {got!r:.120}, nearest listed ancestor is {want} "
                          f"(dump #{pos} through one retort)", {**desc, "object": type(obj).__name__, "position": pos})
            break
    ok_objs = [o for o in order if expected(o) is not None]
    if ok_objs:
        got = attempt(made_list.value, ok_objs)
        want = [expected(o) for o in ok_objs]
        if got.kind != "ok" or list(got.value) != want:
            ctx.violation("dump:union-case-not-nearest-ancestor", f"List[Union{desc['listed']}] of {[type(o).__name__ for o in ok_objs]} dumped as {got!r:.200}, expected {want}", desc)


# ---- directed witnesses for listed findings (run on every invocation, independent of the seed) ----------------
def _directed(node, datum, modes=MODES):
    def run(ctx):
        prog = Program(node)
        bag = [("directed", (lambda: datum), False)]
        check_program(ctx, None, node, prog, [], bag)
    return run


def _confusable_literals(ctx):
    """All spellings of {0|False} x {1|True} side by side in ONE type (one retort builds all their loaders)."""
    # the long ones: membership of more than a handful of members goes through a set, where 0 / False and 1 / True are ONE element
    sets = [(0, 1), (False, True), (0, True), (False, 1), (1, 0), (True, False), ("x", 0, True), ("x", False, True),
            (0, False, "a", "b", "c"), (True, 1, "a", "b", "c", "d"), (False, 0, 1, True, "a", "b", 2, 3)]
    n = len(sets)
    for order in (sets, list(reversed(sets))):
        node = spec.TupleT([spec.LiteralT(m) for m in order])
        prog = Program(node)
        bag = []
        for vals in ([0] * n, [False] * n, [1] * n, [True] * n, ([0, False, 0, False, 1, True, 0, False] * 2)[:n], ["x"] * n):
            bag.append((repr(vals), (lambda vals=vals: list(vals)), False))
        check_program(ctx, None, node, prog, [tuple(m[0] for m in order), tuple(m[-1] for m in order)], bag)
    # ... and every one alone against every look-alike: inside the tuple a rightly rejected neighbour masks a wrongly rejected item
    single = [(lbl, (lambda v=v: v), False) for lbl, v in (("0", 0), ("False", False), ("1", 1), ("True", True), ("'x'", "x"), ("'a'", "a"), ("2", 2), ("0.0", 0.0), ("1.0", 1.0))]
    for m in sets:
        node = spec.LiteralT(m)
        check_program(ctx, None, node, Program(node), list(m), single)


def _containers_x_pool(ctx):
    """Every container kind, also with elements that are loaded as is (Any / object), against the whole hostile pool: the acceptance
    set of a container is a property of the container, whatever its element loaders are (seeded change: dict(data) fast path for
    Dict[Any, Any] accepted lists of pairs and empty iterables)."""
    from ..hostile import POOL  # noqa: PLC0415
    from ..workload import ONE_SHOT  # noqa: PLC0415

    A, O, I, S = spec.AnyT, lambda: spec.SCALAR_BY_KIND["object"], spec.IntT, spec.StrT
    nodes = [spec.DictT(k, kk(), vv()) for k in ("Dict", "dict", "Mapping", "MutableMapping", "DefaultDict", "defaultdict") if k in spec.DICTS
             for kk, vv in ((A, A), (O, O), (S, A), (S, I))]
    nodes += [spec.IterT(k, e()) for k in ("List", "list", "Set", "FrozenSet", "Sequence", "MutableSequence", "Deque", "VarTuple", "Iterable", "Collection") if k in spec.ITERABLES
              for e in (A, O, I)]
    nodes += [spec.TupleT([A(), A()]), spec.TupleT([A()]), spec.TupleT([I(), S()])]
    # ... and as the FIRST case of a union whose later case takes what the container refuses: the union fails only if every case fails
    # (seeded change: a lax DISABLE fast path for as-is elements returned the bare constructor, whose TypeError ended the union search)
    nodes += [spec.UnionT([spec.IterT(k, e()), other()]) for k in ("List", "Set", "VarTuple", "Iterable", "Deque") for e in (A, I) for other in (S, spec.FloatT)
              if not (k == "Set" and e is A)]   # Set[Any] with an unhashable element is the known C04 finding (raw TypeError), not a second one here
    nodes += [spec.UnionT([spec.DictT("Dict", A(), A()), I()]), spec.UnionT([spec.TupleT([A(), A()]), S()]), spec.IterT("List", spec.UnionT([spec.IterT("List", A()), S()]))]
    bag = [(lbl, fac, lbl in ONE_SHOT) for lbl, fac in POOL]
    for n in nodes:
        ctx.count("container_pool_programs")
        check_program(ctx, None, n, Program(n), [], bag)


def _literal_lookalikes_in_union_dump(ctx):
    """'Dumper finds appropriate dumper using object type': an object that merely compares equal to a literal member of another case
    (Decimal(200) next to Literal[200, 300]) is dumped by the case of its class (defect #71, fixed in the repository)."""
    from decimal import Decimal  # noqa: PLC0415
    from fractions import Fraction  # noqa: PLC0415

    K = spec.SCALAR_BY_KIND
    for node, values in (
        (spec.UnionT([spec.LiteralT((200, 300)), K["Decimal"]]), [Decimal(200), Decimal(201), 200, 300]),
        (spec.UnionT([K["Fraction"], spec.LiteralT((1, "a"))]), [Fraction(1), Fraction(1, 2), 1, "a"]),
        (spec.IterT("List", spec.UnionT([spec.LiteralT((0, 1)), K["Decimal"], K["str"]])), [[Decimal(0), 0, Decimal(1), 1, "x"]]),
    ):
        check_program(ctx, None, node, Program(node), values, [])


def _generic_alias_parameter_order(ctx):
    """PEP 695 generic aliases are 'processed as the aliased type': arguments go to the parameters by DECLARATION order, whatever the
    order of appearance inside the value, and unused parameters are legal (defect #72, fixed in the repository)."""
    import sys  # noqa: PLC0415
    if sys.version_info < (3, 12):
        return
    from decimal import Decimal  # noqa: PLC0415

    from adaptix import DebugTrail, Retort  # noqa: PLC0415
    ns = {}
    exec("type Pair[K, V] = dict[V, K]\ntype Unused[T] = int\ntype Second[K, V] = list[V]\ntype Same[K, V] = dict[K, V]\n"  # noqa: S102
         "type Nest[A, B] = list[tuple[B, A]]\ntype Id[X] = X\ntype Snd[A, B] = B", ns)
    D = Decimal
    table = [  # (hint, reference hint, data accepted, data rejected, value to dump)
        (ns["Pair"][str, D], dict[D, str], {"1": "a"}, {"a": 1}, {D(1): "a"}),
        (ns["Unused"][str], int, 1, "a", 1),
        (ns["Second"][str, D], list[D], ["1"], [[]], [D(1)]),
        (ns["Same"][str, D], dict[str, D], {"a": "1"}, {"a": []}, {"a": D(1)}),
        (ns["Nest"][str, D], list[tuple[D, str]], [["1", "a"]], [["a", 1]], [(D(1), "a")]),
        # the value of the alias is a bare type variable (report of a round-8 agent: it came back unsubstituted, no loader)
        (ns["Id"][D], D, "1", [], D(1)), (ns["Snd"][str, D], D, "1", [], D(1)), (list[ns["Id"][D]], list[D], ["1"], [[]], [D(1)]),
        (ns["Id"][list[D]], list[D], ["1"], [[]], [D(1)]),
    ]
    for dt in DebugTrail:
        r = Retort(debug_trail=dt)
        for hint, ref_hint, good, bad, val in table:
            ctx.evaluated(("alias-order", repr(hint), dt.name), nontrivial=True)
            ctx.count("alias_order_checks")
            outs = [(attempt(r.load, good, h), attempt(r.load, bad, h), attempt(r.dump, val, h)) for h in (hint, ref_hint)]
            for i, what in enumerate(("load of conforming data", "load of non-conforming data", "dump")):
                a, b = outs[0][i], outs[1][i]
                if a.kind != b.kind or (a.kind == "ok" and not strict_eq(a.value, b.value)):
                    ctx.violation("alias:arguments-not-applied-by-declaration-order", f"{hint!r} ({what}, {dt.name}): {a!r:.160}; the aliased type {ref_hint!r} gives {b!r:.160}",
                                  {"hint": repr(hint), "aliased": repr(ref_hint), "what": what})


_NT_DECIMAL = typing.NewType("_NT_DECIMAL", __import__("decimal").Decimal)
_NT_LIST = typing.NewType("_NT_LIST", typing.List[__import__("decimal").Decimal])


def _annotated_cases_in_union_dump(ctx):
    """'Annotated ... processed the same as wrapped types' also as a union case: the value is dumped by the case of its class (defect
    #102: the case was registered under typing.Annotated and every dump raised KeyError)."""
    import typing as t  # noqa: PLC0415
    from decimal import Decimal  # noqa: PLC0415

    table = [(t.Union[t.Annotated[Decimal, "meta"], int], [(Decimal("1.5"), "1.5"), (3, 3)]),
             (t.Union[t.Annotated[t.List[Decimal], "m"], t.Annotated[str, 1], None], [([Decimal(1)], ["1"]), ("s", "s"), (None, None)]),
             (t.Union[t.Annotated[Decimal, "meta"], t.Literal[5, "x"]], [(Decimal(2), "2"), (5, 5), ("x", "x")]),
             (t.List[t.Union[t.Annotated[bytes, "b"], t.Annotated[Decimal, "d"]]], [([b"a", Decimal(1)], ["YQ==", "1"])]),
             # 'All NewType's are treated as origin types', also as a union case; a Literal case stays one inside Annotated (report of a
             # round-8 agent: "All cases of union must be class or Literal" for both)
             (t.Union[_NT_DECIMAL, int], [(Decimal("1.5"), "1.5"), (3, 3)]), (t.Union[_NT_DECIMAL, None, str], [(None, None), ("s", "s"), (Decimal(2), "2")]),
             (t.Union[_NT_LIST, str], [([Decimal(1)], ["1"]), ("s", "s")]), (t.Union[t.Annotated[t.Literal["a"], "m"], Decimal], [("a", "a"), (Decimal(2), "2")]),
             (t.Union[t.Annotated[_NT_DECIMAL, "m"], t.Literal[5]], [(Decimal(2), "2"), (5, 5)])]
    for dt, sc in MODES:
        r = make_retort(dt, sc)
        for hint, pairs in table:
            made = attempt(r.get_dumper, hint)
            for x, want in pairs:
                out = attempt(made.value, x) if made.kind == "ok" else made
                ctx.evaluated(("annotated-union-case", repr(hint), repr(x), dt.name, sc), nontrivial=True)
                ctx.count("dumps")
                if out.kind != "ok" or not _dump_eq(out.value, want):
                    ctx.violation("dump-mismatch:Union:annotated-case", f"dump of {hint!r} value {x!r}: {out!r:.160}, documented {want!r} [{mode_name(dt, sc)}]", {"type": repr(hint), "x": repr(x)})


def _abstract_collections_in_union_dump(ctx):
    """'For objects of types that are not listed in the union, but which are a subclass of some union case, the base class dumper is used':
    tuple / list / dict / frozenset are subclasses of the abstract collections by REGISTRATION, not by MRO - and they are what the union's own
    loader returns for such a case (defect #103: KeyError on dumping load(x))."""
    import typing as t  # noqa: PLC0415
    from decimal import Decimal  # noqa: PLC0415

    table = [(t.Union[t.Sequence[int], str], [1], (1,)), (t.Union[t.Mapping[str, Decimal], str], {"a": "1"}, {"a": "1"}), (t.Union[t.Iterable[Decimal], int], ["1"], ("1",)),
             (t.Union[t.MutableSequence[int], str], [1], (1,)), (t.Union[t.AbstractSet[int], str], [1], (1,)), (t.List[t.Union[t.Sequence[Decimal], None, int]], [["1"], None, 2], [("1",), None, 2])]
    for dt, sc in MODES:
        r = make_retort(dt, sc)
        for hint, datum, want in table:
            x = attempt(r.load, datum, hint)
            out = attempt(r.dump, x.value, hint) if x.kind == "ok" else x
            ctx.evaluated(("abstract-union-case", repr(hint), dt.name, sc), nontrivial=True)
            ctx.count("dumps")
            if out.kind != "ok" or not _dump_eq(out.value, want):
                ctx.violation("dump-mismatch:Union:virtual-subclass", f"{hint!r}: load({datum!r}) = {x!r:.80}, its dump {out!r:.120}, documented {want!r} [{mode_name(dt, sc)}]", {"type": repr(hint)})


def _union_dispatch_fixed_hierarchy(ctx):
    """The fixed form of union_dispatch_case: Union[L1, Sub] with Sub(L1), Mid(L1), Y(Mid, Sub), Z(Sub, Mid); every object is dumped by the
    FIRST listed class of its mro, in every order of dumping through one retort (the random hierarchies of union_dispatch_case produce this
    shape at some seeds only)."""
    import itertools  # noqa: PLC0415
    import typing as t  # noqa: PLC0415

    from adaptix import dumper  # noqa: PLC0415

    def cls(name, *bases):
        return type(name, bases, {"__init__": lambda self: None, "__repr__": lambda self: type(self).__name__ + "()"})
    L1 = cls("L1")
    Sub, Mid = cls("Sub", L1), cls("Mid", L1)
    Y, Z, Un = cls("Y", Mid, Sub), cls("Z", Sub, Mid), cls("Unrelated")
    listed = [L1, Sub]
    want = {L1: "L1", Sub: "Sub", Mid: "L1", Y: "Sub", Z: "Sub"}
    for order in itertools.permutations([Mid, Y, Z, Sub, L1], 4):
        r = Retort(recipe=[dumper(c, (lambda x, n=c.__name__: n)) for c in listed])
        for pos, c in enumerate(order):
            got = attempt(r.dump, c(), t.Union[tuple(listed)])
            ctx.evaluated(("union-dispatch-fixed", tuple(k.__name__ for k in order[:pos + 1])), nontrivial=True)
            ctx.count("union_dispatches")
            if got.kind != "ok" or got.value != want[c]:
                ctx.violation("dump:union-case-not-nearest-ancestor", f"{c.__name__} (mro {[k.__name__ for k in c.__mro__]}) dumped with {got!r:.100} after {[k.__name__ for k in order[:pos]]}, "
                              f"nearest listed ancestor is {want[c]}", {"order": [k.__name__ for k in order]})
                return
    out = attempt(Retort(recipe=[dumper(c, (lambda x, n=c.__name__: n)) for c in listed]).dump, Un(), t.Union[tuple(listed)])
    if out.kind == "ok":
        ctx.violation("dump:union-case-for-unrelated-class", f"object of Unrelated (no listed ancestor) dumped as {out.value!r} through Union[L1, Sub]", {})


DIRECTED = {
    "union-dispatch-fixed-hierarchy": _union_dispatch_fixed_hierarchy,
    "abstract-collections-in-union-dump": _abstract_collections_in_union_dump,
    "annotated-cases-in-union-dump": _annotated_cases_in_union_dump,
    "literal-lookalikes-in-union-dump": _literal_lookalikes_in_union_dump,
    "generic-alias-parameter-order": _generic_alias_parameter_order,
    "containers-x-pool": _containers_x_pool,
    "confusable-literals-in-one-type": _confusable_literals,
    "literal-bytes-strict": _directed(spec.LiteralT((b"abc", 1)), "YWJj"),
    "scalar-table": lambda ctx: [check_program(ctx, None, n, Program(n), [], [(lbl, fac, lbl in ("iter([1,2])", "generator")) for lbl, fac in __import__("vlib.hostile", fromlist=["POOL"]).POOL])
                                 for n in spec._SCALARS],
}
