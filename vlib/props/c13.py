"""C13 - a generated converter equals the field-wise construction the linking rules fix.

Monitor: source/destination model pairs are generated together with a *plan* (for every destination
field: which source the documented linking rules select and how its value is coerced) and a recipe that
realises the plan plus decoys (later providers matching the same field, same-named source fields that an
earlier link must override, parameters that must not leak into nested models). The converter's result is
compared type-strictly with the plan's evaluation; the source must stay untouched and impl_converter must
keep the stub's signature."""
import copy
import inspect
import itertools
import sys
import types
import typing
from dataclasses import dataclass
from decimal import Decimal
from typing import Any, Dict, List, Optional

from adaptix import P
from adaptix.conversion import ConversionRetort, allow_unlinked_optional, coercer, from_param, get_converter, impl_converter, link, link_constant, link_function

from .. import models, spec
from ..adx import attempt
from ..eq import freeze, strict_eq

SRC_KINDS = ["dataclass", "dataclass", "namedtuple", "attrs", "typeddict", "pydantic"]
DST_KINDS = ["dataclass", "dataclass", "namedtuple", "attrs", "typeddict", "pydantic", "init"]
_n = itertools.count()
CONSTANTS = [7, "c", None, Decimal("1"), True, 1.0, (1, 2), b"x", "two\nlines", "tab\tand \"quotes\" and \\ backslash", "  leading\n    indented\n",
             ("nested\nnewline", 1), "\r\n", "'''triple'''", (5,), [1, "a\nb"], {"k\n": "v\n"}]


def simple(rng):
    return spec.SCALAR_BY_KIND[rng.choice(["int", "str", "bool", "float"])]


@dataclass
class DF:
    """Destination field plan."""
    name: str
    node: Any
    source: tuple          # ('field', src name) | ('param', pname) | ('const', v) | ('factory', fn) | ('func', fn, [ctx params], [kw fields]) | ('default', value)
    coerce: tuple = ("asis",)   # ('asis',) | ('custom', fn) | ('model', Pair) | ('list', c) | ('optional', c) | ('dict', c)
    req: str = "req"
    default: Any = None


class Pair:
    """A source model, a destination model and the plan relating them."""
    def __init__(self, rng, ctx, depth, top, params):  # noqa: C901, PLR0912, PLR0915
        self.top = top
        self.providers = []      # recipe items, in the order they must appear (decoys are appended after their winners)
        self.src_kind = rng.choice(SRC_KINDS)
        self.dst_kind = rng.choice(DST_KINDS)
        n = rng.randint(2, 5)
        names = rng.sample(["a", "b", "c", "d", "e", "f", "g", "h"], n)
        sfields, plan = [], []
        nested_pairs = []
        for nm in names:
            r = rng.random()
            if depth > 0 and r < 0.3:
                sub = Pair(rng, ctx, depth - 1, False, params)
                nested_pairs.append(sub)
                shape = rng.choice(["plain", "plain", "list", "optional", "dict"])
                snode, dnode, co = sub.src_node, sub.dst_node, ("model", sub)
                if shape == "list":
                    snode, dnode, co = spec.IterT("List", snode), spec.IterT("List", dnode), ("list", co)
                elif shape == "optional":
                    snode = spec.UnionT([snode, spec.NoneT()], hint=Optional[snode.hint], src=f"Optional[{snode.src}]")
                    dnode = spec.UnionT([dnode, spec.NoneT()], hint=Optional[dnode.hint], src=f"Optional[{dnode.src}]")
                    co = ("optional", co)
                elif shape == "dict":
                    snode, dnode, co = spec.DictT("Dict", spec.StrT(), snode), spec.DictT("Dict", spec.StrT(), dnode), ("dict", co)
                ctx.count(f"nested_{shape}")
                sfields.append(models.FieldSpec(nm, snode))
                plan.append(DF(nm, dnode, ("field", nm), co))
                continue
            node = simple(rng) if r < 0.75 else rng.choice([spec.IterT("List", spec.IntT()), spec.UnionT([spec.IntT(), spec.NoneT()], hint=Optional[int], src="Optional[int]"),
                                                           spec.DictT("Dict", spec.StrT(), spec.IntT())])
            sfields.append(models.FieldSpec(nm, node))
            plan.append(DF(nm, node, ("field", nm)))
        self.sfields = sfields
        self.src_node = models.ModelT(self.src_kind, sfields, name=f"S{next(_n)}")
        # ---- derive the destination: drop / rename / retype / add
        dplan = []
        for df in plan:
            r = rng.random()
            if r < 0.15 and len(plan) > 1:
                ctx.count("dst_dropped_field")
                continue            # extra source field: ignored
            if r < 0.4:
                df.name = "r_" + df.name
                ctx.count("link_rename")
            if df.coerce == ("asis",) and df.node.kind == "int" and rng.random() < 0.25:
                df.node = spec.StrT()
                df.coerce = ("custom", _int_to_str)
                ctx.count("custom_coercer")
            dplan.append(df)
        for extra in rng.sample(["x", "y", "z", "w"], rng.randint(0, 3)):
            r = rng.random()
            if r < 0.3:
                v = rng.choice(CONSTANTS)
                dplan.append(DF(extra, spec.AnyT(), ("const", v)))
                ctx.count("link_constant_value")
            elif r < 0.45:
                dplan.append(DF(extra, spec.AnyT(), ("factory", _fresh_list)))
                ctx.count("link_constant_factory")
            elif r < 0.65:
                custom = {d.source[1] for d in plan if d.coerce[0] == "custom"}   # whether a coercer() provider also applies to a function parameter is not documented
                kws = [f.name for f in sfields if f.node.kind in ("int", "str", "bool", "float") and f.name not in custom][:rng.randint(0, 2)]
                ctxp = [p for p in params if rng.random() < 0.5][:1]
                dplan.append(DF(extra, spec.AnyT(), ("func", _make_link_func(ctxp, kws), ctxp, kws)))
                ctx.count("link_function")
            elif r < 0.85 and params:
                p = rng.choice(params)
                dplan.append(DF(extra if not top or rng.random() < 0.5 else p, spec.IntT(), ("param", p)))
                ctx.count("param_source")
            else:
                dplan.append(DF(extra, spec.IntT(), ("default", 5), req="default", default=5))
                ctx.count("unlinked_optional_default")
        if not dplan:
            dplan.append(DF("x", spec.AnyT(), ("const", 7)))
        self.plan = dplan
        self.nested = nested_pairs
        names_seen = set()
        self.plan = [df for df in self.plan if not (df.name in names_seen or names_seen.add(df.name))]
        # linked destination fields may have defaults too, and unlinked optional fields may sit anywhere among them
        # (a skipped parameter in the middle changes the positional / keyword plan of the generated constructor call)
        for df in self.plan:
            if df.req == "req" and df.source[0] != "default" and df.coerce[0] in ("asis", "custom") and rng.random() < 0.35:
                try:
                    req, d = models.default_for(rng, df.node)
                except LookupError:
                    continue
                df.req, df.default = req, d
                ctx.count("linked_field_with_default")
        dfields = [models.FieldSpec(df.name, df.node, df.req, df.default) for df in self.plan]
        optional = [f for f in dfields if not f.required]
        rng.shuffle(optional)
        dfields = [f for f in dfields if f.required] + optional
        if any(f.req != "req" and i < len(dfields) - 1 for i, f in enumerate(dfields) if f.name in {d.name for d in self.plan if d.source[0] == "default"}):
            ctx.count("unlinked_optional_before_linked_field")
        self.dst_node = models.ModelT(self.dst_kind, dfields, name=f"D{next(_n)}")

    # ---- recipe realising the plan (with decoys) ------------------------------------------------------
    def recipe(self, rng, ctx, params):  # noqa: C901
        S, D = self.src_node.cls, self.dst_node.cls
        out = []
        for df in self.plan:
            dpred = P[D][df.name]    # bare strings match same-named fields of every model: covered by the directed cases
            kind = df.source[0]
            if kind == "field":
                sname = df.source[1]
                need = sname != df.name or df.coerce[0] == "custom"
                if getattr(self, "shadow", None) == df.name:
                    continue      # no explicit link: the same-named top-level parameter must win over the source field
                if need or rng.random() < 0.2:
                    spred = P[S][sname]
                    if df.coerce[0] == "custom" and rng.random() < 0.5:
                        out.append(link(spred, dpred, coercer=df.coerce[1]))
                        ctx.count("link_with_coercer")
                    else:
                        out.append(link(spred, dpred))
                        if df.coerce[0] == "custom":
                            out.append(coercer(P[S][sname], P[D][df.name], df.coerce[1]))
                    # decoy: a later link to another source for the same destination must lose
                    others = [f.name for f in self.sfields if f.name != sname and f.node.kind == self.sfields[[x.name for x in self.sfields].index(sname)].node.kind]
                    if others and rng.random() < 0.5:
                        out.append(("decoy", link(P[S][rng.choice(others)], P[D][df.name])))
                        ctx.count("decoy_later_link")
            elif kind == "param":
                pname = df.source[1]
                if not (self.top and df.name == pname) or rng.random() < 0.3:
                    out.append(link(from_param(pname), P[D][df.name]))
                    ctx.count("link_from_param")
                else:
                    ctx.count("param_by_name_top_level")
            elif kind == "const":
                out.append(link_constant(dpred, value=df.source[1]))
                if rng.random() < 0.4:
                    out.append(("decoy", link_constant(P[D][df.name], value="DECOY")))
                    ctx.count("decoy_later_constant")
            elif kind == "factory":
                out.append(link_constant(dpred, factory=df.source[1]))
            elif kind == "func":
                out.append(link_function(df.source[1], dpred))
            elif kind == "default":
                out.append(allow_unlinked_optional(P[D][df.name]))
        for sub in self.nested:
            out.extend(sub.recipe(rng, ctx, params))
        return out

    # ---- evaluation of the plan --------------------------------------------------------------------------
    def evaluate(self, src_obj, params):
        view = self.src_node.view(src_obj)
        vals = {}
        for df in self.plan:
            k = df.source[0]
            if k == "field":
                v = params[df.name] if getattr(self, "shadow", None) == df.name else view[df.source[1]]
            elif k == "param":
                v = params[df.source[1]]
            elif k == "const":
                v = df.source[1]
            elif k == "factory":
                v = df.source[1]()
            elif k == "func":
                _, fn, ctxp, kws = df.source
                v = fn(src_obj, *[params[p] for p in ctxp], **{kw: view[kw] for kw in kws})
            else:
                continue
            vals[df.name] = self._coerce(df.coerce, v, params)
        return self.dst_node.construct(vals)

    def _coerce(self, co, v, params):
        k = co[0]
        if k == "asis":
            return v
        if k == "custom":
            return co[1](v)
        if k == "model":
            return co[1].evaluate(v, params)
        if k == "list":
            return [self._coerce(co[1], x, params) for x in v]
        if k == "optional":
            return None if v is None else self._coerce(co[1], v, params)
        if k == "dict":
            return {a: self._coerce(co[1], b, params) for a, b in v.items()}
        raise AssertionError(co)


def _int_to_str(x):
    return f"<{x}>"


def _fresh_list():
    return ["fresh"]


def _make_link_func(ctx_params, kw_fields):
    """def fn(model, <ctx params...>, *, <kw fields...>): returns a tuple recording everything it received."""
    mod = types.ModuleType(f"vlib_c13_fn_{next(_n)}")
    sig = ", ".join(["model", *[f"{p}: int" for p in ctx_params]] + (["*", *[f"{k}: typing.Any" for k in kw_fields]] if kw_fields else []))
    body = "(" + ", ".join(["'F'", *ctx_params, *kw_fields]) + ",)"
    src = f"import typing\ndef fn({sig}):\n    return {body}\n"
    exec(compile(src, "<vlib c13 fn>", "exec", dont_inherit=True), mod.__dict__)  # noqa: S102
    return mod.fn


def make_stub(pair, params, name):
    """def <name>(src: S, p1: int, ...) -> D: ..."""
    mod = types.ModuleType(f"vlib_c13_stub_{next(_n)}")
    mod.S, mod.D = pair.src_node.cls, pair.dst_node.cls
    sig = ", ".join(["src: S", *[f"{p}: int" for p in params]])
    exec(compile(f"def {name}({sig}) -> D:\n    ...\n", "<vlib c13 stub>", "exec", dont_inherit=True), mod.__dict__)  # noqa: S102
    return getattr(mod, name)


def run_case(ctx, rng, idx):  # noqa: C901, PLR0912
    params = rng.sample(["p", "q", "k"], rng.randint(0, 2))
    try:
        pair = Pair(rng, ctx, depth=rng.choice([0, 1, 1, 2]), top=True, params=params)
    except LookupError:
        ctx.count("gen_skip")
        return
    # a top-level parameter named like a destination field that also has a same-named source field: the parameter wins
    # (and must not leak into nested models that have a field of that name)
    cand = [df for df in pair.plan if df.source[0] == "field" and df.coerce == ("asis",) and df.node.kind == "int" and df.name == df.source[1]]
    if cand and rng.random() < 0.35:
        pair.shadow = rng.choice(cand).name
        params = [*params, pair.shadow]
        ctx.count("parameter_shadows_source_field")
    raw = pair.recipe(rng, ctx, params)
    winners = [r for r in raw if not isinstance(r, tuple)]
    decoys = [r[1] for r in raw if isinstance(r, tuple)]
    rng.shuffle(winners)          # independent providers may come in any order ...
    recipe = winners + decoys     # ... but a decoy must come after the provider that beats it
    ctx.count("programs")
    ctx.count(f"pair_{pair.src_kind}->{pair.dst_kind}")
    name = rng.choice(["convert", "conv_a_to_b", "f"])
    if params:
        api = rng.choice(["impl_converter", "impl_converter", "retort.impl_converter"])
    else:
        api = rng.choice(["impl_converter", "get_converter", "retort.get_converter", "retort.impl_converter", "retort.get_converter+recipe"])
    ctx.count(f"api_{api}")
    desc = {"src": pair.src_node.src[:500], "dst": pair.dst_node.src[:500], "params": params, "api": api,
            "plan": [(df.name, repr(df.source)[:80], df.coerce[0]) for df in pair.plan], "n_providers": len(recipe), "n_decoys": len(decoys)}
    stub = make_stub(pair, params, name)
    if api == "impl_converter":
        made = attempt(lambda: impl_converter(recipe=recipe)(stub))
    elif api == "retort.impl_converter":
        made = attempt(lambda: ConversionRetort(recipe=recipe[len(recipe) // 2:]).impl_converter(recipe=recipe[:len(recipe) // 2])(stub))
    elif api == "get_converter":
        made = attempt(get_converter, pair.src_node.cls, pair.dst_node.cls, recipe=recipe)
    elif api == "retort.get_converter":
        made = attempt(ConversionRetort(recipe=recipe).get_converter, pair.src_node.cls, pair.dst_node.cls)
    else:
        made = attempt(ConversionRetort(recipe=recipe[len(recipe) // 2:]).get_converter, pair.src_node.cls, pair.dst_node.cls, recipe=recipe[:len(recipe) // 2])
    if idx < 2:
        ctx.sample(desc)
    if made.kind != "ok":
        ctx.violation(f"converter-refused:{type(made.exc).__name__}", f"converter creation failed for a linkable pair: {made.exc!r} cause={getattr(made.exc, '__cause__', None)!r:.400}", desc)
        return
    conv = made.value
    if "impl_converter" in api:
        if inspect.signature(conv) != inspect.signature(stub) or conv.__name__ != stub.__name__:
            ctx.violation("impl-converter-changes-signature", f"stub {stub.__name__}{inspect.signature(stub)} became {conv.__name__}{inspect.signature(conv)}", desc)
    for rep in range(3):
        try:
            src_obj = pair.src_node.gen(rng)
        except LookupError:
            continue
        pvals = {p: rng.randint(100, 999) for p in params}
        before = freeze(src_obj)
        want = attempt(pair.evaluate, copy.deepcopy(src_obj), pvals)
        if want.kind != "ok":
            ctx.count("plan_evaluation_failed")
            continue
        got = attempt(conv, src_obj, *[pvals[p] for p in params])
        ctx.evaluated((desc["src"], desc["dst"], repr(src_obj)[:200], api, rep), nontrivial=True)
        ctx.count("conversions")
        info = {**desc, "src_obj": repr(src_obj)[:400], "params_values": pvals, "adaptix": repr(got)[:500], "expected": repr(want.value)[:500]}
        if got.kind != "ok":
            ctx.violation(f"converter-raises:{type(got.exc).__name__}", f"converter raised {got.exc!r}", info)
            break
        if not strict_eq(_view(pair.dst_node, got.value), _view(pair.dst_node, want.value)):
            bad = _first_diff(pair, got.value, want.value)
            ctx.violation(f"wrong-field-value:{bad}", f"converter returned {got.value!r}; the linking rules fix {want.value!r}", info)
            break
        if freeze(src_obj) != before:
            ctx.violation("source-mutated", f"the source object changed during conversion: {src_obj!r}", info)
            break


def _view(node, obj):
    v = node.view(obj)
    out = {}
    for k, x in v.items():
        out[k] = _deep_view(x)
    return out


def _deep_view(x):
    from ..eq import model_fields  # noqa: PLC0415

    f = model_fields(x)
    if f is not None:
        return ("model", type(x).__name__, {k: _deep_view(v) for k, v in f.items()})
    if hasattr(x, "__dict__") and type(x).__module__.startswith("vlib_dyn"):
        return ("model", type(x).__name__, {k: _deep_view(v) for k, v in x.__dict__.items()})
    if isinstance(x, list):
        return [_deep_view(v) for v in x]
    if isinstance(x, dict):
        return {k: _deep_view(v) for k, v in x.items()}
    return x


def _first_diff(pair, got, want):
    g, w = _view(pair.dst_node, got), _view(pair.dst_node, want)
    for df in pair.plan:
        if df.name in w and not strict_eq(g.get(df.name), w.get(df.name)):
            return f"{df.source[0]}:{df.coerce[0]}"
    return "?"


# ---- directed witnesses ------------------------------------------------------------------------------------
def _directed(ctx):
    @dataclass
    class SI:
        v: int
        w: int

    @dataclass
    class S:
        a: int
        b: int
        c: int
        inner: SI

    @dataclass
    class DI:
        v: int
        w: int

    @dataclass
    class D:
        a: int
        b: int
        x: Any
        inner: DI

    s = S(1, 2, 3, SI(10, 20))

    def expect(name, conv, args, want):
        out = attempt(conv, *args)
        ctx.evaluated(("directed", name))
        ctx.count("directed_cases")
        if out.kind != "ok" or not strict_eq(out.value, want):
            ctx.violation(f"directed:{name}", f"{name}: {out!r}, expected {want!r}", {})

    @impl_converter(recipe=[link(P[S].c, P[D].x)])
    def c1(s: S, a: int, b: int, w: int) -> D: ...
    expect("top-level-params-override-fields-nested-untouched", c1, (s, 100, 200, 300), D(100, 200, 3, DI(10, 20)))

    @impl_converter(recipe=[link(P[S].c, P[D].x), link(from_param("w"), P[DI].w)])
    def c2(s: S, w: int) -> D: ...
    expect("from-param-reaches-nested", c2, (s, 300), D(1, 2, 3, DI(10, 300)))

    @impl_converter(recipe=[link("b", "x"), link("c", "x")])
    def c3(s: S) -> D: ...
    expect("first-link-wins", c3, (s,), D(1, 2, 2, DI(10, 20)))

    @impl_converter(recipe=[link_constant(P[D].x, value=Decimal("1")), link("c", "x")])
    def c4(s: S) -> D: ...
    expect("constant-first-and-not-a-look-alike", c4, (s,), D(1, 2, Decimal("1"), DI(10, 20)))

    @impl_converter(recipe=[link("c", "x"), link("c", "a")])
    def c5(s: S, a: int) -> D: ...
    expect("explicit-link-beats-same-named-parameter", c5, (s, 100), D(3, 2, 3, DI(10, 20)))

    @impl_converter(recipe=[link("c", "x")])
    def c6(s: S, b: int, c: int) -> D: ...
    # "Additional parameters are checked (from right to left) before the fields. So, your custom linking looks among the additional parameters too"
    expect("explicit-link-takes-the-parameter-before-the-same-named-field", c6, (s, 200, 300), D(1, 200, 300, DI(10, 20)))

    @impl_converter(recipe=[link("c", "x")])
    def c6b(s: S, c: int, b: int, *, cc: int = 0) -> D: ...
    expect("explicit-link-parameter-order-irrelevant-for-distinct-names", c6b, (s, 300, 200), D(1, 200, 300, DI(10, 20)))

    def fn(s: S, k: int, *, b: int) -> int:
        return s.a * 1000 + k * 10 + b

    @impl_converter(recipe=[link_function(fn, P[D].x)])
    def c7(s: S, k: int) -> D: ...
    expect("link-function-model-ctx-kwonly", c7, (s, 4), D(1, 2, 1042, DI(10, 20)))

    # defaults of extra parameters are values like any other source: they arrive unchanged, whatever their repr() looks like (defect #69)
    import enum as _enum  # noqa: PLC0415
    from fractions import Fraction  # noqa: PLC0415

    class _E(_enum.Enum):
        A = 1

    class _MyInt(int):
        pass
    for dflt in (Fraction(1, 2), _E.A, Decimal("1.5"), float("inf"), _MyInt(3), "x\ny", (1,), None):
        def stub(s: S, k=dflt) -> D: ...
        made = attempt(lambda stub=stub: impl_converter(recipe=[link(from_param("k"), P[D].x)])(stub))
        ctx.evaluated(("directed", "param-default", repr(dflt)))
        ctx.count("directed_cases")
        out = attempt(made.value, s) if made.kind == "ok" else made
        if out.kind != "ok" or not strict_eq(out.value, D(1, 2, dflt, DI(10, 20))):
            ctx.violation("directed:extra-parameter-default", f"stub(s, k={dflt!r}) with link(from_param('k'), x): {out!r:.200}, expected x to be the default itself", {})
    for v in [Decimal("0"), True, 1.0, range(0, 10, 2), None, (Decimal("1"), [1])]:
        conv = get_converter(S, D, recipe=[link_constant(P[D].x, value=v)])
        expect(f"link-constant:{type(v).__name__}", conv, (s,), D(1, 2, v, DI(10, 20)))


def _recipe_of_this_request(ctx):
    """The converter for (S, D) is fixed by the recipe of THIS request: plain first and with a recipe afterwards, the reverse, and two different
    recipes one after the other - through get_converter, convert, a user retort and the module-level functions, on pairs used before."""
    from adaptix.conversion import ConversionRetort, convert  # noqa: PLC0415

    @dataclass
    class S:
        a: int
        b: int

    @dataclass
    class D:
        a: int
        b: int
    swap = [link("a", "b"), link("b", "a")]
    const = [link_constant(P[D].b, value=-1)]
    plans = {"plain": ([], D(1, 2)), "swap": (swap, D(2, 1)), "const": (const, D(1, -1))}
    retort = ConversionRetort()
    apis = {
        "get_converter": lambda recipe: get_converter(S, D, recipe=recipe)(S(1, 2)),
        "convert": lambda recipe: convert(S(1, 2), D, recipe=recipe),
        "retort.get_converter": lambda recipe: retort.get_converter(S, D, recipe=recipe)(S(1, 2)),
        "retort.convert": lambda recipe: retort.convert(S(1, 2), D, recipe=recipe),
    }
    for order in (("plain", "swap", "plain", "const", "swap"), ("swap", "plain", "const", "const", "plain"), ("const", "swap", "plain")):
        for api, call in apis.items():
            for step, name in enumerate(order):
                recipe, want = plans[name]
                out = attempt(call, recipe)
                ctx.evaluated(("recipe-of-this-request", api, order, step))
                ctx.count("directed_cases")
                if out.kind != "ok" or not strict_eq(out.value, want):
                    ctx.violation("wrong-field-value:recipe-of-an-earlier-request-used", f"{api}: request #{step} of {order} ({name}) gave {out!r:.150}, the linking rules of its own recipe fix {want!r}",
                                  {"api": api, "order": list(order), "step": step})
                    break


def _parameters_named_unlike_their_fields(ctx):
    """The generated constructor call passes keyword arguments under the PARAMETER name: attrs private attributes (`_token` -> `token`)
    and aliases, keyword-only or after an unlinked optional field (seeded change: the field id was used as the keyword)."""
    from dataclasses import make_dataclass  # noqa: PLC0415

    from adaptix import P  # noqa: PLC0415
    from adaptix.conversion import allow_unlinked_optional, get_converter  # noqa: PLC0415
    try:
        import attrs  # noqa: PLC0415
    except ImportError:
        ctx.count("attrs_missing")
        return
    KwOnly = attrs.make_class("KwOnly", {"ident": attrs.field(type=int), "_token": attrs.field(type=str, kw_only=True), "kind": attrs.field(type=str, alias="kind_name", kw_only=True)})
    AfterSkipped = attrs.make_class("AfterSkipped", {"ident": attrs.field(type=int), "note": attrs.field(type=str, default="n"), "_token": attrs.field(type=str, default="t"),
                                                     "kind": attrs.field(type=str, alias="kind_name", default="k")})
    Src = make_dataclass("SrcPN", [("ident", int), ("_token", str), ("kind", str)])
    for label, dst, recipe, want in (("keyword-only", KwOnly, [], lambda: KwOnly(1, token="tok", kind_name="kd")),
                                     ("after-unlinked-optional", AfterSkipped, [allow_unlinked_optional(P.ANY)], lambda: AfterSkipped(1, token="tok", kind_name="kd"))):
        made = attempt(get_converter, Src, dst, recipe=recipe)
        out = attempt(made.value, Src(1, "tok", "kd")) if made.kind == "ok" else made
        ctx.evaluated(("directed-param-names", label), nontrivial=True)
        ctx.count("conversions")
        if out.kind != "ok" or out.value != want():
            ctx.violation(f"directed:parameter-named-unlike-its-field:{label}", f"{label}: {out!r:.200}, the constructor call the linking rules fix gives {want()!r}", {"case": label})


def _configured_link_that_cannot_be_built(ctx):
    """The first matching link_function of an OPTIONAL destination field whose own parameter has nothing to take its value from, next to
    allow_unlinked_optional: the field is linked (to that function), so either the converter is refused or the field holds the function's
    result - never the default, as if no link had been configured (report of a round-8 agent: the terminal refusal of the function linking was
    swallowed together with 'no linking found')."""
    @dataclass
    class Src:
        a: int
        c: int

    @dataclass
    class Dst:
        a: int
        c: int = 7

    @dataclass
    class SrcO:
        inner: Src

    @dataclass
    class DstO:
        inner: Dst
        tail: int = 0

    def unbuildable(model, missing: int):
        return 99

    def unbuildable_kw(model, *, missing: int):
        return 99

    def buildable(model, *, a: int):
        return 90 + a
    cases = []
    for fname, fn, want_c in (("positional", unbuildable, None), ("keyword-only", unbuildable_kw, None), ("buildable", buildable, 91), ("none", None, 3)):
        for order in ("function-first", "policy-first"):
            def recipe(dst_pred, fn=fn, order=order):
                r = ([link_function(fn, dst_pred)] if fn is not None else []) + [allow_unlinked_optional()]
                return r if order == "function-first" else list(reversed(r))
            cases.append((f"{fname}/{order}/get_converter", lambda recipe=recipe: get_converter(Src, Dst, recipe=recipe(P[Dst].c))(Src(1, 3)), None if want_c is None else Dst(1, want_c)))
            cases.append((f"{fname}/{order}/retort", lambda recipe=recipe: ConversionRetort(recipe=recipe(P[Dst].c)).convert(Src(1, 3), Dst), None if want_c is None else Dst(1, want_c)))
            cases.append((f"{fname}/{order}/nested", lambda recipe=recipe: get_converter(SrcO, DstO, recipe=recipe(P[Dst].c))(SrcO(Src(1, 3))), None if want_c is None else DstO(Dst(1, want_c))))
    for name, run, want in cases:
        out = attempt(run)
        ctx.evaluated(("directed-unbuildable-link", name))
        ctx.count("directed_cases")
        if want is None:
            if out.kind == "ok":
                ctx.violation("directed:unbuildable-link-function-dropped", f"{name}: a converter was produced and returned {out.value!r}: the field is linked to a function that cannot be called, yet holds its default", {"case": name})
            elif type(out.exc).__name__ != "ProviderNotFoundError":
                ctx.violation(f"directed:unbuildable-link-function:refusal-is-{type(out.exc).__name__}", f"{name}: {out!r:.200}", {"case": name})
        elif out.kind != "ok" or out.value != want:
            ctx.violation("directed:link-function-next-to-unlinked-optional-policy", f"{name}: {out!r:.200}, expected {want!r}", {"case": name})


DIRECTED = {"configured-link-that-cannot-be-built": _configured_link_that_cannot_be_built, "linking-rules": _directed, "recipe-of-this-request": _recipe_of_this_request, "parameters-named-unlike-their-fields": _parameters_named_unlike_their_fields}
from ..suite_leg import make as _suite_leg  # noqa: E402

DIRECTED["suite-under-monitors"] = _suite_leg("C13")

