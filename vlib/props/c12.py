"""C12 - a shared retort is safe under concurrent first use.

Monitor: a deterministic thread scheduler (sys.monitoring LINE events, vlib/monitors/sched.py) drives
2-3 threads issuing first-use load/dump calls on ONE retort through enumerated and sampled
interleavings; every call is compared with a single-threaded reference on a fresh retort, and every
loader obtained concurrently is probed again after quiescence."""
from __future__ import annotations

import typing
from dataclasses import dataclass, field
from typing import Dict, List, Optional

from adaptix import P, Retort, loader
from adaptix.conversion import ConversionRetort

from ..adx import attempt, error_sig
from ..eq import strict_eq
from ..monitors import sched as S


@dataclass
class Node:
    v: int
    kids: List["Node"] = field(default_factory=list)
    nxt: Optional["Node"] = None


@dataclass
class PA:
    v: int
    b: Optional["PB"] = None
    bs: List["PB"] = field(default_factory=list)


@dataclass
class PB:
    w: str
    a: Optional[PA] = None


T = typing.TypeVar("T")


@dataclass
class GNode(typing.Generic[T]):
    x: T
    kids: List["GNode[T]"] = field(default_factory=list)


@dataclass
class Flat:
    a: int
    b: List[str]
    c: Dict[str, int] = field(default_factory=dict)


@dataclass
class FlatTwin:
    """Same fields as Flat: a loader / dumper of the wrong one of the two goes unnoticed unless the result's class is compared."""
    a: int
    b: List[str]
    c: Dict[str, int] = field(default_factory=dict)


@dataclass
class Weighted:
    w: int
    edges: List[typing.Tuple["Weighted", int]] = field(default_factory=list)


WEIGHTED_DATA = {"w": 1, "edges": [[{"w": 2, "edges": [[{"w": 3}, 30]]}, 20], [{"w": 4}, 40]]}


@dataclass
class FlatDst:
    a: int
    b: List[str]


NODE_DATA = {"v": 1, "kids": [{"v": 2, "kids": [{"v": 3, "kids": [{"v": 4}], "nxt": {"v": 5}}]}], "nxt": {"v": 6, "kids": [{"v": 7, "nxt": {"v": 8}}]}}
NODE_OBJ = Node(1, [Node(2, [Node(3, [Node(4)], Node(5))])], Node(6, [Node(7, [], Node(8))]))
PA_DATA = {"v": 1, "b": {"w": "x", "a": {"v": 2, "b": {"w": "y", "a": {"v": 3, "bs": [{"w": "z", "a": {"v": 4}}]}}}}, "bs": [{"w": "q", "a": {"v": 5, "b": {"w": "r"}}}]}
PB_DATA = {"w": "x", "a": PA_DATA}
GNODE_DATA = {"x": 1, "kids": [{"x": 2, "kids": [{"x": 3, "kids": [{"x": 4}]}]}]}
FLAT_DATA = {"a": 1, "b": ["x"], "c": {"k": 1}}


def op_load(tp, data):
    def body(retort):
        ld = retort.get_loader(tp)
        return ld, ld(data)
    body.probe = lambda fn: fn(data)
    body.desc = f"load:{tp!r}"
    return body


def op_dump(tp, obj):
    def body(retort):
        d = retort.get_dumper(tp)
        return d, d(obj)
    body.probe = lambda fn: fn(obj)
    body.desc = f"dump:{tp!r}"
    return body


def op_fload(tp, data):
    """Through the facade method (retort.load), not through an obtained loader: the facade's own bookkeeping is part of the race."""
    def body(retort):
        return (lambda d: retort.load(d, tp)), retort.load(data, tp)
    body.probe = lambda fn: fn(data)
    body.desc = f"retort.load:{tp!r}"
    return body


def op_fdump(tp, obj):
    def body(retort):
        return (lambda o: retort.dump(o, tp)), retort.dump(obj, tp)
    body.probe = lambda fn: fn(obj)
    body.desc = f"retort.dump:{tp!r}"
    return body


class Weird:
    __slots__ = ("v",)

    def __init__(self, *args):
        self.v = args

    def __eq__(self, other):
        return type(other) is Weird and self.v == other.v

    __hash__ = None


@dataclass
class FM:
    f: Optional["FN"] = None


@dataclass
class FN:
    m: FM
    w: Weird


@dataclass
class FC:
    root: FM


FC_DATA = {"root": {"f": {"m": {"f": {"m": {}, "w": 2}}, "w": 1}}}


def failing_retort():
    """Weird is loadable only below FC.root.f: a request for FM alone always FAILS (after it has cached a closure that holds a recursion
    stub), a request for FC always succeeds. Whatever the interleaving, the failing thread gets ProviderNotFoundError and the other one
    its result (seeded change: the failed search released the lock before it dropped its closures from the call cache)."""
    return Retort(recipe=[loader(P[FC].root.f[FN].w, Weird)])


class Bundle:
    """A shared retort and a second retort that has the shared one in its recipe (a retort acting as a provider)."""

    def __init__(self):
        self.shared = Retort()
        self.outer = Retort(recipe=[self.shared])


def on(which, op):
    def body(bundle):
        return op(getattr(bundle, which))
    body.probe, body.desc = op.probe, f"{which}.{op.desc}"
    return body


def op_convert(src, dst, obj):
    def body(retort):
        c = retort.get_converter(src, dst)
        return c, c(obj)
    body.probe = lambda fn: fn(obj)
    body.desc = f"convert:{src.__name__}->{dst.__name__}"
    return body


SCENARIOS = {
    # name: (retort factory, [thread bodies])
    "self-recursive-same": (Retort, [op_load(Node, NODE_DATA), op_load(Node, NODE_DATA)]),
    "mutual-recursive-different-ends": (Retort, [op_load(PA, PA_DATA), op_load(PB, PB_DATA)]),
    "list-of-node-vs-node": (Retort, [op_load(List[Node], [NODE_DATA, NODE_DATA]), op_load(Node, NODE_DATA)]),
    "loader-vs-dumper": (Retort, [op_load(Node, NODE_DATA), op_dump(Node, NODE_OBJ)]),
    "generic-recursive": (Retort, [op_load(GNode[int], GNODE_DATA), op_load(GNode[int], GNODE_DATA)]),
    "non-recursive-same": (Retort, [op_load(Flat, FLAT_DATA), op_load(Flat, FLAT_DATA)]),
    "dumper-same-recursive": (Retort, [op_dump(Node, NODE_OBJ), op_dump(Optional[Node], NODE_OBJ)]),
    "converter": (ConversionRetort, [op_convert(Flat, FlatDst, Flat(1, ["x"])), op_convert(Flat, FlatDst, Flat(2, ["y"]))]),
    "three-threads": (Retort, [op_load(Node, NODE_DATA), op_load(List[Node], [NODE_DATA]), op_load(Optional[Node], NODE_DATA)]),
    # the facade methods themselves, two different types whose data look alike
    "facade-load-different-types": (Retort, [op_fload(Flat, FLAT_DATA), op_fload(FlatTwin, FLAT_DATA)]),
    "facade-dump-different-types": (Retort, [op_fdump(Flat, Flat(1, ["x"], {"k": 1})), op_fdump(Node, NODE_OBJ)]),
    "facade-load-recursive-vs-flat": (Retort, [op_fload(Node, NODE_DATA), op_fload(Flat, FLAT_DATA)]),
    # a request that fails (always) next to one that succeeds (always) on the same recursive models
    "failing-request-vs-success": (failing_retort, [op_load(FM, {"f": None}), op_load(FC, FC_DATA)]),
    "failing-request-vs-success-facade": (failing_retort, [op_fload(FM, {"f": None}), op_fload(FC, FC_DATA)]),
    # a retort used directly by one thread and as a provider inside another retort by the other
    "retort-in-recipe": (Bundle, [on("shared", op_load(Weighted, WEIGHTED_DATA)), on("outer", op_load(Weighted, WEIGHTED_DATA))]),
    "retort-in-recipe-node": (Bundle, [on("outer", op_load(Node, NODE_DATA)), on("shared", op_load(List[Node], [NODE_DATA]))]),
}
QUICK_SWEEP = ("self-recursive-same", "mutual-recursive-different-ends")
THOROUGH_ONLY = ("failing-request-vs-success-facade", "facade-load-recursive-vs-flat", "retort-in-recipe-node")   # variants of scenarios the quick tier has

_REF = {}
_LEN = {}


def reference(name):
    """Single-threaded reference: every body on its own fresh retort."""
    if name not in _REF:
        mk, bodies = SCENARIOS[name]
        _REF[name] = [attempt(lambda b=b: b(mk())[1]) for b in bodies]
    return _REF[name]


def lengths(name):
    """In-scope LINE events of each thread body when it runs first / second without preemption."""
    if name not in _LEN:
        mk, bodies = SCENARIOS[name]
        out = {}
        for start in range(len(bodies)):
            retort = mk()
            sch = S.Scheduler([(lambda b=b: b(retort)) for b in bodies], S.no_switch(), start=start).run()
            out[start] = list(sch.events)
        _LEN[name] = out
    return _LEN[name]


def same(out, ref):
    if out.kind != ref.kind:
        return False
    if out.kind == "ok":
        return strict_eq(out.value, ref.value)
    return type(out.exc) is type(ref.exc) and error_sig(out.exc) == error_sig(ref.exc)


_NO_PROGRESS = {"n": 0}


def run_schedule(ctx, name, policy, label, start=0, params=None):
    if _NO_PROGRESS["n"] >= 3:
        # three schedules of this shard already ended in the watchdog (each costs its full 20 s and each is reported as a violation): the
        # verdict is settled, further schedules would only turn a broken tree into an hour-long run
        ctx.count("schedules_skipped_after_three_watchdogs")
        return None
    mk, bodies = SCENARIOS[name]
    retort = mk()
    sch = S.Scheduler([(lambda b=b: b(retort)) for b in bodies], policy, start=start)
    try:
        sch.run()
    except S.Deadlock as e:
        ctx.count("watchdog_fired")
        _NO_PROGRESS["n"] += 1
        ctx.violation(f"no-progress:{name}", f"{name} [{label} {params}]: threads did not finish: {e}", {"scenario": name, "schedule": label, "params": repr(params)})
        return None
    refs = reference(name)
    fp = sch.fingerprint()
    inside = sum(1 for _ in sch.switches)
    ctx.evaluated((name, fp), nontrivial=inside >= 1)
    ctx.count("schedules")
    ctx.count(f"schedule_{label}")
    ctx.count("context_switches", len(sch.switches))
    ctx.count("lock_handoffs", sch.lock_handoffs)
    ctx.count("inferred_blocks", sch.inferred_blocks)
    ctx.count("line_events", sum(sch.events))
    if sch.switches:
        ctx.count("schedules_with_switch")
    info = {"scenario": name, "schedule": label, "params": repr(params), "start": start, "switches": [list(map(str, s)) for s in sch.switches[:12]], "events": sch.events}
    for i, (body, ref) in enumerate(zip(bodies, refs)):
        if sch.errors[i] is not None:
            out = attempt(_raise, sch.errors[i])
        else:
            out = attempt(lambda i=i: sch.results[i][1])
        if not same(out, ref):
            leaf = _leaf(out.exc) if out.kind != "ok" else None
            key = f"concurrent-first-use:{type(leaf).__name__ if leaf is not None else 'wrong-result'}:{_where(leaf)}"
            ctx.violation(key, f"{name} thread {i} ({body.desc}) [{label} {params}]: {out!r:.300}; single-threaded: {ref!r:.200}", {**info, "thread": i, "outcome": repr(out)[:600]})
            return sch
    # after quiescence every obtained loader/dumper is probed again with deep data, and a fresh call through the facade too
    for i, (body, ref) in enumerate(zip(bodies, refs)):
        if sch.results[i] is None:
            continue
        fn = sch.results[i][0]
        again = attempt(body.probe, fn)
        facade = attempt(lambda b=body: b(retort)[1])
        for what, out in (("obtained-callable-later", again), ("facade-later", facade)):
            if not same(out, ref):
                leaf = _leaf(out.exc) if out.kind != "ok" else None
                ctx.violation(f"concurrent-first-use-later:{what}:{type(leaf).__name__ if leaf is not None else 'wrong-result'}",
                              f"{name} thread {i} ({body.desc}) [{label} {params}] after quiescence {what}: {out!r:.300}", {**info, "thread": i})
                return sch
    return sch


def _raise(e):
    raise e


def _leaf(e):
    while getattr(e, "exceptions", None):
        e = e.exceptions[0]
    return e


def _where(e):
    if e is None:
        return "-"
    import traceback  # noqa: PLC0415

    tb = traceback.extract_tb(e.__traceback__)
    return tb[-1].name if tb else "?"


def setup(ctx):
    S.ensure_registered()
    ctx.count("locks_made_schedulable", S.patch_locks())


def run_exhaustive(ctx):
    """Single-preemption sweep: thread X runs to in-scope point k, the other runs to completion, X resumes."""
    names = list(SCENARIOS) if ctx.tier == "thorough" else list(QUICK_SWEEP)
    i = 0
    for name in names:
        nthreads = len(SCENARIOS[name][1])
        if nthreads != 2:
            continue
        lens = lengths(name)
        for x in (0, 1):
            n = lens[x][x]
            stride = 1 if ctx.tier == "thorough" else 8
            for k in range(ctx.seed % stride, n, stride):
                i += 1
                if i % ctx.nshards != ctx.shard:
                    continue
                run_schedule(ctx, name, S.single_preemption(x, k, 1 - x), "single-preemption", start=x, params=(x, k))
        ctx.count("sweep_points", sum(lens[x][x] for x in (0, 1)) if ctx.shard == 0 else 0)
    if ctx.tier == "quick":
        # the other scenarios: a stride over their points with a shard-dependent phase
        for name in SCENARIOS:
            if name in QUICK_SWEEP or name in THOROUGH_ONLY or len(SCENARIOS[name][1]) != 2:
                continue
            lens = lengths(name)
            for x in (0, 1):
                n = lens[x][x]
                stride = max(1, n // 40)
                points = set(range((ctx.shard * 7 + ctx.seed) % stride, n, stride * ctx.nshards // 2 or 1))
                # the first and the last statements of a request are where the facade does its own bookkeeping: every point there
                edge = [k for k in list(range(min(n, 24))) + list(range(max(0, n - 24), n))]
                points |= {k for j, k in enumerate(edge) if j % ctx.nshards == ctx.shard}
                for k in sorted(points):
                    run_schedule(ctx, name, S.single_preemption(x, k, 1 - x), "single-preemption-stride", start=x, params=(x, k))


def run_case(ctx, rng, idx):
    name = rng.choice([n for n in SCENARIOS if ctx.tier == "thorough" or n not in THOROUGH_ONLY])
    nthreads = len(SCENARIOS[name][1])
    lens = lengths(name)
    kind = rng.choice(["two-preemptions", "two-preemptions", "pct", "random", "random"])
    if nthreads == 3:
        kind = rng.choice(["pct", "random"])
    if kind == "two-preemptions":
        x = rng.choice([0, 1])
        k1 = rng.randrange(lens[x][x])
        k2 = rng.randrange(1, max(2, lens[x][1 - x]))
        params = (x, k1, 1 - x, k2)
        sch = run_schedule(ctx, name, S.two_preemptions(*params), kind, start=x, params=params)
    elif kind == "pct":
        seed = rng.randrange(10**9)
        import random  # noqa: PLC0415

        depth = rng.choice([2, 3, 4])
        sch = run_schedule(ctx, name, S.pct(random.Random(seed), nthreads, depth, sum(lens[0])), kind, start=rng.randrange(nthreads), params=(seed, depth))
    else:
        seed = rng.randrange(10**9)
        p = rng.choice([0.002, 0.01, 0.05])
        import random  # noqa: PLC0415

        sch = run_schedule(ctx, name, S.random_switching(random.Random(seed), p, nthreads), kind, start=rng.randrange(nthreads), params=(seed, p))
    if idx < 2 and sch is not None:
        ctx.sample({"scenario": name, "schedule": kind, "switches": [list(map(str, s)) for s in sch.switches[:6]], "events_per_thread": sch.events})
    if idx % 25 == 0:
        stress(ctx, rng)


def stress(ctx, rng):
    """Free-running stress leg (decides nothing alone; adds OS-scheduled interleavings of 8 threads)."""
    import sys  # noqa: PLC0415
    import threading  # noqa: PLC0415

    old = sys.getswitchinterval()
    sys.setswitchinterval(1e-6)
    try:
        retort = Retort()
        errs = []
        barrier = threading.Barrier(8)

        def work():
            barrier.wait()
            try:
                if not strict_eq(retort.load(NODE_DATA, Node), NODE_OBJ):
                    errs.append("wrong result")
            except Exception as e:  # noqa: BLE001
                errs.append(e)
        ts = [threading.Thread(target=work) for _ in range(8)]
        for t in ts:
            t.start()
        for t in ts:
            t.join(20)
        ctx.count("stress_runs")
        ctx.evaluated(("stress", ctx.shard, ctx.counters.get("stress_runs")), nontrivial=False)
        if errs:
            leaf = _leaf(errs[0]) if isinstance(errs[0], BaseException) else None
            ctx.violation(f"concurrent-first-use:{type(leaf).__name__ if leaf is not None else 'wrong-result'}:{_where(leaf)}", f"free-running stress, 8 threads: {errs[0]!r}", {"errors": [repr(e)[:300] for e in errs[:3]]})
    finally:
        sys.setswitchinterval(old)


def _witness(ctx):
    """Thread 0 paused inside the creation window while thread 1 creates and deep-calls the same recursive loader."""
    lens = lengths("self-recursive-same")
    n = lens[0][0]
    for k in range(0, n, max(1, n // 60)):
        run_schedule(ctx, "self-recursive-same", S.single_preemption(0, k, 1), "directed-single-preemption", start=0, params=(0, k))
    # every line of the guarded search function itself (lock, search, cleanup after a failure), of every retort involved, in the failing
    # thread: the other thread's whole request is placed there (seeded change, found three times: the cache was cleared after the lock had been released; at seed 1 no random
    # schedule hit that window of two lines)
    for j in range(400):
        pol = S.preemption_inside(0, "_provide_from_recipe", j, 1)
        run_schedule(ctx, "failing-request-vs-success", pol, "directed-preemption-inside-the-guarded-search", start=0, params=(0, j))
        if not pol.fired:
            break
    ctx.count("guarded_search_preemption_points", j)


def _guard_does_not_change_what_a_retort_is(ctx):
    """The lock that serialises searches (repository fix 6ad978d) is internal: a fresh retort can still be deep-copied, and a
    ConversionRetort pickled, as on the pinned tree (the first version of the fix stored a bare RLock and broke both: fixed 1185944);
    every copy owns its own lock."""
    import copy  # noqa: PLC0415
    import pickle  # noqa: PLC0415

    from adaptix import Retort  # noqa: PLC0415
    from adaptix.conversion import ConversionRetort  # noqa: PLC0415
    for label, fn in (("deepcopy(Retort())", lambda: copy.deepcopy(Retort())), ("deepcopy(ConversionRetort())", lambda: copy.deepcopy(ConversionRetort())),
                      ("copy(Retort())", lambda: copy.copy(Retort())), ("pickle(ConversionRetort())", lambda: pickle.loads(pickle.dumps(ConversionRetort())))):  # noqa: S301
        out = attempt(fn)
        ctx.evaluated(("directed-copy", label), nontrivial=True)
        ctx.count("copies")
        if out.kind != "ok":
            ctx.violation("guard-breaks-copying", f"{label} raised {out.exc!r:.200}", {"what": label})
    r = Retort()
    c = copy.deepcopy(r)
    if getattr(r, "_provide_lock", None) is not None and getattr(c, "_provide_lock", None) is r._provide_lock:
        ctx.violation("guard-shared-between-copies", "a deep copy of a retort shares the search lock of the original", {})
    out = attempt(c.load, ["1"], typing.List[str])
    if out.kind != "ok" or out.value != ["1"]:
        ctx.violation("guard-breaks-copying", f"a deep copy of a fresh retort does not load: {out!r:.200}", {})


DIRECTED = {"unbound-recursion-stub-window": _witness, "guard-does-not-change-what-a-retort-is": _guard_does_not_change_what_a_retort_is}


def teardown(ctx):
    ctx.count("controlled_runs", ctx.counters.get("schedules", 0))
