"""C14 - implicit coercion is type-sound; unlinkable or uncoercible fields are refused.

Monitor: exhaustive sweep over ordered pairs (S, D) of a type pool as the types of a same-named field of a
source and a destination model. Whenever get_converter succeeds the pair must be inside the documented
relation (reference `coercible`) and witness values of S must come out conforming to D at run time;
whenever it refuses, the refusal must be ProviderNotFoundError."""
from __future__ import annotations

import collections
import collections.abc as cabc
import itertools
import types
import typing
from dataclasses import dataclass, field, make_dataclass
from typing import Annotated, Any, Dict, FrozenSet, Iterable, List, Literal, Mapping, NewType, Optional, Sequence, Set, Tuple, Union

from adaptix import ProviderNotFoundError
from adaptix import P
from adaptix.conversion import ConversionRetort, allow_unlinked_optional, forbid_unlinked_optional, get_converter

from ..adx import attempt


@dataclass
class MA:
    x: int
    y: str = "y"


@dataclass
class MB:
    x: int
    y: str = "y"


@dataclass
class MC(MA):
    z: int = 0


@dataclass
class MD:
    x: str


T = typing.TypeVar("T")


@dataclass
class GM(typing.Generic[T]):
    v: T


class MyInt(int):
    pass


NTI = NewType("NTI", int)


class MyTuple(tuple):
    pass


class NTup(typing.NamedTuple):
    a: int
    b: str

# (name, hint, witness values)
POOL = [
    ("int", int, [0, 5]), ("bool", bool, [True]), ("str", str, ["s"]), ("float", float, [1.5]), ("MyInt", MyInt, [MyInt(3)]), ("None", None, [None]), ("Any", Any, [object(), 1]),
    ("List[int]", List[int], [[1, 2], []]), ("list[int]", list[int], [[1]]), ("List[str]", List[str], [["a"]]), ("List[bool]", List[bool], [[True]]), ("List[Any]", List[Any], [[1, "a"]]),
    ("Set[int]", Set[int], [{1}]), ("FrozenSet[int]", FrozenSet[int], [frozenset({1})]), ("Tuple[int,...]", Tuple[int, ...], [(1, 2)]), ("Tuple[str,...]", Tuple[str, ...], [("a",)]),
    ("Tuple[int,str]", Tuple[int, str], [(1, "a")]), ("Tuple[str,int]", Tuple[str, int], [("a", 1)]), ("Tuple[()]", Tuple[()], [()]),
    ("Sequence[int]", Sequence[int], [[1], (2,), collections.deque([3]), collections.UserList([4]), range(2)]), ("Iterable[str]", Iterable[str], [["a"], {"a": 1}.keys(), ("a",), frozenset({"a"})]),
    ("Collection[int]", typing.Collection[int], [{1}, (1,), {1: 2}.keys()]), ("AbstractSet[int]", typing.AbstractSet[int], [frozenset({1}), {1: 2}.keys()]), ("Deque[int]", typing.Deque[int], [collections.deque([1])]),
    ("Dict[str,int]", Dict[str, int], [{"a": 1}]), ("Dict[str,str]", Dict[str, str], [{"a": "b"}]), ("Dict[int,int]", Dict[int, int], [{1: 1}]), ("Mapping[str,int]", Mapping[str, int], [{"a": 1}, types.MappingProxyType({"a": 1}), collections.ChainMap({"a": 1})]),
    ("MutableMapping[str,int]", typing.MutableMapping[str, int], [{"a": 1}, collections.ChainMap({"a": 1}), collections.UserDict({"a": 1})]),
    ("Mapping[str,bool]", Mapping[str, bool], [types.MappingProxyType({"a": True})]),
    ("Optional[int]", Optional[int], [None, 1]), ("Optional[str]", Optional[str], [None, "s"]), ("Optional[List[int]]", Optional[List[int]], [None, [1]]),
    ("Optional[List[str]]", Optional[List[str]], [None, ["a"]]), ("Union[int,str]", Union[int, str], [1, "s"]), ("Union[str,int]", Union[str, int], [1, "s"]),
    ("Union[int,str,None]", Union[int, str, None], [1, "s", None]), ("Union[int,bool,None]", Union[int, bool, None], [1, True, None]), ("Union[List[str],int]", Union[List[str], int], [["a"], 1]),
    ("Union[List[int],int]", Union[List[int], int], [[1], 1]), ("Union[int,float]", Union[int, float], [1, 1.5]),
    ("MA", MA, [MA(1)]), ("MB", MB, [MB(2, "q")]), ("MC", MC, [MC(1, "y", 3)]), ("MD", MD, [MD("s")]), ("GM[int]", GM[int], [GM(1)]), ("GM[str]", GM[str], [GM("s")]),
    ("Optional[MA]", Optional[MA], [None, MA(1)]), ("List[MA]", List[MA], [[MA(1)]]), ("List[MB]", List[MB], [[MB(1)]]), ("Dict[str,MA]", Dict[str, MA], [{"k": MA(1)}]),
    # tuple-ish classes: subclasses of bare `tuple`, but of no parametrised tuple - not even of the one with NO items (known finding)
    ("MyTuple", MyTuple, [MyTuple((1,))]), ("NTup", NTup, [NTup(1, "x")]),
    # PEP 604 spellings: refusing them opposite a model must be a refusal too (defect #106: AttributeError out of the hint text)
    ("int|None", int | None, [None, 1]), ("list[int]|None", list[int] | None, [None, [1]]),
    ("NTI", NTI, [NTI(1)]), ("Annotated[int]", Annotated[int, "m"], [1]), ("Literal[1,2]", Literal[1, 2], [1]), ("Literal['a']", Literal["a"], ["a"]),
]
BY_NAME = {n: (h, w) for n, h, w in POOL}


# ---- independent type description -------------------------------------------------------------------------
def desc(tp):  # noqa: C901, PLR0911
    """('cls', c) | ('any',) | ('none',) | ('union', frozenset) | ('iter', kind, elem) | ('tuple', elems) | ('dict', k, v) | ('lit', values) | ('gen', cls, args) | ('newtype', nt)"""
    if tp is Any:
        return ("any",)
    if tp is None or tp is type(None):
        return ("none",)
    o = typing.get_origin(tp)
    args = typing.get_args(tp)
    if o is Annotated:
        return desc(args[0])
    if o is Union or o is getattr(types, "UnionType", None):
        cases = set()
        for a in args:
            d = desc(a)
            if d[0] == "union":
                cases |= d[1]
            else:
                cases.add(d)
        return ("union", frozenset(cases))
    if o is Literal:
        return ("lit", frozenset((type(a), a) for a in args))
    if o is tuple:
        if len(args) == 2 and args[1] is Ellipsis:
            return ("iter", "tuple", desc(args[0]))
        return ("tuple", tuple(desc(a) for a in args))
    if o in (list, set, frozenset, collections.deque):
        return ("iter", o.__name__, desc(args[0]))
    if o in (cabc.Sequence, cabc.Iterable, cabc.Collection, cabc.Reversible, cabc.MutableSequence, cabc.Set, cabc.MutableSet):
        return ("iter", o.__name__, desc(args[0]))
    if o in (dict, cabc.Mapping, cabc.MutableMapping):
        return ("dict", o.__name__, desc(args[0]), desc(args[1]))
    if o is not None:
        return ("gen", o, tuple(desc(a) for a in args))
    if hasattr(tp, "__supertype__"):
        return ("newtype", tp)
    return ("cls", tp)


ITER_SRC = {"list", "set", "tuple", "deque", "Sequence", "Iterable", "Collection", "Reversible", "MutableSequence", "Set", "MutableSet"}
MODELS = {MA, MB, MC, MD}


def model_fields(cls):
    import dataclasses  # noqa: PLC0415

    return {f.name: (typing.get_type_hints(cls)[f.name], f.default is dataclasses.MISSING and f.default_factory is dataclasses.MISSING) for f in dataclasses.fields(cls)}


def coercible(s, d):  # noqa: C901, PLR0911, PLR0912
    """The documented relation of docs/conversion/tutorial.rst ('Type coercion')."""
    if s == d:
        return True
    if d == ("any",):
        return True
    if s[0] == "cls" and d[0] == "cls":
        if isinstance(s[1], type) and isinstance(d[1], type) and issubclass(s[1], d[1]):
            return True
        if s[1] in MODELS and d[1] in MODELS:
            sf, df = model_fields(s[1]), model_fields(d[1])
            for name, (dtp, _req) in df.items():
                if name not in sf:
                    return False    # default policy: every destination field (optional ones too) must be linked
                if not coercible(desc(sf[name][0]), desc(dtp)):
                    return False
            return True
        return False
    if d[0] == "union":
        if s[0] == "union":
            if s[1] <= d[1]:
                return True
        elif s in d[1]:
            return True
        # Optional -> Optional with coercible payloads
        if s[0] == "union" and ("none",) in s[1] and ("none",) in d[1] and len(s[1]) == 2 and len(d[1]) == 2:
            (sp,) = s[1] - {("none",)}
            (dp,) = d[1] - {("none",)}
            return coercible(sp, dp)
        return False
    if s[0] == "iter" and d[0] == "iter":
        return s[1] in ITER_SRC and d[1] in ITER_SRC and coercible(s[2], d[2])
    if s[0] == "dict" and d[0] == "dict":
        return coercible(s[2], d[2]) and coercible(s[3], d[3])
    return False


def conforms(v, d):  # noqa: C901, PLR0911, PLR0912
    """Run-time conformance of a value to a described type."""
    k = d[0]
    if k == "any":
        return True
    if k == "none":
        return v is None
    if k == "cls":
        if d[1] in MODELS and isinstance(v, d[1]):
            import dataclasses  # noqa: PLC0415

            hints = typing.get_type_hints(d[1])
            return all(conforms(getattr(v, f.name), desc(hints[f.name])) for f in dataclasses.fields(d[1]))
        if d[1] is float:
            return isinstance(v, float)
        return isinstance(v, d[1])
    if k == "newtype":
        return conforms(v, desc(d[1].__supertype__))
    if k == "union":
        return any(conforms(v, c) for c in d[1])
    if k == "lit":
        return (type(v), v) in d[1]
    if k == "iter":
        expected = {"list": list, "set": set, "frozenset": frozenset, "tuple": tuple, "deque": collections.deque, "Sequence": cabc.Sequence, "Iterable": cabc.Iterable,
                    "Collection": cabc.Collection, "Reversible": cabc.Reversible, "MutableSequence": cabc.MutableSequence, "Set": cabc.Set, "MutableSet": cabc.MutableSet}[d[1]]
        return isinstance(v, expected) and not isinstance(v, str) and all(conforms(x, d[2]) for x in v)
    if k == "tuple":
        return isinstance(v, tuple) and len(v) == len(d[1]) and all(conforms(x, e) for x, e in zip(v, d[1]))
    if k == "dict":
        expected = {"dict": dict, "Mapping": cabc.Mapping, "MutableMapping": cabc.MutableMapping}[d[1]]   # a mappingproxy in a Dict field is not type-sound
        return isinstance(v, expected) and all(conforms(a, d[2]) and conforms(b, d[3]) for a, b in v.items())
    if k == "gen":
        if not isinstance(v, d[1]):
            return False
        if d[1] is GM:
            return conforms(v.v, d[2][0])
        return True
    return False


WRAPPERS = {
    "plain": (lambda h: h, lambda w: w),
    "List": (lambda h: List[h], lambda w: [w]),
    "Optional": (lambda h: Optional[h], lambda w: w),
    "Dict": (lambda h: Dict[str, h], lambda w: {"k": w}),
}


def check_pair(ctx, sname, dname, wrapper):
    (sh, sw), (dh, _) = BY_NAME[sname], BY_NAME[dname]
    wh, ww = WRAPPERS[wrapper]
    try:
        s_hint, d_hint = wh(sh), wh(dh)
    except TypeError:
        return
    Src = make_dataclass("Src", [("f", s_hint)])
    Dst = make_dataclass("Dst", [("f", d_hint)])
    made = attempt(get_converter, Src, Dst)
    ok_ref = coercible(desc(s_hint), desc(d_hint))
    ctx.evaluated((sname, dname, wrapper), nontrivial=sname != dname)
    ctx.count("pairs")
    ctx.count("produced" if made.kind == "ok" else "refused")
    info = {"src": repr(s_hint), "dst": repr(d_hint), "wrapper": wrapper}
    if made.kind != "ok":
        if not isinstance(made.exc, ProviderNotFoundError):
            ctx.violation(f"refusal-is-{type(made.exc).__name__}:{_shape(desc(sh))}->{_shape(desc(dh))}", f"{s_hint!r} -> {d_hint!r}: creation failed with {made.exc!r}, not ProviderNotFoundError", info)
        elif ok_ref:
            ctx.count("refused_although_documented_coercible")   # completeness is recorded, not asserted
        return
    if not ok_ref:
        # witness: a value of S that the converter places in D without conforming to it
        witness = None
        for w in sw:
            out = attempt(made.value, Src(ww(w)))
            if out.kind == "ok" and not conforms(out.value.f, desc(d_hint)):
                witness = (w, out.value.f)
                break
        key = f"unsound-coercion:{_shape(desc(sh))}->{_shape(desc(dh))}"
        if desc(dh) == ("tuple", ()) and desc(sh)[0] == "cls" and isinstance(desc(sh)[1], type) and issubclass(desc(sh)[1], tuple):
            key = "unsound-coercion:tuple-class->empty-parametrisation"     # known finding: Tuple[()] has no arguments and so passes for 'not generic'
        ctx.violation(key,
                      f"{s_hint!r} -> {d_hint!r} is outside the documented relation but a converter was produced" + (f"; witness {witness[0]!r} -> {witness[1]!r} does not conform" if witness else ""),
                      {**info, "witness": repr(witness)})
        return
    for w in sw:
        out = attempt(made.value, Src(ww(w)))
        ctx.count("witness_conversions")
        if out.kind != "ok":
            ctx.violation(f"converter-raises:{type(out.exc).__name__}:{_shape(desc(sh))}->{_shape(desc(dh))}", f"{s_hint!r} -> {d_hint!r}: converting {w!r} raised {out.exc!r}", info)
            break
        if not conforms(out.value.f, desc(d_hint)):
            ctx.violation(f"result-does-not-conform:{_shape(desc(sh))}->{_shape(desc(dh))}", f"{s_hint!r} -> {d_hint!r}: {w!r} became {out.value.f!r}, which is not a {d_hint!r}", info)
            break


def _shape(d):
    return d[0] if d[0] not in ("cls",) else ("model" if d[1] in MODELS else "class")


def check_refusal_after_enabling_recipe(ctx, rng=None):
    """Whether a pair is refused is a function of (source, destination, recipe of THIS request): having converted the same pair a moment
    ago with a per-call recipe that allowed it (a coercer, allow_unlinked_optional) must not make the plain request succeed, in either
    order, through get_converter, convert, and a user retort (seeded change: converter cache keyed without the recipe)."""
    from adaptix.conversion import ConversionRetort, coercer, convert  # noqa: PLC0415

    def fresh():
        S = make_dataclass("S", [("a", int), ("n", int)])
        DCo = make_dataclass("DCo", [("a", int), ("n", str)])                       # int -> str: no implicit coercion
        DUn = make_dataclass("DUn", [("a", int), ("n", int), ("x", int, field(default=5))])   # unlinked optional: refused by default
        return S, DCo, DUn
    for api in ("get_converter", "convert", "retort.get_converter", "retort.convert"):
        for order in ("enabled-first", "plain-first"):
            S, DCo, DUn = fresh()
            retort = ConversionRetort()
            for dst, enabler, label in ((DCo, [coercer(int, str, str)], "coercer"), (DUn, [allow_unlinked_optional("x")], "unlinked-optional")):
                def ask(recipe, dst=dst):
                    if api == "get_converter":
                        return attempt(lambda: get_converter(S, dst, recipe=recipe)(S(1, 2)))
                    if api == "convert":
                        return attempt(lambda: convert(S(1, 2), dst, recipe=recipe))
                    if api == "retort.get_converter":
                        return attempt(lambda: retort.get_converter(S, dst, recipe=recipe)(S(1, 2)))
                    return attempt(lambda: retort.convert(S(1, 2), dst, recipe=recipe))
                seq = [("enabled", enabler), ("plain", []), ("enabled", enabler), ("plain", [])] if order == "enabled-first" else [("plain", []), ("enabled", enabler), ("plain", [])]
                for step, (kind, recipe) in enumerate(seq):
                    out = ask(recipe)
                    ctx.evaluated(("refusal-history", api, order, label, step))
                    ctx.count("refusal_history_requests")
                    if kind == "plain" and out.kind == "ok":
                        ctx.violation(f"refused-pair-converted-after-enabling-recipe:{label}", f"{api}: request #{step} for S -> {dst.__name__} WITHOUT recipe gave {out.value!r} "
                                      f"after the same pair had been converted with a per-call {label} recipe ({order})", {"api": api, "order": order, "label": label})
                        break
                    if kind == "plain" and not isinstance(out.exc, ProviderNotFoundError):
                        ctx.violation(f"refusal-is-{type(out.exc).__name__}:history", f"{api}/{label}/{order}: {out.exc!r}", {})
                        break
                    if kind == "enabled" and out.kind != "ok":
                        ctx.violation(f"enabled-pair-refused-after-plain-request:{label}", f"{api}: request #{step} for S -> {dst.__name__} with the {label} recipe failed ({out!r:.200}) ({order})",
                                      {"api": api, "order": order, "label": label})
                        break


def check_policies(ctx):
    """A destination field without a linked source: required -> refused; optional -> refused by default, allowed on request."""
    @dataclass
    class S:
        a: int

    @dataclass
    class DReq:
        a: int
        b: int

    @dataclass
    class DOpt:
        a: int
        b: int = 5

    @dataclass
    class DFac:
        a: int
        b: List[int] = field(default_factory=list)

    cases = [
        ("required-unlinked", S, DReq, [], False), ("optional-unlinked-default-policy", S, DOpt, [], False), ("factory-unlinked-default-policy", S, DFac, [], False),
        ("optional-unlinked-allowed", S, DOpt, [allow_unlinked_optional()], True), ("factory-unlinked-allowed", S, DFac, [allow_unlinked_optional("b")], True),
        ("required-unlinked-allowed-optional-only", S, DReq, [allow_unlinked_optional()], False),
    ]
    for name, s, d, recipe, should in cases:
        made = attempt(get_converter, s, d, recipe=recipe)
        ctx.evaluated(("policy", name))
        ctx.count("policy_cases")
        if should:
            if made.kind != "ok":
                ctx.violation(f"policy:{name}:refused", f"{name}: {made.exc!r}", {})
            else:
                out = made.value(s(1))
                if out != d(1):
                    ctx.violation(f"policy:{name}:wrong-default", f"{name}: {out!r}", {})
        elif made.kind == "ok":
            ctx.violation(f"policy:{name}:produced", f"{name}: a converter was produced for an unlinked field", {})
        elif not isinstance(made.exc, ProviderNotFoundError):
            ctx.violation(f"policy:{name}:refusal-is-{type(made.exc).__name__}", f"{name}: {made.exc!r}", {})


@dataclass
class _PSN:
    k: int


@dataclass
class _PS:
    a: int
    n: _PSN


@dataclass
class _PSb:
    a: int
    n: _PSN
    b: int


@dataclass
class _PDN:
    k: int
    z: int = 7


@dataclass
class _PD:
    a: int
    n: _PDN
    b: int = 5
    c: List[int] = field(default_factory=list)


# predicate (built anew for every use) -> the unlinked optional destination fields it matches
_POLICY_PREDS = [
    ("<all>", lambda: (), {"b", "c", "z"}), ("'b'", lambda: ("b",), {"b"}), ("'c'", lambda: ("c",), {"c"}), ("'z'", lambda: ("z",), {"z"}),
    ("P[D].b", lambda: (P[_PD].b,), {"b"}), ("P[DN].z", lambda: (P[_PDN].z,), {"z"}), ("P[D].z", lambda: (P[_PD].z,), set()), ("int", lambda: (int,), {"b", "z"}),
    ("List[int]", lambda: (List[int],), {"c"}), ("'b','z'", lambda: ("b", "z"), {"b", "z"}), ("P.b|P.c", lambda: (P.b | P.c,), {"b", "c"}), ("'nope'", lambda: ("nope",), set()),
    ("P[D].n.z", lambda: (P[_PD].n.z,), {"z"}), ("str", lambda: (str,), set()),
]


def check_policy_order(ctx, rng):
    """Unlinked optional destination fields (top level, default factory, inside a nested model) under a random sequence of allow / forbid
    policies split between the per-call recipe and the retort's recipe: for each field the FIRST matching policy decides (per-call recipe
    before the retort's), the default is forbid, and a converter exists iff every unlinked optional field is allowed."""
    n = rng.randint(0, 4)
    pols = [(rng.random() < 0.6, rng.choice(_POLICY_PREDS)) for _ in range(n)]
    if rng.random() < 0.45:
        pols.append((True, _POLICY_PREDS[0]))   # a closing allow-everything keeps the allowed outcomes frequent; the forbids before it must still win
        n += 1
    cut = rng.randint(0, n)
    src = rng.choice([_PS, _PS, _PSb])
    unlinked = {"c", "z"} | ({"b"} if src is _PS else set())
    verdict = {}
    for f in unlinked:
        verdict[f] = False
        for allow, (_, _, matches) in pols:
            if f in matches:
                verdict[f] = allow
                break
    should = all(verdict.values())
    build = lambda items: [(allow_unlinked_optional if allow else forbid_unlinked_optional)(*mk()) for allow, (_, mk, _) in items]  # noqa: E731
    label = " ; ".join(("allow" if a else "forbid") + "(" + lbl + ")" for a, (lbl, _, _) in pols[:cut]) + " || " + " ; ".join(("allow" if a else "forbid") + "(" + lbl + ")" for a, (lbl, _, _) in pols[cut:])
    api = rng.choice(["retort.get_converter", "retort.convert"])
    retort = ConversionRetort(recipe=build(pols[cut:]))
    value = src(1, _PSN(2), 9) if src is _PSb else src(1, _PSN(2))
    if api == "retort.convert":
        made = attempt(retort.convert, value, _PD, recipe=build(pols[:cut]))
    else:
        made = attempt(retort.get_converter, src, _PD, recipe=build(pols[:cut]))
    ctx.evaluated(("policy-order", label, src.__name__, api), nontrivial=n > 0)
    ctx.count("policy_order_cases")
    ctx.count("policy_order_" + ("allowed" if should else "refused"))
    info = {"recipe (per-call || retort)": label, "src": src.__name__, "expected": verdict, "api": api}
    if should:
        if made.kind != "ok":
            ctx.violation("policy-order:allowed-fields-refused", f"{label} [{src.__name__}, {api}]: {made.exc!r}", info)
            return
        out = made.value if api == "retort.convert" else attempt(made.value, value).value
        want = _PD(1, _PDN(2), 9 if src is _PSb else 5, [])
        if out != want:
            ctx.violation("policy-order:wrong-result", f"{label} [{src.__name__}, {api}]: {out!r} != {want!r}", info)
    elif made.kind == "ok":
        ctx.violation("policy-order:forbidden-unlinked-field-accepted", f"{label} [{src.__name__}, {api}]: a converter was produced although {sorted(f for f, v in verdict.items() if not v)} are forbidden", info)
    elif not isinstance(made.exc, ProviderNotFoundError):
        ctx.violation(f"policy-order:refusal-is-{type(made.exc).__name__}", f"{label}: {made.exc!r}", info)


def run_exhaustive(ctx):
    names = [n for n, _, _ in POOL]
    wrappers = ["plain"] if ctx.tier == "quick" else list(WRAPPERS)
    i = 0
    for w in wrappers:
        for s, d in itertools.product(names, repeat=2):
            i += 1
            if i % ctx.nshards != ctx.shard:
                continue
            check_pair(ctx, s, d, w)
    if ctx.shard == 0:
        check_policies(ctx)
        ctx.count("pool_size", len(names))


def run_case(ctx, rng, idx):
    """Quick tier: wrappers are sampled (thorough enumerates them)."""
    names = [n for n, _, _ in POOL]
    for _ in range(12):
        s, d = rng.choice(names), rng.choice(names)
        w = rng.choice(["List", "Optional", "Dict"])
        if idx < 1:
            ctx.sample({"src": s, "dst": d, "wrapper": w, "documented_coercible": coercible(desc(WRAPPERS[w][0](BY_NAME[s][0])), desc(WRAPPERS[w][0](BY_NAME[d][0])))})
        check_pair(ctx, s, d, w)
    for _ in range(6):
        check_policy_order(ctx, rng)


def _witness(ctx):
    for s, d in [("List[int]", "Optional[List[str]]"), ("List[int]", "Union[List[str],int]"), ("Tuple[()]", "Tuple[()]"), ("Tuple[()]", "List[int]"), ("Union[int,str,None]", "Union[int,bool,None]")]:
        check_pair(ctx, s, d, "plain")


def _self_typed_fields(ctx):
    """Known finding: typing.Self of the source model and typing.Self of the destination model are one and the same object, so the
    same-type coercer passes a SOURCE instance unchanged into a field whose static type is the DESTINATION class."""
    try:
        from typing import Self  # noqa: PLC0415
    except ImportError:
        return
    Node = make_dataclass("NodeS14", [("value", int), ("next", Optional[Self], field(default=None))])
    DTO = make_dataclass("NodeD14", [("value", int), ("next", Optional[Self], field(default=None))])
    Kids = make_dataclass("KidsS14", [("kids", List[Self], field(default_factory=list))])
    KidsD = make_dataclass("KidsD14", [("kids", List[Self], field(default_factory=list))])
    for s, d, value, pick in ((Node, DTO, lambda: Node(1, Node(2)), lambda o: o.next), (Kids, KidsD, lambda: Kids([Kids()]), lambda o: o.kids[0])):
        made = attempt(get_converter, s, d)
        ctx.evaluated(("self-typed", s.__name__))
        ctx.count("witness_conversions")
        if made.kind != "ok":
            if not isinstance(made.exc, ProviderNotFoundError):
                ctx.violation(f"self-typed-field:refusal-is-{type(made.exc).__name__}", f"{s.__name__} -> {d.__name__}: {made.exc!r}", {})
            continue
        out = attempt(made.value, value())
        if out.kind != "ok" or not isinstance(pick(out.value), d):
            ctx.violation("unsound-coercion:typing.Self", f"get_converter({s.__name__}, {d.__name__}) was produced; the field typed Self of {d.__name__} holds {pick(out.value) if out.kind == 'ok' else out!r:.120}", {"src": s.__name__, "dst": d.__name__})


DIRECTED = {"self-typed-fields": _self_typed_fields, "union-origin-only-and-empty-tuple": _witness, "refusal-does-not-depend-on-history": check_refusal_after_enabling_recipe}
