"""C07 - strict_coercion only narrows.

Monitor: pairwise differential between the strict and the lax program of the same type and debug
mode + the documented 'allowed strict origins' table (from vlib/spec.py)."""
from __future__ import annotations

from .. import hostile, spec
from ..adx import DEBUG_MODES, attempt, make_retort, mode_name
from ..eq import strict_eq
from ..workload import ONE_SHOT, Program, data_bag, gen_node
from .c02 import sub_pairs

SCALAR_TABLE = {"int", "float", "str", "bool", "Decimal", "Fraction", "complex", "LiteralString"}


def pair(node, dt, prog, fac, one_shot):
    shared = None if one_shot else fac()
    s = attempt(prog.loaders[dt, True], fac() if one_shot else shared)
    l = attempt(prog.loaders[dt, False], fac() if one_shot else shared)
    if s.kind != "ok":
        return None, s, l
    if l.kind != "ok":
        return "strict-accepts-lax-rejects", s, l
    if strict_eq(s.value, l.value) or (one_shot and " at 0x" in repr(s.value)):
        return None, s, l
    # different values: legitimate only where the laxer rules make union/literal cases overlap
    if node.kinds() & {"Union", "Optional", "Literal"}:
        v = node.accept(fac(), False)
        if v.k == spec.U or (v.k == spec.A and spec.matches(v, l.value)):
            return None, s, l
    return "strict-lax-value-differs", s, l


def localise(node, d, dt, mis):
    for child, subd in sub_pairs(node, d):
        try:
            prog = Program.__new__(Program)
            prog.loaders = {(dt, sc): make_retort(dt, sc).get_loader(child.hint) for sc in (True, False)}
        except Exception:  # noqa: BLE001
            continue
        m, _, _ = pair(child, dt, prog, (lambda subd=subd: subd), False)
        if m == mis:
            return localise(child, subd, dt, mis)
    return node, d


def check(ctx, node, prog, bag):
    if any(k[0] == "loader" for k in prog.creation_errors):
        ctx.count("creation_errors")
        return
    for label, fac, one_shot in bag:
        for dt in DEBUG_MODES:
            m, s, l = pair(node, dt, prog, fac, one_shot)
            lax_only = s.kind != "ok" and l.kind == "ok"
            ctx.evaluated((node.src, label, repr(fac())[:200], dt.name), nontrivial=s.kind == "ok" or lax_only)
            ctx.count("pairs")
            ctx.count("strict_ok" if s.kind == "ok" else "lax_only" if lax_only else "both_reject")
            if m is not None:
                lnode, ld = (node, fac()) if one_shot else localise(node, fac(), dt, m)
                ctx.violation(f"{m}:{lnode.kind}:{type(ld).__name__}", f"{node.src} <- {label} [{dt.name}]: strict {s!r}, lax {l!r}",
                              {"type": node.src, "datum": repr(fac())[:300], "strict": repr(s), "lax": repr(l), "localised": lnode.src})
            # allowed strict origins (scalar table of the docs): strict acceptance of a datum the table excludes
            if s.kind == "ok" and node.kind in SCALAR_TABLE:
                v = node.accept(fac(), True)
                if v.k == spec.R:
                    ctx.violation(f"strict-origin-outside-table:{node.kind}:{type(fac()).__name__}",
                                  f"strict {node.src} accepted {fac()!r} whose type is outside the allowed strict origins", {"type": node.src, "datum": repr(fac())})


def run_case(ctx, rng, idx):
    node = gen_node(rng, ctx.tier, with_models=True)
    prog = Program(node)
    _, bag = data_bag(rng, node, n_valid=3, n_mut=12, n_pool=30)
    ctx.count("programs")
    if idx < 3:
        ctx.sample({"type": node.src, "data": [lbl for lbl, _, _ in bag][:10]})
    check(ctx, node, prog, bag)


def _table(ctx):
    bag = [(lbl, fac, lbl in ONE_SHOT) for lbl, fac in hostile.POOL]
    for n in spec._SCALARS:
        check(ctx, n, Program(n), bag)
    # strict containers never take str / Mapping (no dict or str to a list), no bool for an int Literal
    for n, lbl in [(spec.IterT("List", spec.AnyT()), "'a'"), (spec.IterT("List", spec.AnyT()), "{'a':1}"), (spec.IterT("Sequence", spec.StrT()), "'a'"),
                   (spec.TupleT([spec.AnyT()]), "'a'"), (spec.TupleT([spec.AnyT()]), "{0:1}"), (spec.IterT("List", spec.AnyT()), "MyStr('q')"),
                   (spec.TupleT([spec.AnyT()]), "MyStr('q')"), (spec.IterT("Set", spec.StrT()), "MyStr('q')"), (spec.IterT("List", spec.AnyT()), "MyDict"), (spec.LiteralT((0, 1)), "True"), (spec.LiteralT((1, 2, 3, 4, 5)), "True"),
                   (spec.LiteralT((False, True)), "1")]:
        prog = Program(n)
        for dt in DEBUG_MODES:
            out = attempt(prog.loaders[dt, True], hostile.POOL_BY_LABEL[lbl]())
            ctx.evaluated(("strict-container", n.src, lbl, dt.name))
            if out.kind == "ok" and n.accept(hostile.POOL_BY_LABEL[lbl](), True).k == spec.R:
                ctx.violation(f"strict-origin-outside-table:{n.kind}:{lbl}", f"strict {n.src} accepted {lbl} -> {out!r}", {"type": n.src})


def _one_shot_iterables(ctx):
    """Iterators, generators and map objects (the whole datum, or an element of it) where an iterable or a fixed tuple is expected: what strict
    takes, lax takes too, in every debug mode (seeded change: the lax FIRST / ALL fixed-tuple loader lost its tuple(data) and met len())."""
    I, S = spec.IntT(), spec.StrT()
    pair2 = spec.TupleT([I, I])
    cases = [(spec.TupleT([I]), (7,)), (spec.TupleT([I, S]), (1, "a")), (spec.TupleT([I, S, I]), (1, "a", 2)), (spec.TupleT([pair2, S]), ((1, 2), "z")), (spec.TupleT([]), ())]
    cases += [(spec.IterT(k, I), [1, 2, 3]) for k in ("List", "Set", "FrozenSet", "Deque", "VarTuple", "Sequence", "Iterable", "Collection")]
    cases += [(spec.IterT("List", pair2), [(1, 2), (3, 4)]), (spec.IterT("VarTuple", spec.TupleT([I])), [(1,), (2,)]), (spec.DictT("Dict", S, pair2), {"k": (1, 2)})]
    wraps = [("iter", iter), ("generator", lambda v: (x for x in v)), ("map", lambda v: map(lambda x: x, v)), ("reversed", lambda v: reversed(list(reversed(list(v)))))]

    def shapes(v):
        # the whole datum one-shot, or every direct child one-shot
        if isinstance(v, dict):
            for wn, w in wraps:
                yield f"values-{wn}", (lambda v=v, w=w: {k: w(x) for k, x in v.items()})
            return
        for wn, w in wraps:
            yield f"whole-{wn}", (lambda v=v, w=w: w(v))
            if v and all(isinstance(x, tuple) for x in v):
                yield f"children-{wn}", (lambda v=v, w=w: [w(x) for x in v])
                yield f"both-{wn}", (lambda v=v, w=w: w([w(x) for x in v]))
            elif any(isinstance(x, tuple) for x in v):
                yield f"children-{wn}", (lambda v=v, w=w: [w(x) if isinstance(x, tuple) else x for x in v])
    for node, v in cases:
        prog = Program(node)
        check(ctx, node, prog, [(lbl, fac, True) for lbl, fac in shapes(v)])
        ctx.count("one_shot_shapes", sum(1 for _ in shapes(v)))


def _confusable_literals(ctx):
    """All spellings of {0|False} x {1|True} in ONE type: strict mode must not take a bool where the int literal is required (and vice versa)."""
    sets = [(0, 1), (False, True), (0, True), (False, 1), (1, 0), (True, False), ("x", 0, True), ("x", False, True)]
    for order in (sets, list(reversed(sets))):
        node = spec.TupleT([spec.LiteralT(m) for m in order])
        prog = Program(node)
        for vals in ([0] * 8, [False] * 8, [1] * 8, [True] * 8, [0, False, 0, False, 1, True, 0, False], [m[0] for m in order], [m[-1] for m in order]):
            for dt in DEBUG_MODES:
                out = attempt(prog.loaders[dt, True], list(vals))
                v = node.accept(list(vals), True)
                ctx.evaluated(("confusable-literals", repr(order)[:80], repr(vals), dt.name))
                ctx.count("pairs")
                if out.kind == "ok" and v.k == spec.R:
                    ctx.violation("strict-origin-outside-table:Literal:bool-int", f"strict {node.src} accepted {vals!r} -> {out.value!r}: a bool was taken for an int literal or vice versa [{dt.name}]", {"type": node.src})
                elif out.kind != "ok" and v.k == spec.A:
                    ctx.violation("strict-rejects-listed-literal:bool-int", f"strict {node.src} rejected {vals!r} although every item is a listed (type, value) member [{dt.name}]: {out!r:.200}", {"type": node.src})


def _confusable_literals_one_by_one(ctx):
    """The same spellings, every literal type on its own loader (all obtained from ONE retort per mode) and every confusable datum alone:
    a wrongly ACCEPTED datum is not masked by a neighbour that is rightly rejected (seeded change: type and value were checked independently,
    Literal[0, True] took False)."""
    sets = [(0, 1), (False, True), (0, True), (False, 1), (1, 0), (True, False), ("x", 0, True), ("x", False, True), (1, False, 2, 3, 4, 5), (True, 0, 2, 3, 4, 5), (0, True, "a", "b", "c", "d", "e")]
    data = [0, False, 1, True, "x", 2, 1.0, 0.0]
    for order in (sets, list(reversed(sets))):
        for dt in DEBUG_MODES:
            retort = make_retort(dt, True)
            for m in order:
                node = spec.LiteralT(m)
                ld = attempt(retort.get_loader, node.hint)
                if ld.kind != "ok":
                    ctx.violation("no-loader:Literal", f"{node.src}: {ld.exc!r}", {})
                    continue
                for d in data:
                    out, v = attempt(ld.value, d), node.accept(d, True)
                    ctx.evaluated(("confusable-literal-alone", repr(m), repr(d), dt.name, order is sets))
                    ctx.count("pairs")
                    if out.kind == "ok" and v.k == spec.R:
                        ctx.violation("strict-origin-outside-table:Literal:bool-int", f"strict {node.src} accepted {d!r} ({type(d).__name__}) -> {out.value!r}: no listed member has that type AND value [{dt.name}]",
                                      {"type": node.src, "datum": repr(d)})
                    elif out.kind != "ok" and v.k == spec.A:
                        ctx.violation("strict-rejects-listed-literal:bool-int", f"strict {node.src} rejected its own member {d!r} ({type(d).__name__}) [{dt.name}]: {out!r:.150}", {"type": node.src})


def _modes_of_clones(ctx):
    """'The otherwise identical retort with strict_coercion=False' is usually obtained by replace(): whatever the original has served
    before, the clone applies ITS coercion mode (seeded change: clones shared the loader cache of the original)."""
    from adaptix import Retort  # noqa: PLC0415

    probes = [(int, "12", 12), (float, "1.5", 1.5), (spec.IterT("List", spec.IntT()).hint, ["1"], [1]), (bool, 1, True)]
    for dt in DEBUG_MODES:
        for tp, lax_only_datum, lax_value in probes:
            for first in ("lax", "strict"):
                base = Retort(debug_trail=dt, strict_coercion=first == "strict")
                warm = attempt(base.load, lax_only_datum, tp)
                clone = base.replace(strict_coercion=first != "strict")
                out = attempt(clone.load, lax_only_datum, tp)
                back = attempt(clone.replace(strict_coercion=first == "strict").load, lax_only_datum, tp)
                ctx.evaluated(("modes-of-clones", repr(tp), first, dt.name))
                ctx.count("pairs")
                want_clone_ok = first == "strict"      # the clone of a strict retort is lax: it accepts the lax-only datum
                if (out.kind == "ok") != want_clone_ok or (out.kind == "ok" and out.value != lax_value):
                    ctx.violation("clone-keeps-coercion-mode-of-the-original", f"{first} retort served {lax_only_datum!r} for {tp!r} ({warm!r:.60}), its replace(strict_coercion={first != 'strict'}) "
                                  f"clone gives {out!r:.100}", {"type": repr(tp), "first": first, "mode": dt.name})
                if (back.kind == "ok") != (warm.kind == "ok"):
                    ctx.violation("clone-keeps-coercion-mode-of-the-original", f"{first} -> clone -> clone back: {warm!r:.60} vs {back!r:.60}", {"type": repr(tp)})


def _enum_members_in_literals(ctx):
    """Literal of enum members under every enum representation: whatever strict accepts lax accepts too, with an equal value of the same
    type, and every accepted load returns a MEMBER of the literal - a look-alike of a mixed-in member (1, True, 1.0 for IE.A == 1) is
    never returned as is (defect #89: the untyped fallback membership test compared the data with the members themselves)."""
    import enum  # noqa: PLC0415
    import typing as t  # noqa: PLC0415

    from adaptix import Retort, enum_by_name, enum_by_value  # noqa: PLC0415

    class IE(enum.IntEnum):
        A = 1
        B = 2

    class SE(str, enum.Enum):
        X = "x"
    # Literal[IE.A, 2] / Literal[SE.X, "y"]: a plain member that EQUALS another, unlisted member of the same enum (IE.B == 2) stays plain (defect #101)
    class SE2(str, enum.Enum):
        X = "x"
        Y = "y"
    cases = [(t.Literal[IE.A], (IE.A,)), (t.Literal[IE.A, "x", 5], (IE.A, "x", 5)), (t.Literal[SE.X, 0], (SE.X, 0)), (t.List[t.Literal[IE.A, IE.B]], None),
             (t.Literal[IE.A, 2], (IE.A, 2)), (t.Literal[SE2.X, "y"], (SE2.X, "y")), (t.Literal[IE.A, 2, 3, 4, 5, 6], (IE.A, 2, 3, 4, 5, 6))]
    data = [1, True, 1.0, 2, "A", "a", "x", "X", "y", "Y", 0, False, 5, IE.A, SE.X, None]
    for pname, mk in (("default", lambda: []), ("enum_by_value", lambda: [enum_by_value(IE, tp=int)]), ("enum_by_name", lambda: [enum_by_name()])):
        for dt in DEBUG_MODES:
            strict, lax = Retort(recipe=mk(), debug_trail=dt, strict_coercion=True), Retort(recipe=mk(), debug_trail=dt, strict_coercion=False)
            for hint, members in cases:
                for d in data:
                    datum = [d] if members is None else d
                    a, b = attempt(strict.load, datum, hint), attempt(lax.load, datum, hint)
                    ctx.evaluated(("enum-literal", pname, repr(hint), repr(d), dt.name), nontrivial=True)
                    ctx.count("pairs")
                    info = {"provider": pname, "type": repr(hint), "datum": repr(d), "mode": dt.name}
                    if a.kind == "ok" and (b.kind != "ok" or type(a.value) is not type(b.value) or a.value != b.value):
                        ctx.violation("strict-and-lax-load-differently:Literal:enum-member", f"{pname} {hint!r} <- {d!r}: strict {a!r:.80}, lax {b!r:.80}", info)
                    for which, o in (("strict", a), ("lax", b)):
                        if o.kind != "ok":
                            continue
                        got = o.value[0] if members is None else o.value
                        legal = (IE.A, IE.B) if members is None else members
                        # a look-alike of a PLAIN member (2.0 for 2, SE.X for 'x') is the documented grey zone of Literal; one of an ENUM member is not
                        # ... unless the loader PRODUCED it: an enum member that is not the datum itself and is not listed (IE.B for 2 in Literal[IE.A, 2])
                        if not any(got is m or (not isinstance(m, enum.Enum) and got == m and (not isinstance(got, enum.Enum) or got is d)) for m in legal):
                            ctx.violation("literal-returns-non-member:enum-member", f"{pname} {which} {hint!r} <- {d!r}: returned {got!r} ({type(got).__name__}), which is no member of the literal", info)


def _list_layouts_refuse_mappings(ctx):
    """'No dict or str to a list' also where the list is the layout of a MODEL (name_mapping(as_list=True), nested list paths): a mapping
    with integer keys passes every lookup by index (defect #88); lax may take it, strict never."""
    import collections  # noqa: PLC0415
    import types  # noqa: PLC0415
    import typing as t  # noqa: PLC0415
    from dataclasses import make_dataclass  # noqa: PLC0415

    from adaptix import Retort, name_mapping  # noqa: PLC0415
    from adaptix.load_error import LoadError  # noqa: PLC0415
    ML = make_dataclass("ML", [("a", int), ("b", str)])
    NT = t.NamedTuple("NTL", [("a", int), ("b", str)])
    Nested = make_dataclass("Nested", [("a", int), ("b", str)])
    shapes = [("as_list", ML, [name_mapping(ML, as_list=True)], lambda d: d), ("namedtuple-as_list", NT, [name_mapping(NT, as_list=True)], lambda d: d),
              ("nested-list-path", Nested, [name_mapping(Nested, map={"a": ("pair", 0), "b": ("pair", 1)})], lambda d: {"pair": d})]
    data = [("dict-int-keys", {0: 1, 1: "x"}), ("dict-int-keys+junk", {0: 1, 1: "x", "junk": 3}), ("mappingproxy", types.MappingProxyType({0: 1, 1: "x"})),
            ("ordered-dict", collections.OrderedDict([(0, 1), (1, "x")])), ("str", "1x"), ("list", [1, "x"]), ("tuple", (1, "x"))]
    for label, cls, recipe, wrap in shapes:
        for dt in DEBUG_MODES:
            strict, lax = Retort(recipe=recipe, debug_trail=dt, strict_coercion=True), Retort(recipe=recipe, debug_trail=dt, strict_coercion=False)
            for dl, d in data:
                a, b = attempt(strict.load, wrap(d), cls), attempt(lax.load, wrap(d), cls)
                ctx.evaluated(("list-layout", label, dl, dt.name), nontrivial=True)
                ctx.count("pairs")
                info = {"layout": label, "datum": dl, "mode": dt.name}
                if dl in ("list", "tuple"):
                    if a.kind != "ok" or b.kind != "ok":
                        ctx.violation("list-layout-refuses-a-sequence", f"{label} <- {dl}: strict {a!r:.80}, lax {b!r:.80}", info)
                elif a.kind == "ok":
                    ctx.violation(f"strict-origin-outside-table:list-layout:{type(d).__name__}", f"strict {label} accepted the {dl} {d!r} -> {a.value!r}", info)
                elif not isinstance(a.exc, LoadError) and not all(isinstance(e, LoadError) for e in getattr(a.exc, "exceptions", ()) or [a.exc]):
                    ctx.violation(f"non-loaderror:list-layout:{type(a.exc).__name__}", f"strict {label} <- {dl}: {a.exc!r:.120}", info)
                if a.kind == "ok" and b.kind != "ok":
                    ctx.violation("strict-accepts-what-lax-rejects:list-layout", f"{label} <- {dl}: strict {a!r:.80}, lax {b!r:.80}", info)


DIRECTED = {"one-shot-iterables": _one_shot_iterables, "list-layouts-refuse-mappings": _list_layouts_refuse_mappings, "enum-members-in-literals": _enum_members_in_literals, "coercion-mode-of-clones": _modes_of_clones, "scalar-table-x-pool": _table, "confusable-literals-in-one-type": _confusable_literals, "confusable-literals-one-by-one": _confusable_literals_one_by_one}
