"""C10 - predicates (types, strings, P patterns, combinators) match as documented.

Monitor: a reference evaluator over a predicate AST is compared with
create_loc_stack_checker(pred).check_loc_stack on an exhaustively enumerated universe of expressions x
location stacks; the documented identities are compared as whole truth tables; an integration leg checks
loader(pred, marker) on real nested models against the reference evaluated on the stacks adaptix builds."""
from __future__ import annotations

import itertools
import re
import typing
from abc import ABC, abstractmethod
from dataclasses import dataclass
from types import MappingProxyType
from typing import List, NewType, Optional, Protocol, runtime_checkable

from adaptix import P, Retort, create_loc_stack_checker, loader
from adaptix._internal.model_tools.definitions import DescriptorAccessor, NoDefault
from adaptix._internal.provider.loc_stack_filtering import LocStack
from adaptix._internal.provider.location import GenericParamLoc, InputFieldLoc, OutputFieldLoc, TypeHintLoc

from ..adx import attempt


class A:
    pass


class A1(A):
    pass


class Abs(ABC):
    @abstractmethod
    def f(self): ...


class Impl(Abs):
    def f(self): ...


class ImplChild(Impl):
    """Child of a CONCRETE class whose metaclass is ABCMeta: P[Impl] is exact, it does not match the child."""


@runtime_checkable
class Proto(Protocol):
    def g(self): ...


class PImpl:
    def g(self): ...


NT = NewType("NT", int)
LOC_TYPES = [A, A1, Abs, Impl, ImplChild, Proto, PImpl, int, str, List[int], List[str], list, NT, Optional[int]]
FIELD_IDS = ["a", "b", "ab"]

# ---- independent description of types (typing introspection only, no normalize_type) --------------------


def origin_of(tp):
    o = typing.get_origin(tp)
    if o is not None:
        return o
    return tp


def norm_key(tp):
    """Canonical (origin, args) pair good enough for the universe (no aliases / no unions of unions)."""
    o = typing.get_origin(tp)
    if o is None:
        if tp is list:
            return (list, (typing.Any,))
        return (tp, ())
    args = typing.get_args(tp)
    if o is typing.Union:
        return (typing.Union, frozenset(norm_key(a) for a in args))
    return (o, tuple(norm_key(a) for a in args))


ABSTRACT = {Abs, Proto}
ATOMS = [
    ("A", A), ("A1", A1), ("Abs", Abs), ("Impl", Impl), ("Proto", Proto), ("int", int), ("list", list), ("List", List), ("NT", NT), ("List[int]", List[int]),
    ("Optional[int]", Optional[int]), ("'a'", "a"), ("'ab'", "ab"), ("'a.*'", "a.*"), ("'a|b'", "a|b"), ("re(b?)", re.compile("b?")),
    ("ANY", P.ANY),    # matches every location - but a chain element still needs a location to exist (seeded change: a leading P.ANY no longer did)
]
ATOM_BY_NAME = dict(ATOMS)


def atom_ref(name, loc):  # noqa: PLR0911
    pred = ATOM_BY_NAME[name]
    if name == "ANY":
        return True
    if isinstance(pred, (str, re.Pattern)):
        fid = getattr(loc, "field_id", None)
        if fid is None:
            return False
        if isinstance(pred, str) and pred.isidentifier():
            return fid == pred
        return re.fullmatch(pred, fid) is not None
    tp = loc.type
    if pred in ABSTRACT:
        o = origin_of(tp)
        try:
            return isinstance(o, type) and issubclass(o, pred)
        except TypeError:
            return False
    if pred in (List[int], Optional[int]):
        return norm_key(tp) == norm_key(pred)
    if pred is List or pred is list:
        return origin_of(tp) is list
    return origin_of(tp) is pred     # concrete classes and NewType: exact


# ---- expression AST ------------------------------------------------------------------------------------
# ('atom', name) | ('not', e) | ('or'|'and'|'xor', e1, e2) | ('chain', [e...]) | ('garg', pos, name) | ('tuple', [names])
def ev(e, stack):  # noqa: PLR0911
    k = e[0]
    if k == "atom":
        return atom_ref(e[1], stack[-1])
    if k == "not":
        return not ev(e[1], stack)
    if k == "or":
        return ev(e[1], stack) or ev(e[2], stack)
    if k == "and":
        return ev(e[1], stack) and ev(e[2], stack)
    if k == "xor":
        return ev(e[1], stack) != ev(e[2], stack)
    if k == "tuple":
        return any(atom_ref(n, stack[-1]) for n in e[1])
    if k == "garg":
        loc = stack[-1]
        return isinstance(loc, GenericParamLoc) and loc.generic_pos == e[1] and atom_ref(e[2], loc)
    if k == "chain":
        els = e[1]
        n = len(els)
        if len(stack) < n:
            return False
        return all(ev(el, stack[:len(stack) - (n - 1 - i)]) for i, el in enumerate(els))
    raise AssertionError(e)


def build(e, style=0):  # noqa: C901, PLR0911
    """Adaptix predicate for the AST; `style` varies how it is spelled (raw checker algebra vs. P algebra)."""
    k = e[0]
    if k == "atom":
        pred = ATOM_BY_NAME[e[1]]
        return P[pred] if style % 2 else pred
    if k == "tuple":
        return P[tuple(ATOM_BY_NAME[n] for n in e[1])]
    if k == "garg":
        return P.generic_arg(e[1], ATOM_BY_NAME[e[2]])

    def lsc(x):
        b = build(x, style)
        return b if style % 2 and not isinstance(b, (str, re.Pattern, type)) and hasattr(b, "build_loc_stack_checker") else create_loc_stack_checker(b)
    if k == "not":
        return ~lsc(e[1])
    if k == "or":
        return lsc(e[1]) | lsc(e[2])
    if k == "and":
        return lsc(e[1]) & lsc(e[2])
    if k == "xor":
        return lsc(e[1]) ^ lsc(e[2])
    if k == "chain":
        def extend(pat, els):
            for el in els:
                if el[0] == "atom":
                    pred = ATOM_BY_NAME[el[1]]
                    pat = getattr(pat, pred) if isinstance(pred, str) and pred.isidentifier() and style % 2 else pat[pred]
                elif el[0] == "tuple":
                    pat = pat[tuple(ATOM_BY_NAME[n] for n in el[1])]
                elif el[0] == "garg":
                    pat = pat.generic_arg(el[1], ATOM_BY_NAME[el[2]])
                else:
                    pat = pat[create_loc_stack_checker(build(el, style))]
            return pat
        els = e[1]
        how = (style // 2) % 4
        if how == 0 or len(els) < 2:
            return extend(P, els)
        # concatenation with `+`: every split point and both groupings denote the same chain
        cut = 1 + (style // 8) % (len(els) - 1)
        if how == 1:
            return extend(P, els[:cut]) + extend(P, els[cut:])
        if how == 2:   # right-nested: a + (b + (c + ...))
            pat = extend(P, els[-1:])
            for el in reversed(els[:-1]):
                pat = extend(P, [el]) + pat
            return pat
        pat = extend(P, els[:1])   # left-nested: ((a + b) + c) + ...
        for el in els[1:]:
            pat = pat + extend(P, [el])
        return pat
    raise AssertionError(e)


def show(e):
    k = e[0]
    if k == "atom":
        return e[1]
    if k == "not":
        return f"~({show(e[1])})"
    if k in ("or", "and", "xor"):
        return f"({show(e[1])} {k} {show(e[2])})"
    if k == "tuple":
        return "P[" + ", ".join(e[1]) + "]"
    if k == "garg":
        return f"generic_arg({e[1]}, {e[2]})"
    return "P" + "".join(f"[{show(x)}]" for x in e[1])


# ---- universes -------------------------------------------------------------------------------------------
def all_locs():
    out = []
    for t in LOC_TYPES:
        out.append(TypeHintLoc(type=t))
        out.append(GenericParamLoc(type=t, generic_pos=0))
        out.append(GenericParamLoc(type=t, generic_pos=1))
        for f in FIELD_IDS:
            out.append(InputFieldLoc(type=t, field_id=f, default=NoDefault(), metadata=MappingProxyType({}), is_required=True))
        out.append(OutputFieldLoc(type=t, field_id="a", default=NoDefault(), metadata=MappingProxyType({}), accessor=DescriptorAccessor("a", None)))
    return out


def expressions(level):
    atoms = [("atom", n) for n, _ in ATOMS]
    yield from atoms
    yield ("tuple", ["A", "int"])
    yield ("tuple", ["Abs", "'a'", "NT"])
    yield ("garg", 0, "int")
    yield ("garg", 1, "A")
    l1 = list(atoms)
    for a in atoms:
        yield ("not", a)
        l1.append(("not", a))
    for op in ("or", "and", "xor"):
        for a, b in itertools.product(atoms, repeat=2):
            yield (op, a, b)
    if level >= 2:
        inner = [("or", atoms[0], atoms[4]), ("and", atoms[2], atoms[10]), ("xor", atoms[1], atoms[12]), ("not", atoms[8]), ("not", ("or", atoms[4], atoms[5]))]
        for a in inner:
            yield ("not", a)
        for op in ("or", "and", "xor"):
            for a, b in itertools.product(inner + l1, inner):
                yield (op, a, b)
                yield (op, b, a)


def chains(level, rng=None):
    atoms = [("atom", n) for n, _ in ATOMS]
    special = [("tuple", ["A", "int"]), ("garg", 0, "int"), ("not", ("atom", "int")), ("or", ("atom", "A"), ("atom", "'a'"))]
    els = atoms + special
    for a, b in itertools.product(els, repeat=2):
        yield ("chain", [a, b])
    trip = list(itertools.product(els, repeat=3))
    if level < 2 and rng is not None:
        trip = rng.sample(trip, 600)
    for t in trip:
        yield ("chain", list(t))


def stacks(locs, rng, n2, n3):
    out = [(l,) for l in locs]
    pairs = list(itertools.product(locs, repeat=2))
    out += pairs if n2 is None else rng.sample(pairs, n2)
    for _ in range(n3):
        out.append(tuple(rng.choice(locs) for _ in range(3)))
    return out


def compare(ctx, e, stks, style, what):
    try:
        checker = create_loc_stack_checker(build(e, style))
    except Exception as ex:  # noqa: BLE001
        ctx.violation(f"cannot-create-checker:{e[0]}:{type(ex).__name__}", f"{show(e)}: {ex!r}", {"expr": show(e)})
        return
    bad = 0
    nontriv = e[0] != "atom"
    first_answers = []
    for st in stks:
        got = checker.check_loc_stack(None, LocStack(*st))
        if len(first_answers) < 60:
            first_answers.append(got)
        exp = ev(e, st)
        if got != exp:
            bad += 1
            if bad <= 2:
                ctx.violation(f"{what}:{_shape(e)}", f"{show(e)} on {_show_stack(st)}: adaptix {got}, documented semantics {exp}",
                              {"expr": show(e), "stack": _show_stack(st), "adaptix": got, "reference": exp, "style": style})
    # a predicate is a function of the stack alone: asking again, after every other stack has been asked, gives the same answers
    again = [checker.check_loc_stack(None, LocStack(*st)) for st in stks[:len(first_answers)]]
    ctx.count("re_evaluations", len(again))
    if again != first_answers:
        i = next(i for i, (x, y) in enumerate(zip(first_answers, again)) if x != y)
        ctx.violation(f"predicate-answer-depends-on-history:{_shape(e)}", f"{show(e)} on {_show_stack(stks[i])}: first {first_answers[i]}, asked again {again[i]}",
                      {"expr": show(e), "stack": _show_stack(stks[i]), "style": style})
    ctx.count("evaluations", len(stks))
    ctx.count("expressions")
    if nontriv or any(len(s) > 1 for s in stks[:1]):
        ctx.evaluated((what, show(e), style), nontrivial=True, n=0)


def _shape(e):
    k = e[0]
    if k in ("or", "and", "xor", "not"):
        return k
    if k == "chain":
        return f"chain{len(e[1])}"
    if k == "atom":
        pred = ATOM_BY_NAME[e[1]]
        if isinstance(pred, (str, re.Pattern)):
            return "atom-string"
        return "atom-abstract" if pred in ABSTRACT else "atom-type"
    return k


def _show_stack(st):
    return " / ".join(f"{type(l).__name__}({getattr(l, 'type', None)!r}{',' + l.field_id if hasattr(l, 'field_id') else ''}{',pos=' + str(l.generic_pos) if hasattr(l, 'generic_pos') else ''})" for l in st)


def run_exhaustive(ctx):
    rng = ctx.rng("stacks")
    locs = all_locs()
    level = 1 if ctx.tier == "quick" else 2
    stks = stacks(locs, rng, 900 if level == 1 else None, 400 if level == 1 else 3000)
    i = 0
    for e in itertools.chain(expressions(level), chains(level, ctx.rng("chains"))):
        i += 1
        if i % ctx.nshards != ctx.shard:
            continue
        compare(ctx, e, stks, style=i // ctx.nshards, what="checker-differs")
    if ctx.shard == 0:
        identities(ctx, stks)
    ctx.count("stacks", len(stks) if ctx.shard == 0 else 0)


def identities(ctx, stks):
    def table(pred):
        ch = create_loc_stack_checker(pred)
        return [ch.check_loc_stack(None, LocStack(*s)) for s in stks]
    field_names = ["a", "b", "ab"]
    types = [A, A1, Abs, Proto, int, list, NT, List[int]]
    for n in field_names:
        _ident(ctx, "P['n']==P.n", table(P[n]), table(getattr(P, n)), n)
    for t in types:
        _ident(ctx, "P[A]==A", table(P[t]), table(t), repr(t))
        for n in field_names:
            _ident(ctx, "P[A]+P.n==P[A].n", table(P[t] + getattr(P, n)), table(getattr(P[t], n)), f"{t!r}.{n}")
        for u in types:
            _ident(ctx, "P[A,B]==P[A]|P[B]", table(P[t, u]), table(P[t] | P[u]), f"{t!r},{u!r}")
    # combinators are pointwise boolean operations
    for t, u in itertools.product(types[:5], [*types[:3], "a"]):
        ta, tb = table(t), table(u)
        _ident(ctx, "a|b pointwise", table(P[t] | P[u]), [x or y for x, y in zip(ta, tb)], f"{t!r}|{u!r}")
        _ident(ctx, "a&b pointwise", table(P[t] & P[u]), [x and y for x, y in zip(ta, tb)], f"{t!r}&{u!r}")
        _ident(ctx, "a^b pointwise", table(P[t] ^ P[u]), [x != y for x, y in zip(ta, tb)], f"{t!r}^{u!r}")
        _ident(ctx, "~a pointwise", table(~P[t]), [not x for x in ta], f"~{t!r}")
    # checkers are re-usable: a second evaluation of the same checker object gives the same table
    for e in [("or", ("atom", "A"), ("atom", "'a'")), ("and", ("atom", "Abs"), ("atom", "'a.*'")), ("xor", ("atom", "int"), ("atom", "'a'")), ("tuple", ["A", "int"])]:
        ch = create_loc_stack_checker(build(e, 1))
        t1 = [ch.check_loc_stack(None, LocStack(*s)) for s in stks]
        t2 = [ch.check_loc_stack(None, LocStack(*s)) for s in stks]
        _ident(ctx, "checker re-evaluation", t1, t2, show(e))


def _ident(ctx, name, t1, t2, what):
    ctx.count("identity_tables")
    ctx.count("evaluations", len(t1))
    ctx.evaluated(("identity", name, what), n=0)
    if t1 != t2:
        idx = next(i for i, (x, y) in enumerate(zip(t1, t2)) if x != y)
        ctx.violation(f"identity-broken:{name}", f"{name} for {what}: truth tables differ at stack #{idx} ({sum(x != y for x, y in zip(t1, t2))} rows)", {"identity": name, "for": what})


# ---- integration leg: markers on real models ------------------------------------------------------------
@dataclass
class Inner:
    a: int
    b: int
    ab: int = 0


@dataclass
class Outer:
    a: int
    inner: Inner
    items: List[Inner]
    b: int = 0


INT_SITES = {
    # site name -> documented stack description: list of (kind, type, field)
    "Outer.a": [("T", Outer), ("F", int, "a")],
    "Outer.b": [("T", Outer), ("F", int, "b")],
    "Outer.inner.a": [("T", Outer), ("F", Inner, "inner"), ("F", int, "a")],
    "Outer.inner.b": [("T", Outer), ("F", Inner, "inner"), ("F", int, "b")],
    "Outer.inner.ab": [("T", Outer), ("F", Inner, "inner"), ("F", int, "ab")],
    "Outer.items[].a": [("T", Outer), ("F", List[Inner], "items"), ("G", Inner, 0), ("F", int, "a")],
    "Outer.items[].b": [("T", Outer), ("F", List[Inner], "items"), ("G", Inner, 0), ("F", int, "b")],
    "Outer.items[].ab": [("T", Outer), ("F", List[Inner], "items"), ("G", Inner, 0), ("F", int, "ab")],
}


def _stack_of(desc):
    out = []
    for d in desc:
        if d[0] == "T":
            out.append(TypeHintLoc(type=d[1]))
        elif d[0] == "F":
            out.append(InputFieldLoc(type=d[1], field_id=d[2], default=NoDefault(), metadata=MappingProxyType({}), is_required=True))
        else:
            out.append(GenericParamLoc(type=d[1], generic_pos=d[2]))
    return tuple(out)


INTEGRATION_PREDS = [
    ("'a'", "a", lambda st: st[-1].field_id == "a"),
    ("'a.*'", "a.*", lambda st: st[-1].field_id.startswith("a")),
    ("P[Inner].a", P[Inner].a, lambda st: st[-1].field_id == "a" and st[-2].type is Inner),
    ("P[Outer].a", P[Outer].a, lambda st: st[-1].field_id == "a" and st[-2].type is Outer),
    ("P[Outer].inner.b", P[Outer].inner.b, lambda st: len(st) >= 3 and st[-1].field_id == "b" and getattr(st[-2], "field_id", None) == "inner" and st[-3].type is Outer),
    ("P[Outer].items[Inner].ab", P[Outer].items[Inner].ab, lambda st: len(st) >= 4 and st[-1].field_id == "ab" and isinstance(st[-2], GenericParamLoc) and getattr(st[-3], "field_id", None) == "items"),
    ("P[Outer].items.generic_arg(0, Inner).a", P[Outer].items.generic_arg(0, Inner).a, lambda st: len(st) >= 4 and st[-1].field_id == "a" and isinstance(st[-2], GenericParamLoc)),
    ("P[Inner].a | P[Outer].b", P[Inner].a | P[Outer].b, lambda st: (st[-1].field_id == "a" and st[-2].type is Inner) or (st[-1].field_id == "b" and st[-2].type is Outer)),
    ("P[int] & ~P.a", P[int] & ~P.a, lambda st: st[-1].field_id != "a"),
    ("P['a', 'b'] ^ P[Inner].a", P["a", "b"] ^ P[Inner].a, lambda st: (st[-1].field_id in ("a", "b")) != (st[-1].field_id == "a" and st[-2].type is Inner)),
]


def integration(ctx):
    datum = {"a": 1, "b": 2, "inner": {"a": 3, "b": 4, "ab": 5}, "items": [{"a": 6, "b": 7, "ab": 8}]}
    for name, pred, ref in INTEGRATION_PREDS:
        r = Retort(recipe=[loader(pred, lambda x: ("M", x))])
        out = attempt(r.load, datum, Outer)
        if out.kind != "ok":
            ctx.violation(f"integration-load-failed:{name}", f"loader({name}, marker): {out!r}", {"pred": name})
            continue
        o = out.value
        got = {
            "Outer.a": o.a, "Outer.b": o.b, "Outer.inner.a": o.inner.a, "Outer.inner.b": o.inner.b, "Outer.inner.ab": o.inner.ab,
            "Outer.items[].a": o.items[0].a, "Outer.items[].b": o.items[0].b, "Outer.items[].ab": o.items[0].ab,
        }
        marked = {k for k, v in got.items() if isinstance(v, tuple)}
        want = {site for site, desc in INT_SITES.items() if ref(_stack_of(desc))}
        ctx.evaluated(("integration", name))
        ctx.count("integration_preds")
        if marked != want:
            ctx.violation(f"integration-marker-set:{name}", f"loader({name}, marker) marked {sorted(marked)}, documented semantics {sorted(want)}", {"pred": name, "marked": sorted(marked), "expected": sorted(want)})
        # the reference AST evaluator must agree with the hand-written expectation on the same stacks (self-check of the oracle)
        ch = create_loc_stack_checker(pred)
        for site, desc in INT_SITES.items():
            st = _stack_of(desc)
            if ch.check_loc_stack(None, LocStack(*st)) != ref(st):
                ctx.violation(f"integration-checker-vs-stack:{name}", f"{name} on documented stack of {site}: checker {not ref(st)}, expected {ref(st)}", {"pred": name, "site": site})


def operands_survive(ctx):
    """Building a derived predicate (x | y, x & y, x ^ y, ~x, x + y, P[x][...]) creates a NEW predicate: the operands keep their truth
    tables (seeded change: `|` appended in place to a left operand that already was an OR)."""
    rng = ctx.rng("operands")
    locs = all_locs()
    stks = stacks(locs, rng, 250, 80)
    atoms = [("atom", n) for n, _ in ATOMS]
    bases = [("or", rng.choice(atoms), rng.choice(atoms)) for _ in range(10)] + [("and", rng.choice(atoms), rng.choice(atoms)) for _ in range(4)] \
        + [("tuple", ["A", "int"]), ("tuple", ["Abs", "'a'", "NT"]), ("xor", atoms[0], atoms[4]), ("not", atoms[2]), ("chain", [atoms[0], atoms[10]])]
    for style in (0, 1):
        for e in bases:
            built = build(e, style)
            from adaptix._internal.provider.loc_stack_filtering import LocStackChecker, LocStackPattern  # noqa: PLC0415

            is_pattern = isinstance(built, LocStackPattern)
            base = built if isinstance(built, LocStackChecker) else create_loc_stack_checker(built)
            table = [base.check_loc_stack(None, LocStack(*st)) for st in stks]
            others = [create_loc_stack_checker(build(rng.choice(atoms), style)) for _ in range(3)]
            derived_ok = True
            for o in others:
                for op in ("or", "ror", "and", "xor", "not", "pattern-or", "pattern-add"):
                    try:
                        if op == "or":
                            _ = base | o
                        elif op == "ror":
                            _ = o | base
                        elif op == "and":
                            _ = base & o
                        elif op == "xor":
                            _ = base ^ o
                        elif op == "not":
                            _ = ~base
                        elif op == "pattern-or" and is_pattern:
                            _ = built | P[int]
                            _ = built | P.a | P.b
                        elif op == "pattern-add" and is_pattern:
                            _ = built + P.a
                            _ = P[int] + built
                    except Exception:  # noqa: BLE001
                        derived_ok = False
            again = [base.check_loc_stack(None, LocStack(*st)) for st in stks]
            ctx.evaluated(("operands-survive", show(e), style), nontrivial=True)
            ctx.count("operand_survival_checks")
            ctx.count("evaluations", 2 * len(stks))
            if not derived_ok:
                ctx.count("derived_expression_not_buildable")
            if again != table:
                i = next(i for i, (x, y) in enumerate(zip(table, again)) if x != y)
                ctx.violation("operand-changed-by-building-a-derived-predicate", f"{show(e)} (style {style}) on {_show_stack(stks[i])}: {table[i]} before, {again[i]} after other predicates "
                              f"were derived from it", {"expr": show(e), "stack": _show_stack(stks[i])})


def facades(ctx):  # noqa: C901
    """Facade functions that take several predicates (bound_by_any): the binding is the OR of the predicates, for every stack,
    however often and in whatever order it is asked; on real retorts every named class is affected."""
    import enum  # noqa: PLC0415

    from adaptix import dumper as dumper_, enum_by_exact_value, enum_by_name, flag_by_exact_value, flag_by_member_names  # noqa: PLC0415
    from adaptix._internal.provider.facade.provider import bound_by_any  # noqa: PLC0415
    from adaptix._internal.provider.loc_stack_filtering import AnyLocStackChecker  # noqa: F401, PLC0415

    rng = ctx.rng("facades")
    locs = all_locs()
    stks = stacks(locs, rng, 300, 100)
    names = [n for n, _ in ATOMS]
    for size in (2, 3, 4):
        for _ in range(12):
            chosen = rng.sample(names, size)
            prov = bound_by_any([ATOM_BY_NAME[n] for n in chosen], dumper_(int, lambda x: x))
            checker = getattr(prov, "_loc_stack_checker", None)
            ctx.evaluated(("bound_by_any", tuple(chosen)))
            ctx.count("facade_bindings")
            if checker is None:
                ctx.count("facade_checker_not_reachable")
                continue
            order = list(stks)
            answers = {}
            for rnd in range(3):
                rng.shuffle(order)
                for st in order:
                    got = checker.check_loc_stack(None, LocStack(*st))
                    exp = any(atom_ref(n, st[-1]) for n in chosen)
                    ctx.count("evaluations")
                    if got != exp:
                        ctx.violation("checker-differs:bound_by_any" if rnd == 0 and st not in answers else "predicate-answer-depends-on-history:bound_by_any",
                                      f"bound_by_any({chosen}) on {_show_stack(st)} (pass {rnd}): adaptix {got}, OR of the predicates {exp}", {"preds": chosen, "pass": rnd})
                        break
                    answers[st] = got
                else:
                    continue
                break

    class Color(enum.Enum):
        RED = 1

    class Shape(enum.Enum):
        BOX = 10

    class Perm(enum.Flag):
        R = 1
        W = 2

    class Mode(enum.Flag):
        X = 1
        Y = 2
    cases = [
        ("enum_by_name(Color, Shape)", [enum_by_name(Color, Shape)], [(Color, Color.RED, "RED"), (Shape, Shape.BOX, "BOX")]),
        ("enum_by_exact_value after enum_by_name", [enum_by_exact_value(Color, Shape), enum_by_name(Color, Shape)], [(Color, Color.RED, 1), (Shape, Shape.BOX, 10)]),
        ("flag_by_member_names(Perm, Mode)", [flag_by_member_names(Perm, Mode)], [(Perm, Perm.R | Perm.W, ["R", "W"]), (Mode, Mode.Y, ["Y"])]),
        ("flag_by_exact_value after names", [flag_by_exact_value(Perm, Mode), flag_by_member_names(Perm, Mode)], [(Perm, Perm.R, 1), (Mode, Mode.Y, 2)]),
    ]
    for name, recipe, expect in cases:
        r = Retort(recipe=recipe)
        # first a request that matches NONE of the predicates, then each class in both orders
        attempt(r.dump, 1, int)
        for tp, value, outer in expect + list(reversed(expect)):
            d, l = attempt(r.dump, value, tp), attempt(r.load, outer, tp)
            ctx.evaluated(("facade-integration", name, tp.__name__))
            ctx.count("facade_integration")
            if d.kind != "ok" or d.value != outer or l.kind != "ok" or l.value != value:
                ctx.violation("facade-binding-ignored:multi-predicate", f"{name}: dump({value!r}) = {d!r}, load({outer!r}) = {l!r}; expected {outer!r} / {value!r}", {"facade": name, "class": tp.__name__})


def prefixes_survive_use(ctx):
    """A pattern object that has already been USED as a predicate (a checker built from it, combined with |, &, ~) and is EXTENDED afterwards
    - book = P[Book]; loader(book, ...); loader(book.price, ...) - yields the chain written in one go (seeded change: the built checker was
    memoised on the pattern object and copied into every derived pattern)."""
    rng = ctx.rng("prefixes")
    locs = all_locs()
    stks = stacks(locs, rng, 250, 120)
    prefixes = [("P[A]", lambda: P[A]), ("P.a", lambda: P.a), ("P[A].b", lambda: P[A].b), ("P[A, int]", lambda: P[A, int]), ("P['a|b']", lambda: P["a|b"]), ("P[A1]", lambda: P[A1])]
    extensions = [(".a", lambda p: p.a), ("['b']", lambda p: p["b"]), ("[int]", lambda p: p[int]), ("+ P.a", lambda p: p + P.a), ("+ P[A1].b", lambda p: p + P[A1].b),
                  (".generic_arg(0, int)", lambda p: p.generic_arg(0, int)), (".a.b", lambda p: p.a.b)]
    uses = [("create_loc_stack_checker", lambda p: create_loc_stack_checker(p)), ("| P[int]", lambda p: p | P[int]), ("~", lambda p: ~p), ("& 'a'", lambda p: create_loc_stack_checker(p) & create_loc_stack_checker("a")),
            ("check", lambda p: create_loc_stack_checker(p).check_loc_stack(None, LocStack(*stks[0])))]
    for pl, mk in prefixes:
        for el, ext in extensions:
            try:
                want_checker = create_loc_stack_checker(ext(mk()))
            except Exception:  # noqa: BLE001
                ctx.count("derived_expression_not_buildable")
                continue
            want = [want_checker.check_loc_stack(None, LocStack(*st)) for st in stks]
            for ul, use in uses:
                p = mk()
                use(p)
                got_checker = create_loc_stack_checker(ext(p))
                got = [got_checker.check_loc_stack(None, LocStack(*st)) for st in stks]
                again = [create_loc_stack_checker(p).check_loc_stack(None, LocStack(*st)) for st in stks]
                base = [create_loc_stack_checker(mk()).check_loc_stack(None, LocStack(*st)) for st in stks]
                ctx.evaluated(("prefix-survives-use", pl, el, ul), nontrivial=True)
                ctx.count("operand_survival_checks")
                ctx.count("evaluations", 3 * len(stks))
                if got != want:
                    i = next(i for i, (a, b) in enumerate(zip(got, want)) if a != b)
                    ctx.violation("pattern-extended-after-use-differs", f"p = {pl}; {ul}(p); p{el} on {_show_stack(stks[i])}: adaptix {got[i]}, the chain written in one go {want[i]}",
                                  {"prefix": pl, "extension": el, "use": ul})
                if again != base:
                    ctx.violation("pattern-changed-by-use", f"p = {pl}; {ul}(p); p{el}: p itself answers differently afterwards", {"prefix": pl, "extension": el, "use": ul})


DIRECTED = {"integration-markers": integration, "multi-predicate-facades": facades, "operands-survive-derivation": operands_survive, "prefixes-survive-use": prefixes_survive_use}


def run_case(ctx, rng, idx):
    """Random larger expressions and deeper stacks (beyond the exhaustive bound)."""
    locs = all_locs()
    atoms = [("atom", n) for n, _ in ATOMS]

    def rnd(d):
        if d <= 0 or rng.random() < 0.3:
            return rng.choice(atoms + [("tuple", ["A", "int"]), ("garg", 0, "int")])
        k = rng.choice(["not", "or", "and", "xor", "chain"])
        if k == "not":
            return ("not", rnd(d - 1))
        if k == "chain":
            return ("chain", [rnd(d - 1) for _ in range(rng.randint(2, 4))])
        return (k, rnd(d - 1), rnd(d - 1))
    e = rnd(3)
    stks = [tuple(rng.choice(locs) for _ in range(rng.randint(1, 5))) for _ in range(150)]
    if idx < 2:
        ctx.sample({"expr": show(e), "stack": _show_stack(stks[0]), "reference": ev(e, stks[0])})
    compare(ctx, e, stks, style=idx, what="checker-differs-random")
