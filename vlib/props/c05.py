"""C05 - load errors are localised: trails exact and, in ALL mode, complete.

Monitor: a fault planter that knows the positions. A valid outer datum of a generated nested type is
corrupted at a set of independent positions; the trails adaptix records (concatenated through nested
groups) are compared with the planted positions: ALL = exactly the planted multiset, FIRST = exactly
one of them with its full trail, DISABLE = no trail."""
from __future__ import annotations

import copy
import itertools
import typing

from adaptix import DebugTrail
from adaptix.struct_trail import ItemKey, get_trail

from .. import layout as L, models, spec
from ..adx import attempt, make_retort, mode_name


# ---- type generator (shapes whose fault positions are unambiguous) ----------------------------------
def leaf(rng):
    return rng.choice([spec.IntT, spec.IntT, spec.BoolT, spec.NoneT, lambda: spec.SCALAR_BY_KIND["date"], lambda: spec.EnumT(spec.EInt),
                       lambda: spec.LiteralT(("a", "b")), lambda: spec.SCALAR_BY_KIND["float"], lambda: spec.SCALAR_BY_KIND["UUID"]])()


BAD = {"int": "x", "bool": "x", "None": 5, "date": "nope", "Enum": "zzz", "Literal": "zzz", "float": "x", "UUID": "zz", "Optional": "zzz~", "Union": "zzz~"}


def gen(rng, depth, ctx):  # noqa: C901, PLR0911
    r = rng.random()
    if depth <= 0 or r < 0.2:
        n = leaf(rng)
        if rng.random() < 0.2 and n.kind != "None":
            ctx.count("shape_optional")
            return spec.UnionT([n, spec.NoneT()])
        if rng.random() < 0.1:
            ctx.count("shape_union")
            return spec.UnionT([spec.IntT(), spec.IterT("List", spec.IntT())])
        return n
    if r < 0.4:
        ctx.count("shape_list")
        return spec.IterT(rng.choice(["List", "VarTuple", "Sequence", "list"]), gen(rng, depth - 1, ctx))
    if r < 0.55:
        ctx.count("shape_dict")
        # keys whose loaded form differs from the input key (date, UUID, enum by value): the trail names the INPUT key (seeded change C05-b)
        key = rng.choice([spec.StrT, spec.StrT, spec.IntT, lambda: spec.SCALAR_BY_KIND["date"], lambda: spec.SCALAR_BY_KIND["UUID"], lambda: spec.EnumT(spec.EInt),
                          lambda: spec.EnumT(spec.EStr)])()
        return spec.DictT(rng.choice(["Dict", "Mapping"]), key, gen(rng, depth - 1, ctx))
    if r < 0.68:
        ctx.count("shape_tuple")
        return spec.TupleT([gen(rng, depth - 1, ctx) for _ in range(rng.randint(1, 3))])
    return gen_model(rng, depth, ctx)


def gen_model(rng, depth, ctx):
    kind = rng.choice(["dataclass", "dataclass", "namedtuple", "attrs", "typeddict"])
    names = rng.sample(["a", "b_", "c_d", "long_name_x", "e1", "q", "item_list"], rng.randint(1, 4))
    fields = []
    for nm in names:
        node = gen(rng, depth - 1, ctx)
        if rng.random() < 0.3 and kind != "typeddict":
            try:
                req, d = models.default_for(rng, node)
                fields.append(models.FieldSpec(nm, node, req, d))
                continue
            except LookupError:
                pass
        fields.append(models.FieldSpec(nm, node))
    fields.sort(key=lambda f: not f.required)
    if rng.random() < 0.55:
        ctx.count("shape_model_default_layout")
        return models.ModelT(kind, fields)
    # layouts: renames, nested paths, list layouts, ExtraForbid
    for _ in range(20):
        nm = L.NM()
        entries = {}
        idx = iter(rng.sample(range(6), 6))
        for f in fields:
            r = rng.random()
            if r < 0.25:
                entries[f.name] = "K_" + f.name
            elif r < 0.45:
                entries[f.name] = ("grp", ...)
            elif r < 0.55:
                entries[f.name] = ("grp", "sub", "k_" + f.name)
            elif r < 0.65 and f.required:
                entries[f.name] = ("lst", next(idx))
        if entries:
            nm.map = [("dict", entries)]
        if rng.random() < 0.3:
            from adaptix import NameStyle  # noqa: PLC0415

            nm.name_style = rng.choice([NameStyle.CAMEL, NameStyle.UPPER_SNAKE, NameStyle.LOWER_KEBAB])
        if rng.random() < 0.15 and all(f.required for f in fields) and kind != "typeddict":   # TypedDict has no documented field order
            nm.as_list = True
            nm.map = L.OMIT
        if rng.random() < 0.4:
            nm.extra_in = "forbid"
        lay = L.resolve(fields, [nm])
        if lay.invalid or lay.problems_in:
            continue
        ctx.count("shape_model_custom_layout")
        if nm.as_list is True:
            ctx.count("shape_model_as_list")
        return models.LModelT(kind, fields, [nm], lay)
    return models.ModelT(kind, fields)


# ---- positions ----------------------------------------------------------------------------------------
class _BadValueT:
    def __repr__(self):
        return "<bad value>"


_BadValue = _BadValueT()      # an object no loader of the grammar accepts


class Pos:
    """A place where one independent fault can be planted."""
    def __init__(self, trail, kind, apply, expect_trail=None, group=None, payload=None):
        self.trail, self.kind, self.apply = tuple(trail), kind, apply
        self.expect_trail = tuple(expect_trail if expect_trail is not None else trail)
        self.group = group          # faults of one dict node that adaptix reports as ONE error (missing keys / unknown keys)
        self.payload = payload
        self.also_expect = ()       # further independently invalid leaves planted by this one position (bad key AND bad value of one item)

    def __repr__(self):
        return f"{self.kind}@{list(self.trail)}"


def setp(root, trail, fn):
    """Applies fn(container, key) at the place addressed by trail (outer datum coordinates)."""
    if not trail:
        raise ValueError("root replacement is handled by the caller")
    cur = root
    for el in trail[:-1]:
        cur = cur[el]
    fn(cur, trail[-1])


def _not_a_container(node, strict, trail, shape=None):
    """What replaces a container at `trail`: a scalar, None, or a container of the WRONG shape (a str or a mapping where a sequence is
    expected - strict loaders name these as excluded types, with their own error class -, a list or a str where a mapping is
    expected); only what the documented rule rejects AS A WHOLE, and the choice depends on the trail only."""
    import zlib  # noqa: PLC0415
    if shape is None:
        shape = "mapping" if isinstance(node, spec.DictT) else "sequence"
    candidates = (5, "text", [1], 5, None) if shape == "mapping" else (5, "text", {"k": 1}, 5, None) if strict else (5, None)
    ok = [c for c in candidates if node is None or node.accept(c, strict).k == spec.R] or [5]
    bad = ok[zlib.crc32(repr(trail).encode()) % len(ok)]
    return lambda c, k: c.__setitem__(k, copy.deepcopy(bad))


def positions(node, datum, trail, strict, out, depth=0):  # noqa: C901, PLR0912, PLR0915
    """Collects fault positions below (node, datum). `datum` is the valid outer datum (lists/dicts)."""
    if isinstance(node, spec.WrapT):
        return positions(node.child, datum, trail, strict, out, depth)
    kindkey = node.kind if node.kind in BAD else ("Enum" if node.kind.endswith("Enum") else None)
    if isinstance(node, spec.UnionT):
        kindkey = "Union"
    if kindkey is not None and not isinstance(node, (spec.IterT, spec.TupleT, spec.DictT)) and not node.is_model:
        bad = BAD[kindkey]
        if node.accept(bad, strict).k == spec.R and trail:
            out.append(Pos(trail, "wrong-type" if kindkey not in ("Union", "Optional") else "union", lambda c, k, bad=bad: c.__setitem__(k, bad)))
        return None
    if isinstance(node, spec.IterT):
        if trail:
            out.append(Pos(trail, "wrong-container", _not_a_container(node, strict, trail)))
        for i, v in enumerate(datum):
            positions(node.elem, v, (*trail, i), strict, out, depth + 1)
        return None
    if isinstance(node, spec.TupleT):
        if trail:
            out.append(Pos(trail, "extra-item", lambda c, k: c.__setitem__(k, [*c[k], None])))
            if node.children:
                out.append(Pos(trail, "missing-item", lambda c, k: c.__setitem__(k, list(c[k])[:-1])))
        for i, (c, v) in enumerate(zip(node.children, datum)):
            positions(c, v, (*trail, i), strict, out, depth + 1)
        return None
    if isinstance(node, spec.DictT):
        if trail:
            out.append(Pos(trail, "wrong-container", _not_a_container(node, strict, trail)))
        for k, v in datum.items():
            positions(node.val, v, (*trail, k), strict, out, depth + 1)
        if node.key.kind == "int" and strict:
            # a key the key loader rejects: expected at ItemKey(key)
            out.append(Pos((*trail, "<badkey>"), "bad-dict-key", None, expect_trail=(*trail, ItemKey("bad key")), payload=("badkey", trail, _valid_value(node.val))))
            if node.val.accept(_BadValue, strict).k == spec.R:
                # ONE item whose key and value are both invalid: two independently invalid leaves (seeded change: ALL skipped the value)
                p2 = Pos((*trail, "<badkey+value>"), "bad-dict-key-and-value", None, expect_trail=(*trail, ItemKey("bad key 2")), payload=("badkey2", trail, _BadValue))
                p2.also_expect = ((*trail, "bad key 2"),)
                out.append(p2)
        return None
    if node.is_model:
        lay = getattr(node, "lay", None)
        if lay is None:
            lay = L.resolve(node.fields, [])
        root = L.tree(lay.paths_in, lay.as_list)
        fb = {f.name: f for f in node.fields}

        def walk(br, d, tr):
            if tr:
                out.append(Pos(tr, "wrong-container", _not_a_container(None, strict, tr, "sequence" if br.is_list else "mapping")))
            if br.is_list:
                for k, c in br.children.items():
                    if isinstance(c, L.Branch):
                        walk(c, d[k], (*tr, k))
                    else:
                        positions(fb[c].node, d[k], (*tr, k), strict, out, depth + 1)
                n = max(br.children) + 1 if br.children else 0
                if tr:
                    out.append(Pos(tr, "missing-item", (lambda c, k: c.__setitem__(k, list(c[k])[:-1])) if n else None))
                    if lay.extra_in == "forbid":
                        out.append(Pos(tr, "extra-item", lambda c, k: c.__setitem__(k, [*c[k], None])))
                return
            for k, c in br.children.items():
                if k not in d:
                    continue
                if isinstance(c, L.Branch):
                    walk(c, d[k], (*tr, k))
                    out.append(Pos((*tr, k), "missing-key", lambda cont, key: cont.pop(key), expect_trail=tr, group=("missing", tr), payload=k))
                else:
                    positions(fb[c].node, d[k], (*tr, k), strict, out, depth + 1)
                    if fb[c].required:
                        out.append(Pos((*tr, k), "missing-key", lambda cont, key: cont.pop(key), expect_trail=tr, group=("missing", tr), payload=k))
            if lay.extra_in == "forbid":
                out.append(Pos((*tr, "<unknown>"), "unknown-key", None, expect_trail=tr, group=("unknown", tr), payload=("unknown", tr)))

        walk(root, datum, trail)
        return None
    return None


def _valid_value(node):
    import random  # noqa: PLC0415

    return node.dump(node.gen(random.Random(1)))


def to_mutable(d):
    if isinstance(d, tuple):
        return [to_mutable(v) for v in d]
    if isinstance(d, list):
        return [to_mutable(v) for v in d]
    if isinstance(d, dict):
        return {k: to_mutable(v) for k, v in d.items()}
    return d


def independent(chosen):
    """No fault lies inside another; container-level faults exclude everything below and each other on one node."""
    for a, b in itertools.combinations(chosen, 2):
        ta, tb = a.trail, b.trail
        if ta == tb:
            return False
        short, long_ = (a, b) if len(ta) < len(tb) else (b, a)
        if long_.trail[:len(short.trail)] == short.trail:
            return False
        # a missing/unknown key fault lives *at* its node: a container-level fault on that node (or above) swallows it
        for x, y in ((a, b), (b, a)):
            if x.kind in ("wrong-container", "extra-item", "missing-item", "union", "wrong-type") and y.expect_trail[:len(x.trail)] == x.trail:
                return False
    return True


def plant(valid, chosen):
    d = copy.deepcopy(valid)
    # deletions last and from the deepest, so that earlier trails stay valid
    order = sorted(chosen, key=lambda p: (p.kind == "missing-key", -len(p.trail)))
    for p in order:
        if p.kind == "unknown-key":
            _, tr = p.payload
            cur = d
            for el in tr:
                cur = cur[el]
            cur["<unknown key>"] = 1
        elif p.kind in ("bad-dict-key", "bad-dict-key-and-value"):
            _, tr, val = p.payload
            cur = d
            for el in tr:
                cur = cur[el]
            cur["bad key" if p.kind == "bad-dict-key" else "bad key 2"] = val
        else:
            setp(d, p.trail, p.apply)
    return d


def expected_trails(chosen):
    """Multiset (sorted list) of absolute trails; faults of one group collapse into one error."""
    out, seen = [], set()
    for p in chosen:
        if p.group is not None:
            if p.group in seen:
                continue
            seen.add(p.group)
        out.append(p.expect_trail)
        out.extend(p.also_expect)
    return sorted(out, key=repr)


def leaves_stop_union(e, prefix=()):
    trail = prefix + tuple(get_trail(e))
    subs = getattr(e, "exceptions", None)
    if subs is None or type(e).__name__ == "UnionLoadError":
        yield trail, e
        return
    for s in subs:
        yield from leaves_stop_union(s, trail)


def follow(datum, trail):
    """Following the trail from the root of the input datum must reach a sub-value (or a key, for ItemKey)."""
    cur = datum
    for el in trail:
        if isinstance(el, ItemKey):
            if el.key not in cur:
                raise KeyError(el)
            return el.key
        cur = cur[el]
    return cur


def _addressed(ctx, datum, trail, e, info):
    """'Following the trail reaches exactly the offending sub-value': what the error itself names as its input (observe_at:
    exc.input_value) is the sub-value its trail addresses (modulo the tuple(data) copy the tuple loaders report)."""
    if not hasattr(e, "input_value"):
        return
    try:
        reached = follow(datum, trail)
    except Exception:  # noqa: BLE001
        return   # reported as trail-does-not-address-input by the caller
    ctx.count("input_value_checks")
    if reached is e.input_value or _same_value(reached, e.input_value):
        return
    ctx.violation(f"input-value-is-not-the-addressed-sub-value:{type(e).__name__}",
                  f"{type(e).__name__} with trail {list(trail)} names input_value={e.input_value!r:.120}, the trail leads to {reached!r:.120}",
                  {**info, "error": repr(e)[:300]})


def _same_value(a, b):
    if isinstance(a, (list, tuple)) and isinstance(b, (list, tuple)):
        return len(a) == len(b) and all(_same_value(x, y) for x, y in zip(a, b))
    if a is b:
        return True
    try:
        return type(a) is type(b) and bool(a == b)
    except Exception:  # noqa: BLE001
        return False


class _Quiet:
    """Ctx stand-in used while minimising a failing multi-fault case."""
    def __init__(self):
        self.keys = []

    def evaluated(self, *a, **k): pass
    def count(self, *a, **k): pass

    def violation(self, key, *a, **k):
        self.keys.append(key)


def check_case(ctx, node, providers, valid, chosen, dt, sc, desc):
    if len(chosen) > 1 and not isinstance(ctx, _Quiet):
        probe = _Quiet()
        check_case(probe, node, providers, valid, chosen, dt, sc, desc)
        if probe.keys:
            # name the mechanism by the smallest failing sub-case: a single fault if one fails alone, else the pair interaction
            for p in chosen:
                single = _Quiet()
                check_case(single, node, providers, valid, [p], dt, sc, desc)
                if single.keys:
                    return check_case(ctx, node, providers, valid, [p], dt, sc, desc)
        else:
            ctx_eval = ctx
            datum = plant(valid, chosen)
            ctx_eval.evaluated((node.src, repr(datum)[:300], dt.name, sc), nontrivial=any(len(p.trail) > 1 for p in chosen))
            ctx.count(f"mode_{dt.name}")
            ctx.count(f"faults_{min(len(chosen), 4)}")
            for p in chosen:
                ctx.count(f"fault_{p.kind}")
            return None
    datum = plant(valid, chosen)
    want = expected_trails(chosen)
    r = make_retort(dt, sc, providers)
    out = attempt(r.load, datum, node.hint)
    ctx.evaluated((node.src, repr(datum)[:300], dt.name, sc), nontrivial=any(len(p.trail) > 1 for p in chosen))
    ctx.count(f"mode_{dt.name}")
    ctx.count(f"faults_{min(len(chosen), 4)}")
    for p in chosen:
        ctx.count(f"fault_{p.kind}")
    info = {**desc, "datum": repr(datum)[:600], "planted": [repr(p) for p in chosen], "expected_trails": [list(map(repr, t)) for t in want], "mode": mode_name(dt, sc), "adaptix": repr(out)[:600]}
    if out.kind == "ok":
        ctx.violation(f"planted-fault-accepted:{chosen[0].kind}", f"{node.src}: planted {chosen} but load succeeded [{mode_name(dt, sc)}]", info)
        return
    if out.kind != "load_error":
        ctx.count("non_loaderror_skipped")   # C04's business
        return
    e = out.exc
    if dt == DebugTrail.ALL:
        have = sorted((t for t, _ in leaves_stop_union(e)), key=repr)
        info["reported_trails"] = [list(map(repr, t)) for t in have]
        if [tuple(map(repr, t)) for t in have] != [tuple(map(repr, t)) for t in want]:
            kinds = sorted({p.kind for p in chosen})
            missing = [t for t in want if tuple(map(repr, t)) not in {tuple(map(repr, h)) for h in have}]
            what = "lost" if len(have) < len(want) else "duplicated-or-spurious" if len(have) > len(want) else "misplaced"
            ctx.violation(f"all-mode-trails-{what}:{'+'.join(kinds)}", f"{node.src}: planted {chosen}, reported trails {have} [{mode_name(dt, sc)}]", info)
            return
        for t, leaf_exc in leaves_stop_union(e):
            try:
                follow(datum, t)
            except Exception as ex:  # noqa: BLE001
                ctx.violation("trail-does-not-address-input", f"trail {t} cannot be followed in the input datum: {ex!r}", info)
            _addressed(ctx, datum, t, leaf_exc, info)
    elif dt == DebugTrail.FIRST:
        t = tuple(get_trail(e))
        if getattr(e, "exceptions", None) is not None and type(e).__name__ != "UnionLoadError":
            ctx.violation("first-mode-raises-group", f"{node.src}: FIRST raised a group {e!r}", info)
        elif tuple(map(repr, t)) not in {tuple(map(repr, w)) for w in want}:
            ctx.violation(f"first-mode-trail-not-planted:{'+'.join(sorted({p.kind for p in chosen}))}", f"{node.src}: FIRST trail {list(t)} is none of the planted {want}", info)
        else:
            _addressed(ctx, datum, t, e, info)
    else:
        t = tuple(get_trail(e))
        if t:
            ctx.violation("disable-mode-has-trail", f"{node.src}: DISABLE attached trail {list(t)}", info)


def run_case(ctx, rng, idx):
    depth = rng.choice([2, 3, 3, 4]) if ctx.tier == "quick" else rng.choice([2, 3, 4, 4])
    node = gen_model(rng, depth, ctx) if rng.random() < 0.6 else spec.TupleT([gen(rng, depth - 1, ctx), gen(rng, depth - 1, ctx)])
    providers = models.collect_providers(node)
    try:
        x = node.gen(rng)
        valid = to_mutable(node.dump(x))
    except LookupError:
        ctx.count("gen_lookup_skip")
        return
    ctx.count("programs")
    desc = {"type": node.src[:600], "valid": repr(valid)[:400]}
    for sc in (True, False):
        # sanity: the valid datum loads
        ok = attempt(make_retort(DebugTrail.ALL, sc, providers).load, copy.deepcopy(valid), node.hint)
        if ok.kind != "ok":
            ctx.count("valid_datum_rejected_skip")
            continue
        pos = []
        positions(node, valid, (), sc, pos)
        if not pos:
            ctx.count("no_positions")
            continue
        subsets = []
        if len(pos) <= 6:
            for k in (1, 2, 3, 4):
                subsets += list(itertools.combinations(pos, k))
        else:
            subsets = [(p,) for p in pos]
            for _ in range(40):
                subsets.append(tuple(rng.sample(pos, rng.choice([2, 2, 3, 4]))))
        rng.shuffle(subsets)
        n = 0
        for chosen in subsets:
            if not independent(chosen):
                continue
            n += 1
            if n > (30 if ctx.tier == "quick" else 120):
                break
            if idx < 1 and n == 1 and sc:
                ctx.sample({"type": node.src[:300], "valid": repr(valid)[:300], "planted": [repr(p) for p in chosen], "expected_trails": [list(map(repr, t)) for t in expected_trails(chosen)]})
            for dt in (DebugTrail.ALL, DebugTrail.FIRST, DebugTrail.DISABLE):
                check_case(ctx, node, providers, valid, list(chosen), dt, sc, desc)


# ---- directed witnesses (run on every invocation, independent of the seed) ---------------------------------------------------------
def _deep_crowns_multi_fault(ctx):
    """A model flattened over THREE levels of the input (crowns at depth 2) with forbidden unknown keys: every subset of seven
    independent faults - wrong containers at depth 1 and 2, bad leaves next to them, unknown keys of enclosing crowns - is reported
    completely under ALL, by one of them under FIRST (seeded change: only depth-1 crowns kept their own handler for 'wrong container',
    so such a fault at depth 2 swallowed whatever the enclosing crowns still had to report)."""
    from dataclasses import make_dataclass  # noqa: PLC0415

    from adaptix import ExtraForbid, Retort, name_mapping  # noqa: PLC0415
    # the keys of a crown are visited in sorted order: "b0" before the nested crowns g1 / g2 / g3, "z" after them
    M = make_dataclass("Deep05", [("a", int), ("b", int), ("c", int), ("d", int), ("d0", int), ("e", int), ("f", int)])
    recipe = [name_mapping(M, map={"a": ("h", "g1", "a"), "b": ("h", "g2", "b"), "c": ("p", "c"), "d": ("h", "z"), "d0": ("h", "b0"), "e": ("h", "g3", 0), "f": ("h", "g3", 1)}, extra_in=ExtraForbid())]

    def valid():
        return {"h": {"g1": {"a": 1}, "g2": {"b": 2}, "z": 4, "b0": 0, "g3": [5, 6]}, "p": {"c": 3}}
    faults = {   # name: (apply, expected trail, names it cannot be combined with)
        "g1-not-a-mapping": (lambda d: d["h"].__setitem__("g1", 5), ("h", "g1"), ()),
        "g2-not-a-mapping": (lambda d: d["h"].__setitem__("g2", [1]), ("h", "g2"), ("bad-b", "junk-in-g2")),
        "g3-not-a-sequence": (lambda d: d["h"].__setitem__("g3", 7), ("h", "g3"), ("bad-f",)),
        "bad-b": (lambda d: d["h"]["g2"].__setitem__("b", "bad"), ("h", "g2", "b"), ("g2-not-a-mapping",)),
        "bad-d": (lambda d: d["h"].__setitem__("z", "bad"), ("h", "z"), ()),
        "bad-f": (lambda d: d["h"]["g3"].__setitem__(1, "bad"), ("h", "g3", 1), ("g3-not-a-sequence",)),
        "bad-c": (lambda d: d["p"].__setitem__("c", "bad"), ("p", "c"), ()),
        "junk-in-h": (lambda d: d["h"].__setitem__("junk", 0), ("h",), ()),
        "junk-in-g2": (lambda d: d["h"]["g2"].__setitem__("junk", 0), ("h", "g2"), ("g2-not-a-mapping",)),
        # required keys missing in SEVERAL input mappings: one error per mapping, each reported once (seeded change, found four times: one
        # 'already reported' flag shared by all crowns; caught at seeds 0 and 1 by a random case only). Missing keys of ONE mapping form a group.
        "missing-a": (lambda d: d["h"]["g1"].pop("a"), ("h", "g1"), ("g1-not-a-mapping",)),
        "missing-b": (lambda d: d["h"]["g2"].pop("b"), ("h", "g2"), ("g2-not-a-mapping", "bad-b")),
        "missing-d": (lambda d: d["h"].pop("z"), ("h", "<missing>"), ("bad-d",)),
        "missing-d0": (lambda d: d["h"].pop("b0"), ("h", "<missing>"), ()),
        "missing-c": (lambda d: d["p"].pop("c"), ("p", "<missing>"), ("bad-c",)),
        # ... and whole sub-mappings that are absent: the key of a nested crown is a required key of the enclosing mapping
        "missing-g1": (lambda d: d["h"].pop("g1"), ("h", "<missing>"), ("g1-not-a-mapping", "missing-a")),
        "missing-g2": (lambda d: d["h"].pop("g2"), ("h", "<missing>"), ("g2-not-a-mapping", "bad-b", "junk-in-g2", "missing-b")),
        "missing-g3": (lambda d: d["h"].pop("g3"), ("h", "<missing>"), ("g3-not-a-sequence", "bad-f")),
        "missing-p": (lambda d: d.pop("p"), ("<missing>",), ("bad-c", "missing-c")),
    }
    names = list(faults)
    for k in ((1, 2, 3) if ctx.tier == "quick" else (1, 2, 3, 4)):
        for chosen in itertools.combinations(names, k):
            if any(o in chosen for n in chosen for o in faults[n][2]):
                continue
            datum = valid()
            for n in chosen:
                faults[n][0](datum)
            want = sorted({faults[n][1] for n in chosen if faults[n][1][-1:] == ("<missing>",)} | set(), key=repr)   # one error per mapping with missing keys
            want = sorted([t[:-1] for t in want] + [faults[n][1] for n in chosen if faults[n][1][-1:] != ("<missing>",)], key=repr)
            for dt in (DebugTrail.ALL, DebugTrail.FIRST, DebugTrail.DISABLE):
                out = attempt(Retort(recipe=recipe, debug_trail=dt).load, copy.deepcopy(datum), M)
                ctx.evaluated(("deep-crowns", chosen, dt.name), nontrivial=True)
                ctx.count(f"mode_{dt.name}")
                ctx.count(f"faults_{min(len(chosen), 4)}")
                info = {"planted": list(chosen), "datum": repr(datum), "mode": dt.name, "adaptix": repr(out)[:400]}
                if out.kind != "load_error":
                    ctx.violation("planted-fault-accepted:deep-crowns" if out.kind == "ok" else f"non-loaderror:deep-crowns:{type(out.exc).__name__}", f"planted {chosen}: {out!r:.200} [{dt.name}]", info)
                    continue
                if dt == DebugTrail.ALL:
                    have = sorted((tuple(t) for t, _ in leaves_stop_union(out.exc)), key=repr)
                    if have != want:
                        what = "lost" if len(have) < len(want) else "duplicated-or-spurious" if len(have) > len(want) else "misplaced"
                        ctx.violation(f"all-mode-trails-{what}:deep-crowns", f"planted {chosen}: reported trails {have}, expected {want}", info)
                elif dt == DebugTrail.FIRST:
                    t = tuple(get_trail(out.exc))
                    if t not in want:
                        ctx.violation("first-mode-trail-not-planted:deep-crowns", f"planted {chosen}: FIRST trail {list(t)} is none of {want}", info)
                elif tuple(get_trail(out.exc)):
                    ctx.violation("disable-mode-has-trail", f"planted {chosen}: DISABLE attached a trail", info)


DIRECTED = {"deep-crowns-multi-fault": _deep_crowns_multi_fault}
