"""C16 - generic models: type arguments are substituted through the class hierarchy.

Monitor: class hierarchies are generated *symbolically* (own AST of classes, type variables, bases and
member annotations), so plain substitution on the AST gives the closed type of every field. Pool types are
pairwise disjoint under strict coercion on JSON data, so acceptance identifies the substitution: data
fitting the substituted types must load (and dump back), data fitting only another substitution must fail."""
from __future__ import annotations

import itertools
import sys
import types
import typing

from adaptix import Retort
from adaptix.load_error import LoadError

from ..adx import attempt
from ..eq import model_fields, strict_eq

# pool: name -> (source text, conforming datum, loaded value)
POOL = {
    "int": ("int", 7, 7),
    "str": ("str", "s", "s"),
    "bool": ("bool", True, True),
    "List[int]": ("List[int]", [1, 2], [1, 2]),
    "Dict[str, str]": ("Dict[str, str]", {"k": "v"}, {"k": "v"}),
    "None": ("None", None, None),
}
POOL_NAMES = list(POOL)
_n = itertools.count()


# texpr: ('tv', name) | ('pool', name) | ('list', t) | ('dict', t) | ('opt', t) | ('tuple', t, u) | ('any',)
def subst(t, env):
    k = t[0]
    if k == "tv":
        return env.get(t[1], t)
    if k in ("pool", "any"):
        return t
    return (k, *[subst(x, env) for x in t[1:]])


def src(t):
    k = t[0]
    if k == "tv":
        return t[1]
    if k == "pool":
        return POOL[t[1]][0]
    if k == "any":
        return "Any"
    if k == "list":
        return f"List[{src(t[1])}]"
    if k == "dict":
        return f"Dict[str, {src(t[1])}]"
    if k == "opt":
        return f"Optional[{src(t[1])}]"
    if k == "union":
        return "Union[" + ", ".join(src(x) for x in t[1:]) + "]"
    return f"Tuple[{src(t[1])}, {src(t[2])}]"


def is_closed(t):
    if t[0] == "tv":
        return False
    return all(is_closed(x) for x in t[1:] if isinstance(x, tuple))


def good(t, rng):
    """(outer datum, loaded value) conforming to closed type t."""
    k = t[0]
    if k == "pool":
        return POOL[t[1]][1], POOL[t[1]][2]
    if k == "any":
        return "anything", "anything"
    if k == "list":
        d, v = good(t[1], rng)
        return [d, d], [v, v]
    if k == "dict":
        d, v = good(t[1], rng)
        return {"a": d}, {"a": v}
    if k == "opt":
        if rng.random() < 0.3:
            return None, None
        return good(t[1], rng)
    if k == "union":
        return good(rng.choice(t[1:]), rng)
    (d1, v1), (d2, v2) = good(t[1], rng), good(t[2], rng)
    return [d1, d2], (v1, v2)


def bad(t, rng):
    """Outer datum that fits the same shape with ANOTHER pool type at one leaf (so only another substitution would accept it); None if impossible."""
    k = t[0]
    if k == "pool":
        others = [n for n in POOL_NAMES if n != t[1] and not (n == "None")]
        return POOL[rng.choice(others)][1]
    if k == "any":
        return None
    if k == "list":
        b = bad(t[1], rng)
        return None if b is None else [good(t[1], rng)[0], b]
    if k == "dict":
        b = bad(t[1], rng)
        return None if b is None else {"a": b}
    if k == "opt":
        inner = t[1]
        if inner == ("pool", "None"):
            return 5
        return bad(inner, rng)
    if k == "union":
        members = {x[1] for x in t[1:] if x[0] == "pool"}
        others = [n for n in POOL_NAMES if n not in members and n != "None"]
        return POOL[rng.choice(others)][1] if others and all(x[0] == "pool" for x in t[1:]) else None
    b = bad(t[1], rng)
    return None if b is None else [b, good(t[2], rng)[0]]


class Cls:
    def __init__(self, name, tvars, bases, own):
        self.name, self.tvars, self.bases, self.own = name, tvars, bases, own     # bases: [(Cls, [texpr args])]

    def fields(self, env=None):
        """Ordered {field: texpr} after substituting this class's type variables with env (MRO-correct for the shapes generated here)."""
        env = env or {}
        out = {}
        for base, args in reversed(self.bases):
            benv = {tv: subst(a, env) for tv, a in zip(base.tvars, args)}
            for k, v in base.fields(benv).items():
                out[k] = v
        for k, v in self.own.items():
            out[k] = subst(v, env)     # an overriding annotation keeps the position of the overridden member
        return out


TV_DECL = {"T1": "TypeVar('T1')", "T2": "TypeVar('T2')", "T3": "TypeVar('T3')", "TB": "TypeVar('TB', bound=int)", "TC": "TypeVar('TC', str, bool)"}
IMPLICIT = {"T1": ("any",), "T2": ("any",), "T3": ("any",), "TB": ("pool", "int"), "TC": ("union", ("pool", "str"), ("pool", "bool"))}


def texpr(rng, tvars, depth=2):
    r = rng.random()
    if depth <= 0 or r < 0.45:
        if tvars and rng.random() < 0.75:
            return ("tv", rng.choice(tvars))
        return ("pool", rng.choice(POOL_NAMES))
    k = rng.choice(["list", "dict", "opt", "tuple"])
    if k == "tuple":
        return ("tuple", texpr(rng, tvars, depth - 1), texpr(rng, tvars, depth - 1))
    inner = texpr(rng, tvars, depth - 1)
    if k == "opt" and inner[0] == "opt":
        return inner
    return (k, inner)


def gen_hierarchy(rng, ctx, kind):  # noqa: C901, PLR0912
    """Returns (classes in definition order, final class)."""
    classes = []
    names = (f"f{i}" for i in itertools.count())
    simple_tvs = ["T1", "T2", "T3"]

    def new_class(bases, tvars, n_own, override_from=None):
        own = {}
        for _ in range(n_own):
            own[next(names)] = texpr(rng, tvars)
        if override_from:
            fname = rng.choice(list(override_from))
            own[fname] = texpr(rng, tvars, 1)         # member overridden by re-annotation
            ctx.count("feature_overridden_member")
        c = Cls(f"G{next(_n)}", tvars, bases, own)
        classes.append(c)
        return c

    shape = rng.choice(["single", "chain", "chain", "chain3", "diamond", "plain-join"]) if kind in ("dataclass", "attrs", "typeddict") else "single"
    if shape == "plain-join" and kind == "attrs":
        shape = "chain"      # two slotted attrs parents cannot be combined (instance lay-out conflict)
    arity = rng.randint(1, 3)
    tv0 = rng.sample(simple_tvs, arity)
    if kind in ("dataclass", "attrs") and rng.random() < 0.25:
        tv0[0] = rng.choice(["TB", "TC"])
        ctx.count("feature_bound_or_constrained_typevar")
    base = new_class([], tv0, rng.randint(1, 3))
    ctx.count(f"shape_{shape}")
    if shape == "single":
        return classes, base
    if shape == "plain-join":
        # two unrelated generic roots, each bound by a PLAIN child; the final class has only plain bases (and may get a plain child):
        # every binding has to be found although the final class has no __orig_bases__ of its own (defect #58)
        def closed_args(c):
            return [rng.choice([("pool", "int"), ("pool", "bool")]) if tv == "TB" else rng.choice([("pool", "str"), ("pool", "bool")]) if tv == "TC"
                    else ("pool", rng.choice(POOL_NAMES)) for tv in c.tvars]
        other = new_class([], rng.sample(simple_tvs, rng.randint(1, 2)), rng.randint(1, 2))
        left = new_class([(base, closed_args(base))], [], rng.randint(0, 1))
        right = new_class([(other, closed_args(other))], [], rng.randint(0, 1))
        final = new_class([(left, []), (right, [])], [], 0)
        if rng.random() < 0.4:
            final = new_class([(final, [])], [], rng.randint(0, 1))
        ctx.count("feature_plain_join_of_bound_generics")
        return classes, final
    if shape in ("chain", "chain3"):
        cur = base
        for _level in range(1 if shape == "chain" else 2):
            child_tvs = rng.sample(simple_tvs, rng.randint(0, 2))
            args = []
            for tv in cur.tvars:
                if tv in ("TB",):
                    args.append(rng.choice([("pool", "int"), ("pool", "bool")]))
                elif tv == "TC":
                    args.append(rng.choice([("pool", "str"), ("pool", "bool")]))
                elif child_tvs and rng.random() < 0.6:
                    args.append(texpr(rng, child_tvs, 1) if rng.random() < 0.3 else ("tv", rng.choice(child_tvs)))   # re-ordering / nesting
                else:
                    args.append(("pool", rng.choice(POOL_NAMES)))                                                    # partial binding
            used = [tv for tv in child_tvs if any(_mentions(a, tv) for a in args)]
            ctx.count("feature_partial_binding" if any(is_closed(a) for a in args) else "feature_full_forwarding")
            if set(used) & set(cur.tvars) and [a for a in args if a[0] == "tv"] != [("tv", t) for t in cur.tvars]:
                ctx.count("feature_reordered_or_shadowed_typevars")
            override = cur.fields() if kind != "typeddict" and rng.random() < 0.3 else None
            cur = new_class([(cur, args)], used or [], rng.randint(0, 2), override)
        return classes, cur
    # diamond: D0[T] <- DL[T], DR[T] <- DD[X] with the same argument on both paths
    t = base.tvars
    if len(t) != 1 or t[0] in ("TB", "TC"):
        base.tvars = ["T1"]
        base.own = {k: subst(v, {"T2": ("tv", "T1"), "T3": ("tv", "T1"), "TB": ("tv", "T1"), "TC": ("tv", "T1")}) for k, v in base.own.items()}
    left = new_class([(base, [("tv", "T2")])], ["T2"], 1)
    right = new_class([(base, [("tv", "T3")])], ["T3"], 1)
    final_tv = rng.choice([[], ["T1"]])
    arg = ("tv", "T1") if final_tv else ("pool", rng.choice(POOL_NAMES))
    dd = new_class([(left, [arg]), (right, [arg])], final_tv, rng.randint(0, 1))
    ctx.count("feature_diamond")
    return classes, dd


def _mentions(t, tv):
    if t[0] == "tv":
        return t[1] == tv
    return any(_mentions(x, tv) for x in t[1:] if isinstance(x, tuple))


def materialise(kind, classes):
    mod = types.ModuleType(f"vlib_c16_{next(_n)}")
    sys.modules[mod.__name__] = mod
    lines = ["from typing import *", "from dataclasses import dataclass", "import attrs"]
    tvs = sorted({tv for c in classes for tv in c.tvars} | {tv for c in classes for _, args in c.bases for a in args for tv in TV_DECL if _mentions(a, tv)})
    for tv in tvs:
        lines.append(f"{tv} = {TV_DECL[tv]}")
    for c in classes:
        bases = [f"{b.name}[{', '.join(src(a) for a in args)}]" if b.tvars else b.name for b, args in c.bases]
        if kind == "typeddict" and not c.bases:
            bases.append("TypedDict")
        if kind == "namedtuple":
            bases.append("NamedTuple")
        if c.tvars:
            bases.append(f"Generic[{', '.join(c.tvars)}]")
        deco = {"dataclass": "@dataclass", "attrs": "@attrs.define"}.get(kind)
        if deco:
            lines.append(deco)
        lines.append(f"class {c.name}({', '.join(bases)}):" if bases else f"class {c.name}:")
        body = [f"    {k}: {src(v)}" for k, v in c.own.items()]
        lines += body or ["    pass"]
    source = "\n".join(lines) + "\n"
    exec(compile(source, f"<vlib c16 {mod.__name__}>", "exec", dont_inherit=True), mod.__dict__)  # noqa: S102
    return mod, source


def view(kind, obj, names):
    if kind == "typeddict":
        return dict(obj)
    f = model_fields(obj)
    return {n: f[n] for n in names}


def run_case(ctx, rng, idx):  # noqa: C901, PLR0912
    kind = rng.choice(["dataclass", "dataclass", "attrs", "typeddict", "namedtuple"])
    classes, final = gen_hierarchy(rng, ctx, kind)
    try:
        mod, source = materialise(kind, classes)
    except Exception as e:  # noqa: BLE001
        ctx.count(f"python_refused_hierarchy_{type(e).__name__}")
        return
    ctx.count("hierarchies")
    ctx.count(f"kind_{kind}")
    cls = getattr(mod, final.name)
    retort = Retort()
    # parametrisations: all bare + up to 4 random closed parametrisations
    param_sets = []
    if final.tvars:
        param_sets.append(None)     # bare use: documented implicit parameters
        for _ in range(4):
            ps = []
            for tv in final.tvars:
                if tv == "TB":
                    ps.append(rng.choice([("pool", "int"), ("pool", "bool")]))
                elif tv == "TC":
                    ps.append(rng.choice([("pool", "str"), ("pool", "bool")]))
                else:
                    ps.append(("pool", rng.choice(POOL_NAMES)) if rng.random() < 0.8 else ("list", ("pool", rng.choice(POOL_NAMES[:3]))))
            param_sets.append(ps)
    else:
        param_sets.append([])
    for ps in param_sets:
        if ps is None:
            env = {tv: IMPLICIT[tv] for tv in final.tvars}
            hint = cls
            ctx.count("feature_bare_use")
        else:
            env = dict(zip(final.tvars, ps))
            hint = cls[tuple(eval(src(p), mod.__dict__) for p in ps)] if ps else cls  # noqa: S307
        closed = final.fields(env)
        if not all(is_closed(t) for t in closed.values()):
            ctx.count("unbound_typevar_left_skip")
            continue
        desc = {"kind": kind, "source": source[-1500:], "final": final.name, "parametrisation": [src(p) for p in ps] if ps is not None else "bare",
                "closed_field_types": {k: src(v) for k, v in closed.items()}}
        datum, values = {}, {}
        for fname, t in closed.items():
            datum[fname], values[fname] = good(t, rng)
        ld = attempt(retort.get_loader, hint)
        if idx < 1 and ps is not None:
            ctx.sample(desc)
        if ld.kind != "ok":
            ctx.violation(f"loader-refused:{kind}:{type(ld.exc).__name__}", f"{kind} hierarchy: loader creation failed: {ld.exc!r} cause={getattr(ld.exc, '__cause__', None)!r:.300}", desc)
            continue
        out = attempt(ld.value, datum)
        ctx.evaluated((source, repr(desc["parametrisation"]), "conforming"), nontrivial=len(classes) >= 2 or len(final.tvars) >= 2)
        ctx.count("conforming_loads")
        if out.kind != "ok":
            fname = _culprit(retort, hint, datum, closed, rng)
            ctx.violation(f"conforming-data-rejected:{kind}:{_tshape(closed.get(fname))}",
                          f"{kind} {final.name}{desc['parametrisation']}: data fitting the substituted types {desc['closed_field_types']} was rejected: {out!r:.300} (field {fname})", {**desc, "datum": repr(datum)})
            continue
        got = view(kind, out.value, list(closed))
        if not strict_eq(got, values):
            ctx.violation(f"wrong-loaded-value:{kind}", f"{kind} {final.name}: loaded {got!r}, expected {values!r}", {**desc, "datum": repr(datum)})
        # dump back
        dumped = attempt(retort.dump, out.value, hint)
        ctx.count("dumps")
        if dumped.kind != "ok" or not _dump_eq(dumped.value, datum):
            ctx.violation(f"dump-differs:{kind}", f"{kind} {final.name}: dump {dumped!r:.300}, expected {datum!r}", {**desc, "datum": repr(datum)})
        # data that fits only ANOTHER substitution: one field at a time
        for fname, t in closed.items():
            b = bad(t, rng)
            if b is None:
                continue
            d2 = {**datum, fname: b}
            out2 = attempt(ld.value, d2)
            ctx.evaluated((source, repr(desc["parametrisation"]), "nonconforming", fname), nontrivial=True)
            ctx.count("nonconforming_loads")
            if out2.kind == "ok":
                ctx.violation(f"other-substitution-accepted:{kind}:{_tshape(t)}",
                              f"{kind} {final.name}{desc['parametrisation']}: field {fname} has closed type {src(t)} but {b!r} was accepted -> {out2.value!r:.200}", {**desc, "datum": repr(d2), "field": fname})
            elif not isinstance(out2.exc, LoadError):
                ctx.count("nonconforming_raised_non_loaderror")


def _culprit(retort, hint, datum, closed, rng):
    return next(iter(closed), "?")


def _tshape(t):
    if t is None:
        return "?"
    return t[0]


def _dump_eq(a, b):
    if isinstance(a, tuple):
        a = list(a)
    if isinstance(a, list) and isinstance(b, list):
        return len(a) == len(b) and all(_dump_eq(x, y) for x, y in zip(a, b))
    if isinstance(a, dict) and isinstance(b, dict):
        return a.keys() == b.keys() and all(_dump_eq(a[k], b[k]) for k in a)
    return strict_eq(a, b)


def _directed(ctx):
    """Generic NamedTuple with exactly one type parameter (routed to the iterable provider on the original tree)."""
    import random  # noqa: PLC0415

    rng = random.Random(0)
    for tvs, own in ((["T1"], {"a": ("tv", "T1"), "b": ("list", ("tv", "T1"))}), (["T1", "T2"], {"a": ("tv", "T1"), "b": ("list", ("tv", "T2"))})):
        c = Cls(f"N{next(_n)}", tvs, [], own)
        mod, source = materialise("namedtuple", [c])
        cls = getattr(mod, c.name)
        hint = cls[int] if len(tvs) == 1 else cls[int, str]
        closed = c.fields(dict(zip(tvs, [("pool", "int"), ("pool", "str")])))
        datum = {k: good(t, rng)[0] for k, t in closed.items()}
        out = attempt(Retort().load, datum, hint)
        ctx.evaluated(("directed-namedtuple", len(tvs)))
        ctx.count("conforming_loads")
        if out.kind != "ok":
            ctx.violation(f"conforming-data-rejected:namedtuple:arity{len(tvs)}", f"generic NamedTuple with {len(tvs)} type parameter(s): {datum!r} rejected: {out!r:.300}", {"source": source})
        else:
            d = attempt(Retort().dump, out.value, hint)
            if d.kind != "ok" or not _dump_eq(d.value, datum):
                ctx.violation(f"dump-differs:namedtuple:arity{len(tvs)}", f"generic NamedTuple dump {d!r:.200}, expected {datum!r}", {"source": source})


def _initvar(ctx):
    """InitVar[T] / InitVar[List[T]] pseudo-fields of a generic dataclass take part in the substitution like every other annotation."""
    mod = types.ModuleType(f"vlib_c16_iv{next(_n)}")
    sys.modules[mod.__name__] = mod
    source = ("from dataclasses import dataclass, InitVar\nfrom typing import Generic, TypeVar, List\nT = TypeVar('T')\nK = TypeVar('K')\n"
              "@dataclass\nclass IV(Generic[T, K]):\n    a: T\n    b: InitVar[K]\n    c: InitVar[List[T]]\n    def __post_init__(self, b, c):\n        self.seen = (b, c)\n"
              "@dataclass\nclass IVChild(IV[int, K], Generic[K]):\n    e: K = None\n")
    exec(compile(source, f"<{mod.__name__}>", "exec", dont_inherit=True), mod.__dict__)  # noqa: S102
    for hint, good_d, bad_ds in ((mod.IV[int, str], {"a": 1, "b": "s", "c": [2]}, [{"a": 1, "b": 5, "c": [2]}, {"a": 1, "b": "s", "c": ["x"]}, {"a": "x", "b": "s", "c": [2]}]),
                                 (mod.IVChild[str], {"a": 1, "b": "s", "c": [2], "e": "t"}, [{"a": 1, "b": 5, "c": [2], "e": "t"}, {"a": 1, "b": "s", "c": ["x"], "e": "t"}])):
        out = attempt(Retort().load, good_d, hint)
        ctx.evaluated(("directed-initvar", repr(hint)))
        ctx.count("conforming_loads")
        if out.kind != "ok" or out.value.seen != (good_d["b"], good_d["c"]):
            ctx.violation("conforming-data-rejected:dataclass:initvar", f"{hint!r}: {good_d!r} -> {out!r:.300}", {"source": source})
            continue
        for bd in bad_ds:
            o = attempt(Retort().load, bd, hint)
            ctx.count("nonconforming_loads")
            if o.kind == "ok":
                ctx.violation("other-substitution-accepted:dataclass:initvar", f"{hint!r}: {bd!r} accepted as {o.value!r}", {"source": source})


def _init_false_fields(ctx):
    """Fields with init=False are dumped (never loaded): an INHERITED one takes the type its parent's parametrisation binds, like every
    other member - through a plain child, a generic child that re-uses the variable's name, and a grandchild (seeded change: every
    init=False field was reported as 're-annotated here', so the parent's binding was not applied)."""
    from decimal import Decimal  # noqa: PLC0415

    mod = types.ModuleType(f"vlib_c16_if{next(_n)}")
    sys.modules[mod.__name__] = mod
    source = ("from dataclasses import dataclass, field\nfrom decimal import Decimal\nfrom typing import Generic, TypeVar, List, Dict\nT = TypeVar('T')\nK = TypeVar('K')\n"
              "@dataclass\nclass Series(Generic[T]):\n    items: List[T]\n    total: List[T] = field(init=False, default_factory=list)\n    by_key: Dict[str, T] = field(init=False, default_factory=dict)\n"
              "    def __post_init__(self):\n        self.total = list(self.items)\n        self.by_key = {'first': self.items[0]} if self.items else {}\n"
              "@dataclass\nclass DecimalSeries(Series[Decimal]):\n    pass\n"
              "@dataclass\nclass Labeled(Series[Decimal], Generic[T]):\n    label: T = None\n"
              "@dataclass\nclass Grand(DecimalSeries):\n    note: str = ''\n"
              "@dataclass\nclass Own(Series[K], Generic[K]):\n    extra: List[K] = field(init=False, default_factory=list)\n")
    exec(compile(source, f"<{mod.__name__}>", "exec", dont_inherit=True), mod.__dict__)  # noqa: S102
    four = Decimal("4.0")
    want = {"items": ["4.0"], "total": ["4.0"], "by_key": {"first": "4.0"}}
    cases = [(mod.Series[Decimal], mod.Series([four]), want), (mod.DecimalSeries, mod.DecimalSeries([four]), want), (mod.Grand, mod.Grand([four]), {**want, "note": ""}),
             (mod.Labeled[int], mod.Labeled([four], 1), {**want, "label": 1}), (mod.Labeled[str], mod.Labeled([four], "l"), {**want, "label": "l"}),
             (mod.Own[Decimal], mod.Own([four]), {**want, "extra": []})]
    for hint, obj, expected in cases:
        out = attempt(Retort().dump, obj, hint)
        ctx.evaluated(("directed-init-false", repr(hint)))
        ctx.count("conforming_dumps")
        if out.kind != "ok" or not _dump_eq(out.value, expected):
            ctx.violation("dump-differs:dataclass:inherited-init-false-field", f"{hint!r}: dump gave {out!r:.250}, the substituted types give {expected!r}", {"source": source})


def _pydantic_one_parameter(ctx):
    """A generic pydantic model with exactly ONE type parameter is a model like the one with two (defect #68: BaseModel defines __iter__)."""
    mod = types.ModuleType(f"vlib_c16_pd{next(_n)}")
    sys.modules[mod.__name__] = mod
    source = ("from typing import Generic, TypeVar, List\nfrom dataclasses import dataclass\nfrom pydantic import BaseModel\nT = TypeVar('T')\nV = TypeVar('V')\n"
              "class PG(BaseModel, Generic[T]):\n    x: T\nclass PG2(BaseModel, Generic[T, V]):\n    x: T\n    y: V\n"
              "@dataclass\nclass Holder(Generic[T]):\n    p: PG[T]\n    ps: List[PG[T]]\n")
    exec(compile(source, f"<{mod.__name__}>", "exec", dont_inherit=True), mod.__dict__)  # noqa: S102
    # a pydantic child of a BARE generic pydantic model stays generic in pydantic's own book-keeping (defect #96): bare it takes the bound
    exec(compile("B = TypeVar('B', bound=int)\nclass PB(BaseModel, Generic[B]):\n    x: B\nclass PChild(PB):\n    y: int\n", f"<{mod.__name__}:2>", "exec", dont_inherit=True), mod.__dict__)  # noqa: S102
    cases = [(mod.PG[int], {"x": 1}, {"x": "s"}), (mod.PG2[int, str], {"x": 1, "y": "s"}, {"x": 1, "y": 2}), (mod.Holder[int], {"p": {"x": 1}, "ps": [{"x": 2}]}, None),
             (mod.PChild, {"x": 1, "y": 2}, {"x": "s", "y": 2}), (mod.PChild[int], {"x": 1, "y": 2}, {"x": "s", "y": 2})]     # PG[T] inside another generic: 'MyModel[T] -> Any' is pydantic's documented limitation
    for hint, good_d, bad_d in cases:
        ok_ = attempt(Retort().load, good_d, hint)
        ko_ = attempt(Retort().load, bad_d, hint) if bad_d is not None else ok_.__class__("load_error")
        ctx.evaluated(("directed-pydantic", repr(hint)))
        ctx.count("conforming_loads")
        ctx.count("nonconforming_loads")
        if ok_.kind != "ok":
            ctx.violation("conforming-data-rejected:pydantic:one-parameter", f"{hint!r}: {good_d!r} -> {ok_!r:.250}", {"source": source})
            continue
        if ko_.kind == "ok":
            ctx.violation("other-substitution-accepted:pydantic:one-parameter", f"{hint!r}: {bad_d!r} accepted as {ko_.value!r}", {"source": source})
        d = attempt(Retort().dump, ok_.value, hint)
        if d.kind != "ok" or not _dump_eq(d.value, good_d):
            ctx.violation("dump-differs:pydantic:one-parameter", f"{hint!r}: dump {d!r:.200}, expected {good_d!r}", {"source": source})


def _attrs_handwritten_init(ctx):
    """A generic attrs model with a hand-written __init__ that calls self.__attrs_init__ (attrs then generates that method instead of
    __init__), subclassed through a parametrisation by children WITHOUT an __init__ of their own: the children inherit the bound types
    (seeded change: every inherited field was marked as re-annotated by the child, so the parent's binding was dropped)."""
    mod = types.ModuleType(f"vlib_c16_at{next(_n)}")
    sys.modules[mod.__name__] = mod
    source = """
from typing import Generic, TypeVar, List, Optional
import attrs
T = TypeVar('T')
K = TypeVar('K')
@attrs.define
class Parent(Generic[T]):
    a: T
    tags: List[T] = attrs.field(factory=list)
    def __init__(self, a: T, tags: Optional[List[T]] = None):
        self.__attrs_init__(a, tags or [])
@attrs.define
class Child(Parent[int]):
    b: str = 'x'
@attrs.define
class GenChild(Parent[int], Generic[K]):
    c: K = None
@attrs.define
class Wrapping(Parent[List[K]], Generic[K]):
    pass
"""
    try:
        exec(compile(source, f"<{mod.__name__}>", "exec", dont_inherit=True), mod.__dict__)  # noqa: S102
    except ImportError:
        ctx.count("attrs_missing")
        return
    cases = [("Child", mod.Child, {"a": 1, "tags": [2], "b": "s"}, [{"a": "1", "b": "s"}, {"a": 1, "tags": ["2"], "b": "s"}]),
             ("GenChild[str]", mod.GenChild[str], {"a": 1, "tags": [2], "c": "s"}, [{"a": "1", "c": "s"}, {"a": 1, "c": 5}]),
             ("Wrapping[int]", mod.Wrapping[int], {"a": [1], "tags": [[2]]}, [{"a": 1}, {"a": ["1"]}])]
    for label, hint, good_d, bad_ds in cases:
        ok_ = attempt(Retort().load, good_d, hint)
        ctx.evaluated(("directed-attrs-init", label), nontrivial=True)
        ctx.count("conforming_loads")
        if ok_.kind != "ok":
            ctx.violation("conforming-data-rejected:attrs:handwritten-init", f"{label}: {good_d!r} -> {ok_!r:.250}", {"source": source})
            continue
        for bad_d in bad_ds:
            ko_ = attempt(Retort().load, bad_d, hint)
            ctx.count("nonconforming_loads")
            if ko_.kind == "ok":
                ctx.violation("other-substitution-accepted:attrs:handwritten-init", f"{label}: {bad_d!r} accepted as {ko_.value!r}", {"source": source})
        d = attempt(Retort().dump, ok_.value, hint)
        if d.kind != "ok" or not _dump_eq(d.value, good_d):
            ctx.violation("dump-differs:attrs:handwritten-init", f"{label}: dump {d!r:.200}, expected {good_d!r}", {"source": source})


def _undecorated_children(ctx):
    """A child that only binds the parameter - no decorator, no __init__ of its own - is the model its parent describes, for every kind
    (defect #91: attrs and plain __init__ classes marked every inherited field as re-annotated by such a child; dataclasses worked)."""
    mod = types.ModuleType(f"vlib_c16_un{next(_n)}")
    sys.modules[mod.__name__] = mod
    source = """
from typing import Generic, TypeVar, List
from dataclasses import dataclass
import attrs
T = TypeVar('T')
@attrs.define
class ABox(Generic[T]):
    x: T
    xs: List[T]
class AIntBox(ABox[int]):
    pass
class AIntBox2(AIntBox):
    pass
@dataclass
class DBox(Generic[T]):
    x: T
    xs: List[T]
class DIntBox(DBox[int]):
    pass
class IBox(Generic[T]):
    def __init__(self, x: T, xs: List[T]):
        self.x, self.xs = x, xs
class IIntBox(IBox[int]):
    pass
class IIntBox2(IIntBox):
    pass
@attrs.define
class AOver(ABox[int]):
    x: str
class AOverChild(AOver):
    pass
"""
    try:
        exec(compile(source, f"<{mod.__name__}>", "exec", dont_inherit=True), mod.__dict__)  # noqa: S102
    except ImportError:
        ctx.count("attrs_missing")
        return
    for name, good_d, bad_d, dumps in (("AIntBox", {"x": 1, "xs": [2]}, {"x": "s", "xs": [2]}, True), ("AIntBox2", {"x": 1, "xs": [2]}, {"x": 1, "xs": ["s"]}, True),
                                       ("DIntBox", {"x": 1, "xs": [2]}, {"x": "s", "xs": [2]}, True), ("IIntBox", {"x": 1, "xs": [2]}, {"x": "s", "xs": [2]}, False),
                                       ("IIntBox2", {"x": 1, "xs": [2]}, {"x": 1, "xs": ["s"]}, False), ("AOver", {"x": "s", "xs": [2]}, {"x": 1, "xs": [2]}, True),
                                       ("AOverChild", {"x": "s", "xs": [2]}, {"x": "s", "xs": ["t"]}, True)):
        hint = getattr(mod, name)
        ok_, ko_ = attempt(Retort().load, good_d, hint), attempt(Retort().load, bad_d, hint)
        ctx.evaluated(("directed-undecorated", name), nontrivial=True)
        ctx.count("conforming_loads")
        ctx.count("nonconforming_loads")
        if ok_.kind != "ok":
            ctx.violation("conforming-data-rejected:undecorated-child", f"{name}: {good_d!r} -> {ok_!r:.250}", {"source": source})
            continue
        if ko_.kind == "ok":
            ctx.violation("other-substitution-accepted:undecorated-child", f"{name}: {bad_d!r} accepted", {"source": source})
        if dumps:
            d = attempt(Retort().dump, ok_.value, hint)
            if d.kind != "ok" or not _dump_eq(d.value, good_d):
                ctx.violation("dump-differs:undecorated-child", f"{name}: dump {d!r:.200}, expected {good_d!r}", {"source": source})


def _iterable_models(ctx):
    """A container-like model - one type parameter and an __iter__ over its items (Page[T]) - is a model for every kind, bare or
    parametrised (defect #97; NamedTuple and pydantic had been exempted from the iterable provider before, #68)."""
    mod = types.ModuleType(f"vlib_c16_it{next(_n)}")
    sys.modules[mod.__name__] = mod
    source = """
from typing import Generic, TypeVar, List
from dataclasses import dataclass
import attrs
T = TypeVar('T')
@dataclass
class Bag(Generic[T]):
    items: List[T]
    def __iter__(self):
        return iter(self.items)
@attrs.define
class ABag(Generic[T]):
    items: List[T]
    def __iter__(self):
        return iter(self.items)
@dataclass
class Shelf(Generic[T]):
    bags: List[Bag[T]]
"""
    try:
        exec(compile(source, f"<{mod.__name__}>", "exec", dont_inherit=True), mod.__dict__)  # noqa: S102
    except ImportError:
        ctx.count("attrs_missing")
        return
    for label, hint, good_d, bad_d in (("Bag[int]", mod.Bag[int], {"items": [1]}, {"items": ["s"]}), ("Bag", mod.Bag, {"items": [1, "x"]}, {"items": 5}),
                                       ("ABag[int]", mod.ABag[int], {"items": [1]}, {"items": ["s"]}), ("Shelf[str]", mod.Shelf[str], {"bags": [{"items": ["a"]}]}, {"bags": [{"items": [1]}]})):
        ok_, ko_ = attempt(Retort().load, good_d, hint), attempt(Retort().load, bad_d, hint)
        ctx.evaluated(("directed-iterable-model", label), nontrivial=True)
        ctx.count("conforming_loads")
        ctx.count("nonconforming_loads")
        if ok_.kind != "ok":
            ctx.violation("conforming-data-rejected:iterable-model", f"{label}: {good_d!r} -> {ok_!r:.250}", {"source": source})
            continue
        if ko_.kind == "ok":
            ctx.violation("other-substitution-accepted:iterable-model", f"{label}: {bad_d!r} accepted", {"source": source})
        d = attempt(Retort().dump, ok_.value, hint)
        if d.kind != "ok" or not _dump_eq(d.value, good_d):
            ctx.violation("dump-differs:iterable-model", f"{label}: dump {d!r:.200}, expected {good_d!r}", {"source": source})


def _pipe_unions_of_builtin_generics(ctx):
    """A field written `list[T] | None` or `dict[K, T] | list[T]` is a types.UnionType (not typing.Union) whose __parameters__ are as good
    as any: the type variables inside are substituted like in Optional[list[T]] (seeded change: UnionType objects reported no type
    variables)."""
    if sys.version_info < (3, 10):
        return
    mod = types.ModuleType(f"vlib_c16_pipe{next(_n)}")
    sys.modules[mod.__name__] = mod
    source = """
from typing import Generic, TypeVar, Optional, List
from dataclasses import dataclass
T = TypeVar('T')
K = TypeVar('K')
@dataclass
class Pipe(Generic[T]):
    x: list[T] | None
    y: dict[str, T] | list[T]
@dataclass
class Typing(Generic[T]):
    x: Optional[List[T]]
    y: dict[str, T] | list[T]
@dataclass
class Child(Pipe[int]):
    z: int = 0
@dataclass
class Two(Generic[K, T]):
    m: dict[K, T] | None
"""
    exec(compile(source, f"<{mod.__name__}>", "exec", dont_inherit=True), mod.__dict__)  # noqa: S102
    cases = [("Pipe[int]", mod.Pipe[int], {"x": [1], "y": {"k": 2}}, {"x": ["s"], "y": [1]}), ("Pipe[str]", mod.Pipe[str], {"x": None, "y": ["s"]}, {"x": None, "y": [1]}),
             ("Typing[int]", mod.Typing[int], {"x": [1], "y": [2]}, {"x": [1], "y": ["s"]}), ("Child", mod.Child, {"x": [1], "y": [2], "z": 3}, {"x": ["s"], "y": [2], "z": 3}),
             ("Two[str, int]", mod.Two[str, int], {"m": {"k": 1}}, {"m": {"k": "v"}})]
    for label, hint, good_d, bad_d in cases:
        ok_, ko_ = attempt(Retort().load, good_d, hint), attempt(Retort().load, bad_d, hint)
        ctx.evaluated(("directed-pipe-union", label), nontrivial=True)
        ctx.count("conforming_loads")
        ctx.count("nonconforming_loads")
        if ok_.kind != "ok":
            ctx.violation("conforming-data-rejected:pipe-union-field", f"{label}: {good_d!r} -> {ok_!r:.250}", {"source": source})
            continue
        if ko_.kind == "ok":
            ctx.violation("other-substitution-accepted:pipe-union-field", f"{label}: {bad_d!r} accepted", {"source": source})
        d = attempt(Retort().dump, ok_.value, hint)
        if d.kind != "ok" or not _dump_eq(d.value, good_d):
            ctx.violation("dump-differs:pipe-union-field", f"{label}: dump {d!r:.200}, expected {good_d!r}", {"source": source})


def _pep695_aliases_as_field_types(ctx):
    """PEP 695 aliases inside generic models: a BARE generic alias (`a: LA` = list[Any]: its __parameters__ are its own declaration, not free
    variables of the model), an alias applied to the model's variable, the identity alias `type Id[X] = X`, through a child that binds the
    variable (reports of a round-8 agent: KeyError(X) in the resolver; Id[K] came back unsubstituted)."""
    if sys.version_info < (3, 12):
        return
    mod = types.ModuleType(f"vlib_c16_alias{next(_n)}")
    sys.modules[mod.__name__] = mod
    source = """
from typing import Generic, TypeVar
from dataclasses import dataclass
K = TypeVar('K')
type LA[X] = list[X]
type Id[X] = X
type Pair[A, B] = dict[B, A]
@dataclass
class Bare(Generic[K]):
    a: LA
    b: K
@dataclass
class Applied(Generic[K]):
    a: LA[K]
    b: Pair[K, str]
@dataclass
class Ident(Generic[K]):
    a: Id[K]
    b: list[Id[K]]
@dataclass
class Child(Ident[int]):
    c: LA = None
"""
    exec(compile(source, f"<{mod.__name__}>", "exec", dont_inherit=True), mod.__dict__)  # noqa: S102
    cases = [("Bare[int]", mod.Bare[int], {"a": [1, "x"], "b": 2}, {"a": [1], "b": "s"}), ("Bare[str]", mod.Bare[str], {"a": [], "b": "s"}, {"a": 5, "b": "s"}),
             ("Applied[int]", mod.Applied[int], {"a": [1], "b": {"k": 2}}, {"a": ["s"], "b": {"k": 2}}), ("Applied[str]", mod.Applied[str], {"a": ["s"], "b": {"k": "v"}}, {"a": ["s"], "b": {"k": 1}}),
             ("Ident[int]", mod.Ident[int], {"a": 1, "b": [2]}, {"a": "s", "b": [2]}), ("Ident[str]", mod.Ident[str], {"a": "s", "b": ["t"]}, {"a": "s", "b": [1]}),
             ("Child", mod.Child, {"a": 1, "b": [2], "c": ["x", 1]}, {"a": 1, "b": ["s"], "c": []})]
    for label, hint, good_d, bad_d in cases:
        ok_, ko_ = attempt(Retort().load, good_d, hint), attempt(Retort().load, bad_d, hint)
        ctx.evaluated(("directed-pep695-alias-field", label), nontrivial=True)
        ctx.count("conforming_loads")
        ctx.count("nonconforming_loads")
        if ok_.kind != "ok":
            ctx.violation("conforming-data-rejected:pep695-alias-field", f"{label}: {good_d!r} -> {ok_!r:.250}", {"source": source})
            continue
        if ko_.kind == "ok":
            ctx.violation("other-substitution-accepted:pep695-alias-field", f"{label}: {bad_d!r} accepted", {"source": source})
        d = attempt(Retort().dump, ok_.value, hint)
        if d.kind != "ok" or not _dump_eq(d.value, good_d):
            ctx.violation("dump-differs:pep695-alias-field", f"{label}: dump {d!r:.200}, expected {good_d!r}", {"source": source})


DIRECTED = {"pep695-aliases-as-field-types": _pep695_aliases_as_field_types, "pipe-unions-of-builtin-generics": _pipe_unions_of_builtin_generics, "iterable-models": _iterable_models, "undecorated-children": _undecorated_children, "attrs-handwritten-init": _attrs_handwritten_init, "pydantic-one-parameter": _pydantic_one_parameter, "generic-namedtuple-one-parameter": _directed, "initvar-of-type-variable": _initvar, "inherited-init-false-fields": _init_false_fields}
