"""Reference model of name_mapping (docs/loading-and-dumping/extended-usage.rst), independent of adaptix's
crown builder: field -> outer path resolution, reference dumper and reference loader walking the path table.

A recipe is a list of `NM` objects (one per name_mapping provider, recipe order). Predicates used inside
recipes are restricted to forms whose meaning is trivial: field id strings, regex strings, exact classes.
"""
from __future__ import annotations

import collections.abc as cabc
import re
from dataclasses import dataclass, field as dc_field
from typing import Any

from adaptix import ExtraForbid, ExtraKwargs, ExtraSkip, NameStyle, name_mapping

from . import spec
from .spec import A, R, U

OMIT = object()       # "parameter not given" in an NM
ABSENT = object()     # field takes its default


# ---- independent name-style converter ------------------------------------------------------------
_SEP = {"SNAKE": "_", "KEBAB": "-", "DOT": ".", "": ""}


def style_ref(name, style):
    m = re.match(r"^(_*)(.*?)(_*)$", name)
    lead, core, trail = m.groups()
    words = core.split("_")
    sname = style.name            # e.g. LOWER_SNAKE, CAMEL, UPPER_DOT
    parts = sname.split("_")
    case, sep = parts[0], _SEP[parts[1] if len(parts) > 1 else ""]
    fn = {"LOWER": (str.lower, str.lower), "CAMEL": (str.lower, str.capitalize), "PASCAL": (str.capitalize, str.capitalize), "UPPER": (str.upper, str.upper)}[case]
    out = [fn[0](words[0])] + [fn[1](w) for w in words[1:]]
    return lead + sep.join(out) + trail


# ---- predicates (trivial forms only) ---------------------------------------------------------------
@dataclass(frozen=True)
class Pred:
    kind: str      # 'id' | 're' | 'type'
    value: Any

    def to_adaptix(self):
        return self.value

    def match(self, f):
        if self.kind == "id":
            return f.name == self.value
        if self.kind == "re":
            return re.fullmatch(self.value, f.name) is not None
        return f.node.hint is self.value


@dataclass
class NM:
    """Arguments of one name_mapping(...) provider; OMIT = not passed."""
    map: Any = OMIT                 # list of entries: ('dict', {id: result}) | ('pair', Pred, result) | ('func', Pred, fn, fn_ref)
    name_style: Any = OMIT
    trim_trailing_underscore: Any = OMIT
    skip: Any = OMIT                # list[Pred]
    only: Any = OMIT                # list[Pred]
    as_list: Any = OMIT
    omit_default: Any = OMIT        # bool | list[Pred]
    extra_in: Any = OMIT            # 'skip' | 'forbid' | 'kwargs' | ('fields', [names]) | ('saturator', fn)
    extra_out: Any = OMIT           # 'skip' | ('fields', [names]) | ('extractor', fn)

    def provider(self, pred=OMIT):
        kw = {}
        if self.map is not OMIT:
            entries = []
            for e in self.map:
                if e[0] == "dict":
                    entries.append(dict(e[1]))
                elif e[0] == "pair":
                    entries.append((e[1].to_adaptix(), e[2]))
                else:
                    entries.append((e[1].to_adaptix(), e[2]))
            kw["map"] = entries[0] if len(entries) == 1 and isinstance(entries[0], dict) else entries
        for k in ("name_style", "trim_trailing_underscore", "as_list"):
            if getattr(self, k) is not OMIT:
                kw[k] = getattr(self, k)
        for k in ("skip", "only"):
            v = getattr(self, k)
            if v is not OMIT:
                kw[k] = [p.to_adaptix() for p in v]
        if self.omit_default is not OMIT:
            kw["omit_default"] = self.omit_default if isinstance(self.omit_default, bool) else [p.to_adaptix() for p in self.omit_default]
        if self.extra_in is not OMIT:
            kw["extra_in"] = {"skip": ExtraSkip(), "forbid": ExtraForbid(), "kwargs": ExtraKwargs()}.get(self.extra_in) if isinstance(self.extra_in, str) else (
                list(self.extra_in[1]) if self.extra_in[0] == "fields" and len(self.extra_in[1]) > 1 else self.extra_in[1][0] if self.extra_in[0] == "fields" else self.extra_in[1])
        if self.extra_out is not OMIT:
            kw["extra_out"] = ExtraSkip() if self.extra_out == "skip" else (
                list(self.extra_out[1]) if self.extra_out[0] == "fields" and len(self.extra_out[1]) > 1 else self.extra_out[1][0] if self.extra_out[0] == "fields" else self.extra_out[1])
        if pred is OMIT:
            return name_mapping(**kw)
        return name_mapping(pred, **kw)

    def describe(self):
        out = {}
        for k in ("map", "name_style", "trim_trailing_underscore", "skip", "only", "as_list", "omit_default", "extra_in", "extra_out"):
            v = getattr(self, k)
            if v is not OMIT:
                out[k] = repr(v)[:300]
        return out


# ---- resolution -------------------------------------------------------------------------------------
@dataclass
class Layout:
    fields: list
    paths_in: dict        # field name -> path tuple | None (input side)
    paths_out: dict       # output side (extra_out targets removed)
    omit: dict            # field name -> bool (sieve active)
    extra_in: Any
    extra_out: Any
    as_list: bool
    problems_in: list = dc_field(default_factory=list)    # reasons the docs give for refusing loader creation
    problems_out: list = dc_field(default_factory=list)
    invalid: str | None = None                            # structure the generator should not have produced


def _scalar(recipe, name, default):
    for nm in recipe:
        v = getattr(nm, name)
        if v is not OMIT:
            return v
    return default


def resolve(fields, recipe, dumpable_private=False):  # noqa: C901, PLR0912
    """Appendix B of DESIGN.md."""
    style = _scalar(recipe, "name_style", None)
    trim = _scalar(recipe, "trim_trailing_underscore", True)
    as_list = _scalar(recipe, "as_list", False)
    skip = _scalar(recipe, "skip", [])
    only = _scalar(recipe, "only", None)
    omit_default = _scalar(recipe, "omit_default", False)
    extra_in = _scalar(recipe, "extra_in", "skip")
    extra_out = _scalar(recipe, "extra_out", "skip")
    entries = [e for nm in recipe if nm.map is not OMIT for e in nm.map]
    in_targets = set(extra_in[1]) if isinstance(extra_in, tuple) and extra_in[0] == "fields" else set()
    out_targets = set(extra_out[1]) if isinstance(extra_out, tuple) and extra_out[0] == "fields" else set()

    def path_for(idx, f, side_targets, private_rule):
        if f.name in side_targets:
            return None
        if as_list:
            key = idx
        else:
            key = f.name
            if trim and key.endswith("_") and not key.endswith("__"):
                key = key[:-1]
            if style is not None:
                key = style_ref(key, style)
        res = OMIT
        for e in entries:
            if e[0] == "dict":
                if f.name in e[1]:
                    res = e[1][f.name]
                    break
            elif e[1].match(f):
                res = e[2] if e[0] == "pair" else e[3](f)
                break
        if res is OMIT:
            if private_rule and f.name.startswith("_"):
                return None
            path = (key,)
        elif res is None:
            return None
        elif res is ...:
            path = (key,)
        elif isinstance(res, (str, int)):
            path = (res,)
        else:
            path = tuple(key if el is ... else el for el in res)
        if any(p.match(f) for p in skip):
            return None
        if only is not None and not any(p.match(f) for p in only):
            return None
        return path

    paths_in = {f.name: path_for(i, f, in_targets, False) for i, f in enumerate(fields)}
    paths_out = {f.name: path_for(i, f, out_targets, True) for i, f in enumerate(fields)}
    omit = {}
    for f in fields:
        if f.required:
            omit[f.name] = False
        elif isinstance(omit_default, bool):
            omit[f.name] = omit_default
        else:
            omit[f.name] = any(p.match(f) for p in omit_default)
    lay = Layout(fields, paths_in, paths_out, omit, extra_in, extra_out, as_list)
    for side, paths, problems in (("in", paths_in, lay.problems_in), ("out", paths_out, lay.problems_out)):
        present = [p for p in paths.values() if p is not None]
        bad = _structure_problem(present)
        if bad:
            lay.invalid = f"{side}:{bad}"
        for f in fields:
            p = paths[f.name]
            if side == "in":
                if p is None and f.required and f.name not in in_targets:
                    problems.append(f"required field {f.name} is skipped")
                if p is not None and not f.required and isinstance(p[-1], int):
                    problems.append(f"optional field {f.name} on list index")
    if isinstance(extra_in, tuple) or extra_in == "kwargs":
        if any(isinstance(el, int) for p in paths_in.values() if p for el in p):
            lay.problems_in.append("collecting extra_in with list mapping")
    return lay


def _structure_problem(paths):
    if len(set(paths)) != len(paths):
        return "duplicate path"
    kinds = {}
    for p in paths:
        for i in range(len(p)):
            prefix = p[:i]
            k = "int" if isinstance(p[i], int) else "str"
            if kinds.setdefault(prefix, k) != k:
                return "mixed list/dict keys at one node"
    pset = set(paths)
    for p in paths:
        for i in range(1, len(p)):
            if p[:i] in pset:
                return "a path is a prefix of another"
    if not paths:
        return None
    return None


# ---- tree of the outer structure --------------------------------------------------------------------
class Branch:
    def __init__(self, is_list):
        self.is_list = is_list
        self.children = {}     # key -> Branch | field name (leaf)

    def required(self, fields_by_name):
        return any((c.required(fields_by_name) if isinstance(c, Branch) else fields_by_name[c].required) for c in self.children.values())


def tree(paths, as_list_root=False):
    present = {n: p for n, p in paths.items() if p is not None}
    if not present:
        return Branch(as_list_root)
    first = next(iter(present.values()))
    root = Branch(isinstance(first[0], int))
    for name, p in present.items():
        cur = root
        for i, el in enumerate(p[:-1]):
            nxt = cur.children.get(el)
            if nxt is None:
                nxt = cur.children[el] = Branch(isinstance(p[i + 1], int))
            cur = nxt
        cur.children[p[-1]] = name
    return root


# ---- reference dumper -------------------------------------------------------------------------------
def ref_dump(lay, model, x, dump_field=None, omit_on_dumped=False):
    """Outer datum the documentation prescribes for object x under layout `lay`.
    omit_on_dumped=True gives what the known finding `omit-default-compares-dumped-value` produces instead: the sieve compares the
    DUMPED field value with the raw default (used only to name that mechanism, never as the expectation)."""
    view = model.view(x)
    fb = {f.name: f for f in lay.fields}

    def value(name):
        f = fb[name]
        return f.node.dump(view[name]) if dump_field is None else dump_field(f, view[name])

    def build(br):
        if br.is_list:
            n = max(br.children) + 1 if br.children else 0
            out = [None] * n
            for k, c in br.children.items():
                out[k] = build(c) if isinstance(c, Branch) else value(c)
            return out
        out = {}
        for k, c in br.children.items():
            if isinstance(c, Branch):
                out[k] = build(c)
            else:
                f = fb[c]
                if c not in view:
                    continue     # TypedDict: optional key absent
                if lay.omit[c] and _eq_default(value(c) if omit_on_dumped else view[c], f):
                    continue
                out[k] = value(c)
        return out

    result = build(tree(lay.paths_out, lay.as_list))
    if isinstance(lay.extra_out, tuple):
        if lay.extra_out[0] == "fields":
            for name in lay.extra_out[1]:
                result.update(value(name))
        else:
            result.update(lay.extra_out[2](x))
    return result


def _eq_default(v, f):
    try:
        return bool(v == f.make_default())
    except Exception:  # noqa: BLE001
        return False


def prune_empty(d):
    """Comparison modulo empty branch nodes (the docs do not say whether a fully sieved branch is kept)."""
    if isinstance(d, dict):
        out = {k: prune_empty(v) for k, v in d.items()}
        return {k: v for k, v in out.items() if not (isinstance(v, dict) and not v and isinstance(d[k], dict))}
    if isinstance(d, list):
        return [prune_empty(v) for v in d]
    return d


# ---- reference loader -------------------------------------------------------------------------------
class Reject(Exception):
    def __init__(self, why, trail=()):
        super().__init__(why)
        self.why, self.trail = why, trail


class Unspecified(Exception):
    pass


def ref_load(lay, model, datum, strict):
    """Returns ('ok', {field: raw outer sub-datum | ABSENT}, extras | None, unknown {node trail: set}) or raises Reject / Unspecified.
    Field-level acceptance is left to the caller (it owns the field type nodes)."""
    fb = {f.name: f for f in lay.fields}
    raw = {f.name: ABSENT for f in lay.fields}
    unknown = {}
    policy = lay.extra_in

    def walk(br, d, trail):
        if br.is_list:
            if isinstance(d, cabc.Mapping):
                n_ = max(br.children) + 1 if br.children else 0
                if all(i in d for i in range(n_)) and len(d) >= n_:
                    raise Unspecified   # an int-keyed mapping that answers every index: nothing documented forbids it
                raise Reject("wrong container for list node", trail)
            if isinstance(d, str):
                if strict:
                    raise Reject("wrong container for list node", trail)
                raise Unspecified    # without strict coercion a str is taken as a sequence of characters; the docs do not say
            if isinstance(d, str) or not isinstance(d, cabc.Sequence):
                if isinstance(d, (list, tuple)):
                    pass
                elif hasattr(d, "__getitem__") and hasattr(d, "__len__"):
                    raise Unspecified
                else:
                    raise Reject("wrong container for list node", trail)
            n = max(br.children) + 1 if br.children else 0
            if len(d) < n:
                raise Reject("too few items", trail)
            if len(d) > n and policy == "forbid":
                raise Reject("extra items", trail)
            for k, c in br.children.items():
                if isinstance(c, Branch):
                    walk(c, d[k], (*trail, k))
                else:
                    raw[c] = d[k]
            return
        if not isinstance(d, cabc.Mapping):
            if hasattr(d, "get") or hasattr(d, "keys"):
                raise Unspecified
            raise Reject("wrong container for dict node", trail)
        missing = []
        for k, c in br.children.items():
            if k in d:
                if isinstance(c, Branch):
                    walk(c, d[k], (*trail, k))
                else:
                    raw[c] = d[k]
            else:
                if isinstance(c, Branch):
                    if not c.required(fb):
                        # adaptix requires every branch key and its dumper always emits it (even empty); the docs say neither
                        raise Unspecified
                    missing.append(k)
                elif fb[c].required:
                    missing.append(k)
        if missing:
            raise Reject(f"missing {sorted(missing)}", trail)
        extra = {k for k in d if k not in br.children}
        if extra:
            unknown[trail] = extra

    root = tree(lay.paths_in, lay.as_list)
    walk(root, datum, ())
    if unknown and policy == "forbid":
        raise Reject("unknown keys", next(iter(unknown)))
    extras = None
    if policy != "skip" and policy != "forbid":
        if any(t != () for t in unknown):
            raise Unspecified    # collection of unknown keys below the root is not documented
        extras = {k: datum[k] for k in unknown.get((), ())}
    return raw, extras, unknown


def expected_load(lay, model, datum, strict):
    """('ok', expected object, extras) | ('reject', why) | ('unspec',)"""
    try:
        raw, extras, unknown = ref_load(lay, model, datum, strict)
    except Reject as e:
        return ("reject", e.why, None)
    except Unspecified:
        return ("unspec", None, None)
    except Exception as e:  # noqa: BLE001
        return ("unspec", repr(e), None)
    vals = {}
    for f in lay.fields:
        if isinstance(lay.extra_in, tuple) and lay.extra_in[0] == "fields" and f.name in lay.extra_in[1]:
            vals[f.name] = dict(extras or {})
            continue
        r = raw[f.name]
        if r is ABSENT:
            continue
        v = f.node.accept(r, strict)
        if v.k == spec.R:
            return ("reject", f"field {f.name}", None)
        if v.k == spec.U or v.vals is None or len(v.vals) != 1:
            return ("unspec", None, None)
        vals[f.name] = v.vals[0]
    try:
        return ("ok", model.construct(vals), (extras, unknown))
    except Exception:  # noqa: BLE001
        return ("unspec", None, None)
