"""Executable, three-valued restatement of docs/loading-and-dumping/specific-types-behavior.rst.

Every type node knows: its hint, a generator of valid values, the reference dump (outer form) and the
reference acceptor `accept(datum, strict) -> Verdict`, written from the documentation and *not* by
calling adaptix.  Verdict kinds:  A = must be accepted (with the listed alternative results,
type-strict; vals=None when too many alternatives exist to list), R = must be rejected (LoadError),
U = the documentation does not decide (counted, never judged).
"""
from __future__ import annotations

import base64
import binascii
import collections
import collections.abc as cabc
import ipaddress
import itertools
import os
import pathlib
import re
import typing
import uuid
from datetime import date, datetime, time, timedelta, timezone
from decimal import Decimal
from enum import Enum, Flag, IntEnum, IntFlag
from fractions import Fraction
from io import BytesIO
from typing import Any

from .eq import Approx, strict_eq

A, R, U = "A", "R", "U"
MAX_ALT = 6


class Verdict:
    __slots__ = ("k", "vals")

    def __init__(self, k, vals=None):
        self.k, self.vals = k, vals

    def __repr__(self):
        return f"{self.k}{'' if self.k != A else repr(self.vals)[:200]}"


REJ = Verdict(R)
UNS = Verdict(U)


def acc(*vals):
    return Verdict(A, list(vals))


def combine(verdicts, build):
    """Verdict of a compound from element verdicts; `build(list of element values)` makes the result."""
    if any(v.k == R for v in verdicts):
        return REJ
    if any(v.k == U for v in verdicts):
        return UNS
    n = 1
    for v in verdicts:
        if v.vals is None:
            return Verdict(A, None)
        n *= len(v.vals)
        if n > MAX_ALT:
            return Verdict(A, None)
    out = []
    for combo in itertools.product(*[v.vals for v in verdicts]):
        try:
            out.append(build(list(combo)))
        except TypeError:
            # e.g. unhashable loaded element for a set: the datum cannot be represented -> must be rejected
            return REJ
    return Verdict(A, out)


def matches(verdict, value):
    if verdict.vals is None:
        return True
    return any(strict_eq(value, v) for v in verdict.vals)


# ---------------------------------------------------------------------------------------------------
class Node:
    kind = "?"
    children: tuple = ()
    is_model = False
    class_origin = None      # runtime class used by the union dumper to dispatch (None: not usable inside a dumped union)
    hashable = True          # generated values are hashable
    str_dump = False         # dumps to a str -> usable as a JSON object key

    def __init__(self, hint, src):
        self.hint, self.src = hint, src

    def depth(self):
        return 1 + max((c.depth() for c in self.children), default=0)

    def walk(self):
        yield self
        for c in self.children:
            yield from c.walk()

    def kinds(self):
        return {n.kind for n in self.walk()}

    def gen(self, rng):
        raise NotImplementedError

    def dump(self, x):
        return x

    def accept(self, d, strict):
        raise NotImplementedError

    def __repr__(self):
        return self.src


def _exact(d, *types):
    return type(d) in types


# ---- scalars ---------------------------------------------------------------------------------------
INTS = [0, 1, -1, 2, 7, 255, -128, 2**31, 2**63, -(2**63) - 1, 10**30]
FLOATS = [0.0, -0.0, 1.0, -1.5, 2.5, 1e-310, 1e300, float("inf"), float("-inf"), float("nan"), 0.1, 3.0]
STRS = ["", "a", "abc", "1", "é", "日本", "\x00", "a b", "'\"\\", "nan", "None", "\ud800", "x" * 40]


class IntT(Node):
    kind = "int"
    class_origin = int
    str_dump = False

    def __init__(self):
        super().__init__(int, "int")

    def gen(self, rng):
        return rng.choice(INTS) if rng.random() < 0.6 else rng.randint(-10**6, 10**6)

    def accept(self, d, strict):
        if strict:
            return acc(d) if _exact(d, int) else REJ
        try:
            return acc(int(d))
        except Exception:  # noqa: BLE001
            return REJ


class FloatT(Node):
    kind = "float"
    class_origin = float

    def __init__(self):
        super().__init__(float, "float")

    def gen(self, rng):
        return rng.choice(FLOATS) if rng.random() < 0.6 else rng.uniform(-1e6, 1e6)

    def accept(self, d, strict):
        if strict and not _exact(d, float, int):
            return REJ
        try:
            return acc(float(d))
        except Exception:  # noqa: BLE001
            return REJ


class StrT(Node):
    kind = "str"
    class_origin = str
    str_dump = True

    def __init__(self, hint=str, src="str"):
        super().__init__(hint, src)

    def gen(self, rng):
        return rng.choice(STRS) if rng.random() < 0.7 else "".join(rng.choice("abcXYZ019_-é ") for _ in range(rng.randint(0, 12)))

    def accept(self, d, strict):
        if strict:
            return acc(d) if _exact(d, str) else REJ
        try:
            return acc(str(d))
        except Exception:  # noqa: BLE001
            return REJ


class LiteralStringT(StrT):
    kind = "LiteralString"
    class_origin = None

    def __init__(self):
        super().__init__(typing.LiteralString, "LiteralString")


class BoolT(Node):
    kind = "bool"
    class_origin = bool

    def __init__(self):
        super().__init__(bool, "bool")

    def gen(self, rng):
        return rng.random() < 0.5

    def accept(self, d, strict):
        if strict:
            return acc(d) if _exact(d, bool) else REJ
        try:
            return acc(bool(d))
        except Exception:  # noqa: BLE001
            return REJ


class NoneT(Node):
    kind = "None"
    class_origin = type(None)

    def __init__(self):
        super().__init__(None, "None")

    def gen(self, rng):
        return None

    def accept(self, d, strict):
        return acc(None) if d is None else REJ


JSON_ANY = [None, True, 0, 1, -7, 1.5, "", "s", [], [1, "a"], {}, {"k": [1, {"z": None}]}, [[], [[]]]]


class AnyT(Node):
    kind = "Any"
    hashable = False

    def __init__(self, hint=Any, src="Any"):
        super().__init__(hint, src)
        self.kind = src

    def gen(self, rng):
        import copy  # noqa: PLC0415

        return copy.deepcopy(rng.choice(JSON_ANY))

    def accept(self, d, strict):
        return acc(d)


class CtorScalarT(Node):
    """Decimal / Fraction / complex: strict = exact str or exact target through the constructor; lax = constructor."""

    def __init__(self, cls, pool):
        super().__init__(cls, cls.__name__)
        self.kind = cls.__name__
        self.cls = cls
        self.class_origin = cls
        self.pool = pool
        self.str_dump = True

    def gen(self, rng):
        return rng.choice(self.pool)

    def dump(self, x):
        return str(x)

    def accept(self, d, strict):
        if strict and not _exact(d, str, self.cls):
            return REJ
        if strict and type(d) is self.cls and self.cls is Decimal:
            return acc(d)
        try:
            return acc(self.cls(d))
        except Exception:  # noqa: BLE001
            return REJ


DECIMALS = [Decimal("0"), Decimal("1"), Decimal("-1.50"), Decimal("1E+3"), Decimal("-0E+3"), Decimal("NaN"), Decimal("Infinity"),
            Decimal("0.1"), Decimal("123456789012345678901234567890.123456789"), Decimal("-0")]
FRACTIONS = [Fraction(0), Fraction(1), Fraction(-1, 3), Fraction(22, 7), Fraction(10**20, 3)]
COMPLEXES = [0j, 1 + 0j, 1j, -1.5 + 2j, complex("inf"), complex(0.0, -0.0), 3 + 4j]

B64_ALPHABET = re.compile(r"[A-Za-z0-9+/]*={0,2}")
# the long ones cross the 57-byte / 76-character line length of MIME base64 (seeded change: a dumper that wraps its output)
BYTESES = [b"", b"a", b"ab", b"abc", b"\x00\xff", bytes(range(20)), b"hello world", b"\xfb\xff", bytes(range(57)), bytes(range(58)), bytes(range(256)) * 2, b"\xff" * 115]


class BytesT(Node):
    """bytes-likes and BytesIO: base64 text."""

    def __init__(self, cls, src=None, hint=None, origin=True):
        super().__init__(hint if hint is not None else cls, src or cls.__name__)
        self.kind = src or cls.__name__
        self.cls = cls
        self.class_origin = cls if origin else None
        self.hashable = cls is bytes
        self.str_dump = True

    def gen(self, rng):
        b = rng.choice(BYTESES) if rng.random() < 0.7 else bytes(rng.randrange(256) for _ in range(rng.randint(0, 9)))
        return self.cls(b)

    def dump(self, x):
        raw = x.getvalue() if isinstance(x, BytesIO) else bytes(x)
        return base64.b64encode(raw).decode("ascii")

    def accept(self, d, strict):
        if not isinstance(d, str):
            return REJ
        if type(d) is not str:
            return UNS
        try:
            enc = d.encode("ascii")
        except UnicodeEncodeError:
            return REJ
        if not B64_ALPHABET.fullmatch(d):
            return REJ
        try:
            raw = binascii.a2b_base64(enc, strict_mode=True)
        except binascii.Error:
            try:
                binascii.a2b_base64(enc)
            except binascii.Error:
                return REJ
            return UNS   # lenient decoders take it, canonical ones do not: the docs do not decide
        if base64.b64encode(raw) != enc:
            return UNS
        return acc(self.cls(raw))


class IsoT(Node):
    def __init__(self, cls, pool):
        super().__init__(cls, cls.__name__)
        self.kind = cls.__name__
        self.cls = cls
        self.class_origin = cls
        self.pool = pool
        self.str_dump = True

    def gen(self, rng):
        return rng.choice(self.pool)

    def dump(self, x):
        return x.isoformat()

    def accept(self, d, strict):
        if not isinstance(d, str):
            return REJ
        try:
            return acc(self.cls.fromisoformat(d))
        except ValueError:
            return REJ
        except Exception:  # noqa: BLE001
            return REJ


TZS = [None, timezone.utc, timezone(timedelta(hours=5, minutes=30)), timezone(timedelta(hours=-3, minutes=-7, seconds=11))]
DATES = [date(1, 1, 1), date(2024, 2, 29), date(9999, 12, 31), date(1970, 1, 1)]
TIMES = [time(0, 0), time(23, 59, 59, 999999), time(12, 30, tzinfo=timezone.utc), time(1, 2, 3, 4, tzinfo=TZS[3])]
DATETIMES = [datetime(1, 1, 1), datetime(2024, 2, 29, 23, 59, 59, 999999), datetime(1970, 1, 1, tzinfo=timezone.utc),
             datetime(2000, 6, 15, 12, 0, 1, 5, tzinfo=TZS[2]), datetime(9999, 12, 31, 23, 59, 59, tzinfo=TZS[3])]

TIMEDELTAS = [timedelta(0), timedelta(seconds=1), timedelta(seconds=-1), timedelta(seconds=-1.5), timedelta(seconds=2.3),
              timedelta(microseconds=1), timedelta(microseconds=-1), timedelta(days=1, seconds=5, microseconds=250000),
              timedelta(days=-3, seconds=7), timedelta(seconds=10**9), timedelta(seconds=0.5), timedelta(milliseconds=-250)]


class TimedeltaT(Node):
    kind = "timedelta"
    class_origin = timedelta

    def __init__(self):
        super().__init__(timedelta, "timedelta")

    def gen(self, rng):
        if rng.random() < 0.6:
            return rng.choice(TIMEDELTAS)
        # |td| <= 1e9 s so that total_seconds() itself is exact to the microsecond (Python documents the loss beyond ~270 years)
        return timedelta(seconds=rng.randint(-10**9, 10**9), microseconds=rng.randint(0, 999999))

    def dump(self, x):
        return x.total_seconds()

    def accept(self, d, strict):
        if not _exact(d, int, float, Decimal):
            return REJ
        try:
            if d != d or abs(d) > 86400 * 999999999:
                return REJ
            if type(d) is float:
                ref = timedelta(seconds=d)
            else:
                whole = int(d)
                ref = timedelta(seconds=whole) + timedelta(microseconds=int((Decimal(d) - whole) * 10**6))
        except Exception:  # noqa: BLE001
            return REJ
        return acc(Approx(ref))  # matched with 1 microsecond tolerance (rounding is not documented)


class StrCtorT(Node):
    """UUID / IP* / Path*: 'Loader takes any string accepted by the constructor'."""

    def __init__(self, cls, pool, dump, result_cls=None, hint=None, src=None):
        super().__init__(hint if hint is not None else cls, src or cls.__name__)
        self.kind = src or cls.__name__
        self.cls = cls
        self.class_origin = cls if hint is None else None
        self.pool = pool
        self._dump = dump
        self.result_cls = result_cls or cls
        self.str_dump = True

    def gen(self, rng):
        return self.result_cls(rng.choice(self.pool))

    def dump(self, x):
        return self._dump(x)

    def accept(self, d, strict):
        if isinstance(d, str):
            if type(d) is not str:
                return UNS
            try:
                return acc(self.result_cls(d))
            except Exception:  # noqa: BLE001
                return REJ
        try:
            self.result_cls(d)
        except Exception:  # noqa: BLE001
            return REJ
        return UNS


UUIDS = ["12345678-1234-5678-1234-567812345678", "00000000-0000-0000-0000-000000000000", "ffffffff-ffff-4fff-bfff-ffffffffffff"]
PATHS = ["a", "a/b", "/abs/é", ".", "x y/z.txt", "C:\\win\\p", ""]


class PatternT(Node):
    kind = "Pattern"
    class_origin = re.Pattern
    str_dump = True

    def __init__(self):
        super().__init__(re.Pattern, "re.Pattern")

    def gen(self, rng):
        return re.compile(rng.choice(["", "a", "a.*", "[0-9]+", "(x|y)z?", "\\d{2}", "é+"]))

    def dump(self, x):
        return x.pattern

    def accept(self, d, strict):
        if not isinstance(d, str):
            return REJ
        try:
            return acc(re.compile(d))
        except re.error:
            return REJ
        except Exception:  # noqa: BLE001
            return REJ


# ---- enums -----------------------------------------------------------------------------------------
class EInt(Enum):
    A = 1
    B = 2
    C = 10


class EStr(str, Enum):
    X = "x"
    Y = "why"


class EMix(Enum):
    N = None
    T = (1, 2)
    S = "s"
    F = 2.5


class EUnh(Enum):
    """Member values that cannot be hashed: the exact-value loader has to fall back from its dict lookup (seeded change C01-a)."""
    L = [1, 2]
    D = {"k": "v"}
    H = 7
    E = []


class IE(IntEnum):
    ZERO = 0
    ONE = 1
    FIVE = 5


class FRWX(Flag):
    R = 1
    W = 2
    X = 4


class FZ(Flag):
    NONE = 0
    A = 1
    B = 2
    AB = 3


class IF(IntFlag):
    P = 1
    Q = 2


class EnumT(Node):
    def __init__(self, cls):
        super().__init__(cls, cls.__name__)
        self.kind = "IntEnum" if issubclass(cls, int) else "StrEnum" if issubclass(cls, str) else "Enum"
        self.cls = cls
        self.class_origin = cls
        self.str_dump = all(type(m.value) is str for m in cls)
        try:
            hash(tuple(m.value for m in cls))
        except TypeError:
            self.hashable = False   # members hash, their dumps do not: not usable as dict keys (the dumped dict cannot be built)

    def gen(self, rng):
        return rng.choice(list(self.cls))

    def dump(self, x):
        return x.value

    def accept(self, d, strict):
        if isinstance(d, self.cls):
            return REJ if type(d) is self.cls and not isinstance(d, (int, str)) else UNS
        hits = []
        look = False
        for m in self.cls:
            try:
                if m.value == d:
                    if type(m.value) is type(d):
                        hits.append(m)
                    else:
                        look = True
            except Exception:  # noqa: BLE001
                pass
        if hits:
            return acc(hits[0])
        if look:
            return UNS
        return REJ


class FlagT(Node):
    def __init__(self, cls):
        super().__init__(cls, cls.__name__)
        self.kind = "IntFlag" if issubclass(cls, int) else "Flag"
        self.cls = cls
        self.class_origin = cls
        mask = 0
        for m in cls.__members__.values():
            mask |= m.value
        self.mask = mask

    def gen(self, rng):
        return self.cls(rng.randint(0, self.mask))

    def dump(self, x):
        return x.value

    def accept(self, d, strict):
        if type(d) is bool or (isinstance(d, int) and type(d) is not int):
            return UNS if type(d) is bool else REJ
        if type(d) is not int:
            return REJ
        if 0 <= d <= self.mask:
            try:
                return acc(self.cls(d))
            except ValueError:
                return REJ
        return REJ


# ---- wrappers --------------------------------------------------------------------------------------
class WrapT(Node):
    """NewType / Annotated / Final / type alias: processed as the wrapped type."""

    def __init__(self, hint, src, child, kind):
        super().__init__(hint, src)
        self.kind = kind
        self.children = (child,)
        self.child = child
        self.hashable = child.hashable
        self.str_dump = child.str_dump
        self.is_model = child.is_model
        self.class_origin = child.class_origin if kind == "Annotated" else None

    def gen(self, rng):
        return self.child.gen(rng)

    def dump(self, x):
        return self.child.dump(x)

    def accept(self, d, strict):
        return self.child.accept(d, strict)


def _is_boolish(x):
    return type(x) is bool


def _is_01(x):
    return type(x) is int and x in (0, 1)


class LiteralT(Node):
    kind = "Literal"

    def __init__(self, members):
        self.members = tuple(members)
        hint = typing.Literal[self.members]  # type: ignore[valid-type]
        super().__init__(hint, f"Literal[{', '.join(_lit_src(m) for m in self.members)}]")
        self.class_origin = typing.Literal
        self.str_dump = all(type(m) is str for m in self.members)
        self.enum_nodes = {}
        for m in self.members:
            if isinstance(m, Enum) and type(m) not in self.enum_nodes:
                self.enum_nodes[type(m)] = EnumT(type(m))
        self.bytes_node = BytesT(bytes)

    def gen(self, rng):
        return rng.choice(self.members)

    def dump(self, x):
        if isinstance(x, Enum):
            return x.value
        if isinstance(x, bytes):
            return self.bytes_node.dump(x)
        return x

    def accept(self, d, strict):  # noqa: C901, PLR0912
        hits = []      # (result) of members this datum may be interpreted as
        look = False
        unknown = False
        for m in self.members:
            if isinstance(m, Enum):
                if d is m:
                    unknown = True
                    continue
                v = self.enum_nodes[type(m)].accept(d, strict)
                if v.k == A and v.vals[0] is m:
                    hits.append(m)
                elif v.k == U:
                    unknown = True
                continue
            if isinstance(m, bytes):
                v = self.bytes_node.accept(d, strict)
                if v.k == A and v.vals[0] == m:
                    hits.append(m)
                elif v.k == U:
                    unknown = True
                # a bytes *datum* equal to the member is also "listed in Literal"
                if type(d) is bytes and d == m:
                    hits.append(d)
                elif not isinstance(d, str):
                    try:
                        if d == m:
                            look = True     # bytearray(b'ab') == b'ab': an ==-look-alike of another type, the docs do not decide
                    except Exception:  # noqa: BLE001
                        pass
                continue
            try:
                eq = (d == m)
            except Exception:  # noqa: BLE001
                eq = False
            if not eq:
                continue
            if type(d) is type(m):
                hits.append(d)
            elif (_is_boolish(d) or _is_boolish(m)) and isinstance(d, int) and isinstance(m, int) and type(d) in (int, bool):
                # bool/int confusion: strict distinguishes, lax considers them the same value
                if strict:
                    continue
                hits.append(d)
            else:
                look = True   # 1.0 for 1, an IntEnum member for 1, ...: the docs do not decide
        if len(hits) > 1:
            first = hits[0]
            if all(strict_eq(h, first) for h in hits[1:]):
                return acc(first)
            return UNS
        if hits:
            return UNS if unknown else acc(hits[0])
        if look or unknown:
            return UNS
        return REJ


def _lit_src(m):
    if isinstance(m, Enum):
        return f"{type(m).__name__}.{m.name}"
    return repr(m)


class UnionT(Node):
    kind = "Union"

    def __init__(self, cases, hint=None, src=None):
        self.children = tuple(cases)
        if hint is None:
            hint = typing.Union[tuple(c.hint for c in cases)]  # type: ignore[valid-type]
        super().__init__(hint, src or f"Union[{', '.join(c.src for c in cases)}]")
        if len(cases) == 2 and any(c.kind == "None" for c in cases):
            self.kind = "Optional"
        self.hashable = all(c.hashable for c in cases)
        self.str_dump = all(c.str_dump for c in cases)
        self.is_model = False

    def gen(self, rng):
        for _ in range(6):
            c = rng.choice(self.children)
            x = c.gen(rng)
            if self.dump_case(x) is c and self._round_trips(c, x):
                return x
        raise LookupError("no value whose runtime class identifies its union case")

    def _round_trips(self, c, x):
        """Values whose dump another case takes first (EMix.N dumps to None, which Optional loads as None) are not generated:
        nothing promises that such a value survives dump + load (thorough-tier false alarm of the C02 reference self-check)."""
        try:
            d = c.dump(x)
        except LookupError:
            return False
        for sc in (True, False):
            v = self.accept(d, sc)
            if v.k == R or (v.k == A and v.vals is not None and not any(strict_eq(x, y) or strict_eq(y, x) for y in v.vals)):
                return False
        return True

    def dump_case(self, x):
        """Documented dispatch: Literal members first, then runtime class with nearest-MRO-ancestor fallback."""
        for c in self.children:
            if c.kind == "Literal":
                try:
                    hit = [m for m in c.members if m == x]
                except Exception:  # noqa: BLE001
                    hit = []
                if hit:
                    if any(type(m) is type(x) for m in hit):
                        return c
                    # ==-look-alike of a literal member (Decimal(200) next to Literal[200]): "finds appropriate dumper using object
                    # type" - it belongs to the case of its class; with no such case nothing is documented (None below)
        by_origin = {}
        for c in self.children:
            if c.class_origin is not None and c.kind != "Literal":
                by_origin[c.class_origin] = c
        for klass in type(x).__mro__:
            if klass in by_origin:
                return by_origin[klass]
        # "a subclass of some union case": tuple / dict / frozenset are subclasses of the abstract collections by registration (defect #103)
        virtual = []
        for origin, c in by_origin.items():
            try:
                if isinstance(origin, type) and issubclass(type(x), origin):
                    virtual.append(c)
            except TypeError:
                pass
        return virtual[0] if len(virtual) == 1 else None     # several registered ancestors: there is no mro to break the tie, nothing is documented

    def dump(self, x):
        c = self.dump_case(x)
        if c is None:
            raise LookupError("no union case for runtime class")
        return c.dump(x)

    def accept(self, d, strict):
        if isinstance(d, cabc.Iterator):
            return UNS   # a one-shot iterator is consumed by the first case that tries it: the docs do not speak about it
        if self.kind == "Optional" and d is None:
            return acc(None)   # Optional[T]: None stays None in every mode, even where the laxer loader of T would take None (str(None), bool(None))
        vs = [c.accept(d, strict) for c in self.children]
        if any(v.k == U for v in vs):
            return UNS
        accs = [v for v in vs if v.k == A]
        if not accs:
            return REJ
        if any(v.vals is None for v in accs):
            return Verdict(A, None)
        vals = [x for v in accs for x in v.vals]
        return Verdict(A, vals if len(vals) <= 4 * MAX_ALT else None)

    def accepting_cases(self, d, strict):
        return [c for c in self.children if c.accept(d, strict).k != R]


# ---- containers ------------------------------------------------------------------------------------
ITERABLES = {
    # kind: (hint factory, src template, result constructor, value type used by gen, dump container, class origin)
    "List": (lambda a: typing.List[a], "List[{}]", list, list, list, list),
    "list": (lambda a: list[a], "list[{}]", list, list, list, list),
    "Set": (lambda a: typing.Set[a], "Set[{}]", set, set, tuple, set),
    "set": (lambda a: set[a], "set[{}]", set, set, tuple, set),
    "FrozenSet": (lambda a: typing.FrozenSet[a], "FrozenSet[{}]", frozenset, frozenset, tuple, frozenset),
    "frozenset": (lambda a: frozenset[a], "frozenset[{}]", frozenset, frozenset, tuple, frozenset),
    "Deque": (lambda a: typing.Deque[a], "Deque[{}]", collections.deque, collections.deque, tuple, collections.deque),
    "VarTuple": (lambda a: typing.Tuple[a, ...], "Tuple[{}, ...]", tuple, tuple, tuple, tuple),
    "vartuple": (lambda a: tuple[a, ...], "tuple[{}, ...]", tuple, tuple, tuple, tuple),
    "Iterable": (lambda a: typing.Iterable[a], "Iterable[{}]", tuple, tuple, tuple, cabc.Iterable),
    "Collection": (lambda a: typing.Collection[a], "Collection[{}]", tuple, tuple, tuple, cabc.Collection),
    "Reversible": (lambda a: typing.Reversible[a], "Reversible[{}]", tuple, tuple, tuple, cabc.Reversible),
    "Sequence": (lambda a: typing.Sequence[a], "Sequence[{}]", tuple, tuple, tuple, cabc.Sequence),
    "abc.Sequence": (lambda a: cabc.Sequence[a], "abc.Sequence[{}]", tuple, tuple, tuple, cabc.Sequence),
    "MutableSequence": (lambda a: typing.MutableSequence[a], "MutableSequence[{}]", list, list, tuple, cabc.MutableSequence),
    "AbstractSet": (lambda a: typing.AbstractSet[a], "AbstractSet[{}]", frozenset, frozenset, tuple, cabc.Set),
    "MutableSet": (lambda a: typing.MutableSet[a], "MutableSet[{}]", set, set, tuple, cabc.MutableSet),
}
SET_KINDS = {"Set", "set", "FrozenSet", "frozenset", "AbstractSet", "MutableSet"}


class IterT(Node):
    def __init__(self, kind, elem):
        mk, tmpl, ctor, vtype, dctor, origin = ITERABLES[kind]
        super().__init__(mk(elem.hint), tmpl.format(elem.src))
        self.kind = kind
        self.children = (elem,)
        self.elem = elem
        self.ctor, self.vtype, self.dctor = ctor, vtype, dctor
        self.class_origin = origin
        self.is_set = kind in SET_KINDS
        self.hashable = ctor in (tuple, frozenset) and elem.hashable

    def gen(self, rng):
        n = rng.choice([0, 0, 1, 1, 2, 3, 5])
        return self.vtype(self.elem.gen(rng) for _ in range(n))

    def dump(self, x):
        return self.dctor(self.elem.dump(v) for v in x)

    def accept(self, d, strict):
        if strict:
            if isinstance(d, cabc.Mapping):
                return REJ
            if isinstance(d, str):
                return REJ   # "any iterable excluding str and Mapping": an instance of a str subclass is a str (defect #47, fixed ad77896)
        try:
            it = iter(d)
        except TypeError:
            return REJ
        except Exception:  # noqa: BLE001
            return UNS
        try:
            items = list(itertools.islice(it, 10001))
        except Exception:  # noqa: BLE001
            return UNS
        if len(items) > 10000:
            return UNS
        return combine([self.elem.accept(v, strict) for v in items], self.ctor)


class TupleT(Node):
    kind = "Tuple"

    def __init__(self, elems, builtin=False):
        elems = tuple(elems)
        if elems:
            hint = (tuple if builtin else typing.Tuple)[tuple(e.hint for e in elems)]
        else:
            hint = tuple[()] if builtin else typing.Tuple[()]
        super().__init__(hint, f"{'tuple' if builtin else 'Tuple'}[{', '.join(e.src for e in elems) or '()'}]")
        self.children = elems
        self.class_origin = tuple
        self.hashable = all(e.hashable for e in elems)

    def gen(self, rng):
        return tuple(e.gen(rng) for e in self.children)

    def dump(self, x):
        return tuple(e.dump(v) for e, v in zip(self.children, x))

    def accept(self, d, strict):
        if strict:
            if isinstance(d, cabc.Mapping):
                return REJ
            if isinstance(d, str):
                return REJ   # "any iterable excluding str and Mapping": an instance of a str subclass is a str (defect #47, fixed ad77896)
        try:
            iter(d)
        except TypeError:
            return REJ
        except Exception:  # noqa: BLE001
            return UNS
        if not isinstance(d, cabc.Sized):
            return UNS   # one-shot iterators: the modes legitimately differ today, the docs are silent
        if isinstance(d, (set, frozenset, cabc.Set)) and len(d) > 1:
            return UNS   # unordered input for positional targets
        items = list(d)
        if len(items) != len(self.children):
            return REJ
        return combine([e.accept(v, strict) for e, v in zip(self.children, items)], tuple)


DICTS = {
    "Dict": (lambda k, v: typing.Dict[k, v], "Dict[{}, {}]", dict),
    "dict": (lambda k, v: dict[k, v], "dict[{}, {}]", dict),
    "Mapping": (lambda k, v: typing.Mapping[k, v], "Mapping[{}, {}]", cabc.Mapping),
    "MutableMapping": (lambda k, v: typing.MutableMapping[k, v], "MutableMapping[{}, {}]", cabc.MutableMapping),
    "DefaultDict": (lambda k, v: typing.DefaultDict[k, v], "DefaultDict[{}, {}]", collections.defaultdict),
    "defaultdict": (lambda k, v: collections.defaultdict[k, v], "defaultdict[{}, {}]", collections.defaultdict),
}


class DictT(Node):
    hashable = False

    def __init__(self, kind, key, val):
        mk, tmpl, origin = DICTS[kind]
        super().__init__(mk(key.hint, val.hint), tmpl.format(key.src, val.src))
        self.kind = kind
        self.children = (key, val)
        self.key, self.val = key, val
        self.class_origin = origin
        self.is_dd = origin is collections.defaultdict

    def _build(self, pairs):
        d = dict(pairs)
        return collections.defaultdict(None, d) if self.is_dd else d

    def gen(self, rng):
        n = rng.choice([0, 1, 1, 2, 3])
        out = {}
        for _ in range(n):
            k = self.key.gen(rng)
            try:
                if k != k:  # nan keys make dict comparison ill-defined
                    continue
            except Exception:  # noqa: BLE001
                pass
            out[k] = self.val.gen(rng)
        return self._build(out.items())

    def dump(self, x):
        return {self.key.dump(k): self.val.dump(v) for k, v in x.items()}

    def accept(self, d, strict):
        if not isinstance(d, cabc.Mapping):
            return UNS if hasattr(d, "items") else REJ
        try:
            items = list(d.items())
        except Exception:  # noqa: BLE001
            return UNS
        vs = []
        for k, v in items:
            vs.append(self.key.accept(k, strict))
            vs.append(self.val.accept(v, strict))

        def build(flat):
            return self._build(zip(flat[0::2], flat[1::2]))

        return combine(vs, build)


# ---------------------------------------------------------------------------------------------------
def scalar_nodes():
    P = pathlib
    ip = ipaddress
    return [
        IntT(), FloatT(), StrT(), BoolT(), NoneT(), AnyT(), AnyT(object, "object"), LiteralStringT(),
        CtorScalarT(Decimal, DECIMALS), CtorScalarT(Fraction, FRACTIONS), CtorScalarT(complex, COMPLEXES),
        BytesT(bytes), BytesT(bytearray), BytesT(BytesIO), BytesT(BytesIO, src="IO[bytes]", hint=typing.IO[bytes], origin=False),
        IsoT(date, DATES), IsoT(time, TIMES), IsoT(datetime, DATETIMES), TimedeltaT(),
        StrCtorT(uuid.UUID, UUIDS, str),
        StrCtorT(ip.IPv4Address, ["127.0.0.1", "0.0.0.0", "255.255.255.255"], str),
        StrCtorT(ip.IPv6Address, ["::1", "2001:db8::1"], str),
        StrCtorT(ip.IPv4Network, ["10.0.0.0/8", "192.168.1.0/24"], str),
        StrCtorT(ip.IPv6Network, ["2001:db8::/32"], str),
        StrCtorT(ip.IPv4Interface, ["10.1.2.3/8"], str),
        StrCtorT(ip.IPv6Interface, ["2001:db8::1/64"], str),
        StrCtorT(P.PurePosixPath, PATHS, lambda x: x.__fspath__()),
        StrCtorT(P.PureWindowsPath, PATHS, lambda x: x.__fspath__()),
        StrCtorT(P.PurePath, PATHS, lambda x: x.__fspath__(), result_cls=type(P.PurePath("a"))),
        StrCtorT(P.Path, PATHS, lambda x: x.__fspath__(), result_cls=type(P.Path("a"))),
        StrCtorT(P.PosixPath, PATHS, lambda x: x.__fspath__()),
        StrCtorT(P.Path, PATHS, lambda x: x.__fspath__(), result_cls=type(P.Path("a")), hint=os.PathLike[str], src="PathLike[str]"),
        PatternT(),
        EnumT(EInt), EnumT(EStr), EnumT(EMix), EnumT(EUnh), EnumT(IE), FlagT(FRWX), FlagT(FZ), FlagT(IF),
    ]


LITERAL_SETS = [
    (0, 1), (False, True), (0, True), (False, 1), ("x", 0, True), ("x", False, True), (1, False, "a"), ("a", "b"), ("a",), (1, 2, 3), (0, 1, 2, 3, 4), (False, True, 2, 3, 4, 5),
    ("a", "b", "c", "d", "e", "f"), (EInt.A, "z"), (EInt.A, EInt.B), (EStr.X, 5), (b"abc", "q"), (b"abc", 1), (b"", b"ab", EInt.C, 7),
    (None, 1), (IE.ONE, 2), (10, 20, 30, 40, 50, "x"), (EInt.A, IE.FIVE, "t"),
]

_NT_COUNTER = itertools.count()


MODEL_HOOK = None   # set by vlib.models: (rng, depth) -> ModelT; consulted only when the caller enabled models


def gen_type(rng, depth, *, hashable=False, for_union=False, str_key=False, scalars=None, with_models=False):  # noqa: C901, PLR0911, PLR0912
    """Random type node of the grammar. depth = remaining nesting budget."""
    scalars = scalars or _SCALARS
    roll = rng.random()
    leaf = depth <= 0 or roll < 0.30
    if with_models and MODEL_HOOK is not None and not hashable and not str_key and depth >= 1 and rng.random() < 0.22:
        return MODEL_HOOK(rng, depth)
    if str_key:
        pool = [n for n in scalars if n.str_dump and n.hashable and n.kind not in ("LiteralString",)]
        return rng.choice(pool)
    if leaf:
        pool = scalars
        if hashable:
            pool = [n for n in pool if n.hashable]
        if for_union:
            pool = [n for n in pool if n.class_origin is not None]
        if rng.random() < 0.15 and not for_union:
            return LiteralT(rng.choice(LITERAL_SETS))
        return rng.choice(pool)
    choice = rng.choice(["iter", "iter", "iter", "tuple", "dict", "dict", "union", "optional", "optional", "wrap", "literal"])
    if for_union and choice in ("union", "optional", "wrap"):
        choice = "iter"
    if choice == "iter":
        kinds = list(ITERABLES)
        if hashable:
            kinds = ["VarTuple", "vartuple", "FrozenSet", "frozenset", "Iterable", "Sequence", "Collection", "AbstractSet"]
        kind = rng.choice(kinds)
        elem = gen_type(rng, depth - 1, hashable=hashable or kind in SET_KINDS, scalars=scalars, with_models=with_models)
        return IterT(kind, elem)
    if choice == "tuple":
        n = rng.choice([0, 1, 2, 2, 3])
        return TupleT([gen_type(rng, depth - 1, hashable=hashable, scalars=scalars, with_models=with_models) for _ in range(n)], builtin=rng.random() < 0.4)
    if choice == "dict":
        if hashable:
            return gen_type(rng, 0, hashable=True, for_union=for_union, scalars=scalars, with_models=with_models)
        key = gen_type(rng, min(depth - 1, 1), hashable=True, scalars=scalars) if rng.random() < 0.5 else gen_type(rng, 0, str_key=True, scalars=scalars, with_models=with_models)
        return DictT(rng.choice(list(DICTS)), key, gen_type(rng, depth - 1, scalars=scalars, with_models=with_models))
    if choice == "literal":
        return LiteralT(rng.choice(LITERAL_SETS))
    if choice == "optional":
        inner = gen_type(rng, depth - 1, hashable=hashable, for_union=True, scalars=scalars, with_models=with_models)
        if inner.kind == "None":
            inner = IntT()
        if rng.random() < 0.5:
            return UnionT([inner, NoneT()], hint=typing.Optional[inner.hint], src=f"Optional[{inner.src}]")
        return UnionT([NoneT(), inner])
    if choice == "union":
        n = rng.choice([2, 2, 3])
        cases, origins = [], set()
        for _ in range(n * 3):
            c = gen_type(rng, depth - 1, hashable=hashable, for_union=True, scalars=scalars, with_models=with_models)
            o = c.class_origin
            if o is None or o in origins:
                continue
            origins.add(o)
            cases.append(c)
            if len(cases) == n:
                break
        if len(cases) < 2:
            return gen_type(rng, 0, hashable=hashable, scalars=scalars, with_models=with_models)
        if rng.random() < 0.3:
            hint = cases[0].hint
            try:
                for c in cases[1:]:
                    hint = hint | c.hint
                return UnionT(cases, hint=hint, src=" | ".join(c.src for c in cases))
            except TypeError:
                pass
        return UnionT(cases)
    # wrap
    child = gen_type(rng, depth - 1, hashable=hashable, scalars=scalars, with_models=with_models)
    w = rng.choice(["NewType", "Annotated", "Annotated"])
    if w == "NewType" and child.kind not in ("Union", "Optional", "Literal", "None", "Any", "object") and isinstance(child.hint, type):
        name = f"NT{next(_NT_COUNTER)}"
        return WrapT(typing.NewType(name, child.hint), f"NewType({child.src})", child, "NewType")
    return WrapT(typing.Annotated[child.hint, "meta"], f"Annotated[{child.src}, 'meta']", child, "Annotated")


_SCALARS = scalar_nodes()
SCALAR_BY_KIND = {n.kind: n for n in _SCALARS}
