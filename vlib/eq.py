"""Type-strict deep equality, structural snapshots and id-graphs of mutable containers."""
from __future__ import annotations

import collections
import dataclasses
import enum
import io
import math
import re
from decimal import Decimal
from fractions import Fraction

_ATOMS = (int, str, bytes, bool, type(None), Fraction, range, slice, type(Ellipsis), type(NotImplemented))


def _float_eq(a, b):
    if a != a or b != b:
        return a != a and b != b
    return a == b and math.copysign(1.0, a) == math.copysign(1.0, b)


def model_fields(obj):
    """Field-name -> value view for instances of any supported model kind; None when obj is not a model."""
    cls = type(obj)
    if dataclasses.is_dataclass(cls):
        return {f.name: getattr(obj, f.name, _Missing) for f in dataclasses.fields(cls)}
    if isinstance(obj, tuple) and hasattr(cls, "_fields"):
        return {n: getattr(obj, n) for n in cls._fields}
    if hasattr(cls, "__attrs_attrs__"):
        return {a.name: getattr(obj, a.name, _Missing) for a in cls.__attrs_attrs__}
    if hasattr(cls, "model_fields") and hasattr(obj, "__pydantic_fields_set__"):
        d = {n: getattr(obj, n, _Missing) for n in cls.model_fields}
        priv = getattr(obj, "__pydantic_private__", None) or {}
        d.update({k: v for k, v in priv.items()})
        return d
    if hasattr(cls, "__table__") and hasattr(cls, "__mapper__"):
        return {c.key: getattr(obj, c.key, _Missing) for c in cls.__mapper__.attrs}
    return None


class _MissingT:
    def __repr__(self):
        return "<missing>"


_Missing = _MissingT()


class Approx:
    """Expected timedelta with a 1 microsecond tolerance (the documentation does not fix the rounding)."""
    __slots__ = ("ref",)

    def __init__(self, ref):
        self.ref = ref

    def match(self, other):
        import datetime as _dt  # noqa: PLC0415

        return type(other) is _dt.timedelta and abs(other - self.ref) <= _dt.timedelta(microseconds=1)

    # identity hash/eq on purpose: two expectations within the tolerance of each other stay two members of an expected set
    # (thorough-tier false alarm: frozenset({Approx(0), Approx(1us)}) collapsed to one member)

    def __repr__(self):
        return f"~{self.ref!r}"


def _has_approx(x):
    """Hashable values that contain an Approx: members of expected sets / keys of expected dicts that identity-hash."""
    if type(x) is Approx:
        return True
    if isinstance(x, (tuple, frozenset)):
        return any(_has_approx(v) for v in x)
    f = model_fields(x) if not isinstance(x, _ATOMS) else None
    return bool(f) and any(_has_approx(v) for v in f.values())


def strict_eq(a, b, _depth=0):  # noqa: C901, PLR0911, PLR0912
    if a is b:
        return True
    if type(b) is Approx:
        return b.match(a)
    if type(a) is Approx:
        return a.match(b)
    if type(a) is not type(b):
        return False
    if _depth > 200:
        return a == b
    t = type(a)
    if t is float:
        return _float_eq(a, b)
    if t is complex:
        return _float_eq(a.real, b.real) and _float_eq(a.imag, b.imag)
    if t is Decimal:
        return a.compare_total(b) == 0
    if t in _ATOMS:
        return a == b
    if isinstance(a, enum.Enum):
        return a is b or (a == b and a.name == b.name)
    if isinstance(a, tuple) and hasattr(t, "_fields"):
        return all(strict_eq(x, y, _depth + 1) for x, y in zip(a, b)) and len(a) == len(b)
    if isinstance(a, (list, tuple, collections.deque)):
        return len(a) == len(b) and all(strict_eq(x, y, _depth + 1) for x, y in zip(a, b))
    if isinstance(a, (dict, collections.abc.Mapping)):
        if len(a) != len(b) and (any(_has_approx(k) for k in a) or any(_has_approx(k) for k in b)):
            # keys within the tolerance of each other may merge: every actual item must be an expected one and every expected key present
            ex, ac = (a, b) if any(_has_approx(k) for k in a) else (b, a)
            return (all(any(strict_eq(k, ek, _depth + 1) and strict_eq(v, ev, _depth + 1) for ek, ev in ex.items()) for k, v in ac.items())
                    and all(any(strict_eq(k, ek, _depth + 1) for k in ac) for ek in ex))
        if len(a) != len(b):
            return False
        if isinstance(a, collections.defaultdict) and a.default_factory is not b.default_factory:
            return False
        bkeys = {k: k for k in b}
        for k, v in a.items():
            try:
                bk = bkeys[k]
            except KeyError:
                # nan keys and the like: fall back to a linear search
                bk = next((kk for kk in b if strict_eq(kk, k, _depth + 1) and strict_eq(v, b[kk], _depth + 1)), _Missing)
                if bk is _Missing:
                    return False
            if not strict_eq(k, bk, _depth + 1) or not strict_eq(v, b[bk], _depth + 1):
                return False
        return True
    if isinstance(a, (set, frozenset)):
        if any(_has_approx(x) for x in a) or any(_has_approx(y) for y in b):
            # rounding may merge or keep apart members that are within the tolerance: mutual cover instead of a bijection
            return (all(any(strict_eq(x, y, _depth + 1) for y in b) for x in a)
                    and all(any(strict_eq(x, y, _depth + 1) for x in a) for y in b))
        if len(a) != len(b):
            return False
        rest = list(b)
        for x in a:
            for i, y in enumerate(rest):
                if strict_eq(x, y, _depth + 1):
                    del rest[i]
                    break
            else:
                return False
        return True
    if isinstance(a, (bytearray, memoryview)):
        return bytes(a) == bytes(b)
    if isinstance(a, re.Pattern):
        return a.pattern == b.pattern and a.flags == b.flags
    if isinstance(a, io.BytesIO):
        return a.getvalue() == b.getvalue()
    fa = model_fields(a)
    if fa is not None:
        fb = model_fields(b)
        return fa.keys() == fb.keys() and all(strict_eq(fa[k], fb[k], _depth + 1) for k in fa)
    try:
        return bool(a == b)
    except Exception:  # noqa: BLE001
        return False


def logical_eq(a, b):
    """Field-wise comparison across model kinds (used by C17): models are compared through model_fields."""
    fa, fb = _as_logical(a), _as_logical(b)
    return strict_eq(fa, fb)


def _as_logical(x):
    f = model_fields(x)
    if f is not None:
        return {k: _as_logical(v) for k, v in f.items() if v is not _Missing}
    if isinstance(x, dict):
        return {k: _as_logical(v) for k, v in x.items()}
    if isinstance(x, list):
        return [_as_logical(v) for v in x]
    if isinstance(x, tuple) and not hasattr(type(x), "_fields"):
        return tuple(_as_logical(v) for v in x)
    return x


# ---------------------------------------------------------------------------------------------------

_MUTABLE = (list, dict, set, bytearray, collections.deque)


def freeze(obj, _depth=0, _seen=None):  # noqa: C901, PLR0911
    """Structural, order-preserving, type-tagged snapshot that can be compared with == later."""
    if _seen is None:
        _seen = set()
    if _depth > 100:
        return ("deep", type(obj).__name__)
    t = type(obj)
    if t is float:
        return ("float", repr(obj))
    if t is complex:
        return ("complex", repr(obj))
    if t is Decimal:
        return ("Decimal", str(obj), obj.as_tuple() if obj.is_finite() else None)
    if t in _ATOMS or isinstance(obj, (str, bytes, int)):
        return (t.__name__, obj) if t is not range and t is not slice else (t.__name__, repr(obj))
    if isinstance(obj, enum.Enum):
        return ("enum", t.__name__, obj.name)
    oid = id(obj)
    if oid in _seen:
        return ("cycle", t.__name__)
    _seen = _seen | {oid}
    if isinstance(obj, collections.defaultdict):
        return ("defaultdict", repr(obj.default_factory), tuple((freeze(k, _depth + 1, _seen), freeze(v, _depth + 1, _seen)) for k, v in obj.items()))
    if isinstance(obj, collections.abc.Mapping):
        try:
            return (t.__name__, tuple((freeze(k, _depth + 1, _seen), freeze(v, _depth + 1, _seen)) for k, v in obj.items()))
        except Exception:  # noqa: BLE001
            return (t.__name__, "unwalkable")
    if isinstance(obj, (list, tuple, collections.deque)):
        return (t.__name__, tuple(freeze(v, _depth + 1, _seen) for v in obj))
    if isinstance(obj, (set, frozenset)):
        return (t.__name__, tuple(sorted((freeze(v, _depth + 1, _seen) for v in obj), key=repr)))
    if isinstance(obj, (bytearray, memoryview)):
        return (t.__name__, bytes(obj))
    if isinstance(obj, io.BytesIO):
        return ("BytesIO", obj.getvalue())     # the stream position is not part of the value (dumping a stream reads it)
    if isinstance(obj, re.Pattern):
        return ("Pattern", obj.pattern, obj.flags)
    f = model_fields(obj)
    if f is not None:
        return ("model", t.__name__, tuple((k, freeze(v, _depth + 1, _seen)) for k, v in f.items()))
    d = getattr(obj, "__dict__", None)
    if isinstance(d, dict) and not isinstance(obj, type) and not callable(obj) and (t.__module__ or "").startswith(("vlib", "__main__")):
        # only classes defined by the checks are walked attribute-wise: stdlib objects (ipaddress, pathlib, ...) cache derived
        # attributes lazily in __dict__, which is not a mutation of their value
        return ("obj", t.__name__, tuple((k, freeze(v, _depth + 1, _seen)) for k, v in d.items() if not k.startswith("_sa_")))
    try:
        return ("repr", t.__name__, repr(obj))
    except Exception:  # noqa: BLE001
        return ("opaque", t.__name__, id(obj))


def mutable_ids(obj, path=(), out=None, _depth=0):  # noqa: C901
    """id -> path for every mutable container / model instance reachable from obj."""
    if out is None:
        out = {}
    if _depth > 100:
        return out
    if isinstance(obj, (str, bytes, int, float, complex, type(None), Decimal, Fraction, enum.Enum, frozenset, range)):
        if isinstance(obj, frozenset):
            for v in obj:
                mutable_ids(v, (*path, "<el>"), out, _depth + 1)
        return out
    oid = id(obj)
    f = model_fields(obj)
    is_mut = isinstance(obj, _MUTABLE) or isinstance(obj, collections.abc.MutableMapping) or isinstance(obj, io.BytesIO) or (
        f is not None and not (isinstance(obj, tuple)))
    if is_mut:
        if oid in out:
            return out
        out[oid] = path
    if isinstance(obj, collections.abc.Mapping):
        try:
            items = list(obj.items())
        except Exception:  # noqa: BLE001
            items = []
        for k, v in items:
            mutable_ids(k, (*path, "<key>"), out, _depth + 1)
            mutable_ids(v, (*path, k), out, _depth + 1)
    elif isinstance(obj, (list, tuple, collections.deque, set)):
        for i, v in enumerate(obj):
            mutable_ids(v, (*path, i), out, _depth + 1)
    elif f is not None:
        for k, v in f.items():
            mutable_ids(v, (*path, "." + k), out, _depth + 1)
    return out
