"""Thin helpers around the adaptix facade: retorts for the 6 modes, outcome capture, error-tree walking."""
from __future__ import annotations

import os
import traceback

from adaptix import DebugTrail, Retort
from adaptix.load_error import LoadError
from adaptix.struct_trail import get_trail

DEBUG_MODES = (DebugTrail.DISABLE, DebugTrail.FIRST, DebugTrail.ALL)
MODES = tuple((dt, sc) for dt in DEBUG_MODES for sc in (True, False))


def mode_name(dt, sc):
    return f"{dt.name}/{'strict' if sc else 'lax'}"


def make_retort(dt=DebugTrail.ALL, sc=True, recipe=()):
    return Retort(recipe=list(recipe), debug_trail=dt, strict_coercion=sc)


class Outcome:
    __slots__ = ("kind", "value", "exc")

    def __init__(self, kind, value=None, exc=None):
        self.kind, self.value, self.exc = kind, value, exc

    def __repr__(self):
        if self.kind == "ok":
            return f"ok({self.value!r})"[:300]
        return f"{self.kind}({type(self.exc).__name__}: {str(self.exc)[:120]})"


def attempt(fn, *args, **kwargs):
    """ok / load_error (pure LoadError tree) / impure_group / exc"""
    try:
        return Outcome("ok", fn(*args, **kwargs))
    except LoadError as e:
        return Outcome("load_error" if is_pure_load_error(e) else "impure", exc=e)
    except RecursionError as e:
        return Outcome("recursion", exc=e)
    except Exception as e:  # noqa: BLE001
        return Outcome("exc", exc=e)


def is_pure_load_error(e):
    if not isinstance(e, LoadError):
        return False
    subs = getattr(e, "exceptions", None)
    if subs is None:
        return True
    return all(is_pure_load_error(s) for s in subs)


def non_load_leaves(e):
    subs = getattr(e, "exceptions", None)
    if subs is None:
        return [] if isinstance(e, LoadError) else [e]
    out = []
    if not isinstance(e, LoadError):
        out.append(e)
    for s in subs:
        out.extend(non_load_leaves(s))
    return out


def innermost_adaptix_frame(e):
    """Names the place an escaping exception comes from:
    - the innermost adaptix function when the raise happened inside adaptix (or in a C builtin called by it);
    - 'raw:<file>.<function>' of the foreign (stdlib / third party) function adaptix called when the raise happened below it,
      so that one raw constructor gives one key whatever container loader sits above it."""
    tb = traceback.extract_tb(e.__traceback__)
    frames = [fr for fr in tb if f"{os.sep}vlib{os.sep}" not in fr.filename]
    last_adaptix = None
    for i, fr in enumerate(frames):
        if f"{os.sep}adaptix{os.sep}" in fr.filename or fr.filename.startswith("<adaptix"):
            last_adaptix = i
    if last_adaptix is None:
        if frames:
            fr = frames[0]
            return f"raw:{os.path.basename(fr.filename)}.{fr.name}"
        return "?"
    if last_adaptix + 1 < len(frames):
        fr = frames[last_adaptix + 1]
        return f"raw:{os.path.basename(fr.filename)}.{fr.name}"
    fr = frames[last_adaptix]
    if fr.filename.startswith("<adaptix"):
        import re  # noqa: PLC0415

        m = re.match(r"(model_loader|model_dumper|convert|coerce)", fr.name)
        return "generated:" + (m.group(1) if m else fr.name)     # generated closures carry the model's name: keep the generator only
    return fr.name


def escape_key(e):
    """Mechanism key for a non-LoadError escaping a load: <class>@<innermost adaptix function>, per offending leaf."""
    leaves = non_load_leaves(e) or [e]
    # prefer genuine leaves over wrapping plain ExceptionGroups
    real = [x for x in leaves if not hasattr(x, "exceptions")] or leaves
    x = real[0]
    return f"{type(x).__name__}@{innermost_adaptix_frame(x)}"


def error_leaves(e, prefix=()):
    """Yields (absolute trail tuple, leaf exception) for every leaf of an error tree."""
    trail = prefix + tuple(get_trail(e))
    subs = getattr(e, "exceptions", None)
    if subs is None:
        yield trail, e
        return
    for s in subs:
        yield from error_leaves(s, trail)


def error_nodes(e, prefix=()):
    """Yields (absolute trail, exception) for every node (groups included)."""
    trail = prefix + tuple(get_trail(e))
    yield trail, e
    for s in getattr(e, "exceptions", None) or ():
        yield from error_nodes(s, trail)


def error_sig(e):
    """Order-insensitive structural signature of an error tree: class names + trails."""
    subs = getattr(e, "exceptions", None)
    me = (type(e).__name__, tuple(repr(x) for x in get_trail(e)))
    if subs is None:
        return me
    return (*me, tuple(sorted((error_sig(s) for s in subs), key=repr)))
