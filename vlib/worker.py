"""Worker: runs one shard of one property's workload inside a fresh interpreter and writes what its
monitors observed to a JSON file (+ a binary side file of 64-bit case fingerprints)."""
from __future__ import annotations

import array
import hashlib
import importlib
import json
import os
import random
import signal
import sys
import time
import traceback


class Ctx:
    def __init__(self, prop, tier, seed, shard, nshards, verbose=False):
        self.prop, self.tier, self.seed, self.shard, self.nshards = prop, tier, seed, shard, nshards
        self.verbose = verbose
        self.counters = {}
        self.fps = set()
        self.samples = []
        self.auto_samples = []
        self.violations = []
        self.case = None
        self._sample_seen = 0
        self._viol_keys = {}
        self.t0 = time.monotonic()

    # -- counting ------------------------------------------------------------------------------
    def count(self, name, n=1):
        self.counters[name] = self.counters.get(name, 0) + n

    def evaluated(self, fp=None, nontrivial=True, n=1):
        """One oracle evaluation. `fp` identifies the case (program descriptor + datum + mode)."""
        self.counters["evaluations"] = self.counters.get("evaluations", 0) + n
        if fp is not None and len(self.auto_samples) < 3:
            self.auto_samples.append({"case": self.case, "evaluated": safe(fp)})
        if nontrivial and fp is not None:
            self.fps.add(int.from_bytes(hashlib.blake2b(repr(fp).encode("utf-8", "backslashreplace"), digest_size=8).digest(), "little"))

    def sample(self, obj, force=False):
        self._sample_seen += 1
        if len(self.samples) < 4 or force:
            self.samples.append(safe(obj))

    # -- verdicts ------------------------------------------------------------------------------
    def violation(self, key, what, detail=None):
        n = self._viol_keys.get(key, 0)
        self._viol_keys[key] = n + 1
        self.count("violations_raw")
        if n >= 5:  # keep at most 5 witnesses per mechanism key per shard
            return
        v = {"key": key, "what": str(what)[:600], "detail": safe(detail), "case": self.case}
        self.violations.append(v)
        if self.verbose:
            print("VIOLATION-RAW", json.dumps(v, default=repr)[:3000], flush=True)

    def rng(self, *extra):
        return random.Random("/".join(str(x) for x in (self.seed, self.prop, self.shard, *extra)))


def safe(obj, depth=0):
    """JSON-safe rendering of arbitrary objects (for samples / details)."""
    if depth > 6:
        return "..."
    if obj is None or isinstance(obj, (bool, int)) and abs(obj) < 2**53:
        return obj
    if isinstance(obj, float):
        return obj if obj == obj and abs(obj) != float("inf") else repr(obj)
    if isinstance(obj, str):
        return obj[:600].encode("utf-8", "backslashreplace").decode("utf-8")
    if isinstance(obj, dict):
        return {safe_key(k): safe(v, depth + 1) for k, v in list(obj.items())[:40]}
    if isinstance(obj, (list, tuple)):
        return [safe(v, depth + 1) for v in obj[:40]]
    try:
        return repr(obj)[:600].encode("utf-8", "backslashreplace").decode("utf-8")
    except Exception as e:  # noqa: BLE001
        return f"<unreprable {type(obj).__name__}: {type(e).__name__}>"


def safe_key(k):
    if isinstance(k, str):
        return k[:200].encode("utf-8", "backslashreplace").decode("utf-8")
    try:
        return repr(k)[:200]
    except Exception:  # noqa: BLE001
        return f"<{type(k).__name__}>"


CASE_TIMEOUT_S = 240


class CaseTimeout(BaseException):
    pass


def _on_alarm(signum, frame):
    raise CaseTimeout


def main():
    signal.signal(signal.SIGALRM, _on_alarm)
    prop, tier, seed, shard, nshards, out = sys.argv[1:7]
    seed, shard, nshards = int(seed), int(shard), int(nshards)
    rest = sys.argv[7:]
    only_case = upto = None
    verbose = "--verbose" in rest
    if "--case" in rest:
        only_case = rest[rest.index("--case") + 1]
    if "--upto" in rest:
        upto = int(rest[rest.index("--upto") + 1])
    ctx = Ctx(prop, tier, seed, shard, nshards, verbose)
    fatal = None
    cases_done = 0
    try:
        repo = os.environ.get("VERIF_REPO", "/repo")
        import adaptix  # noqa: PLC0415

        if not os.path.realpath(adaptix.__file__).startswith(os.path.realpath(repo) + os.sep):
            raise RuntimeError(f"adaptix imported from {adaptix.__file__}, not from {repo}")
        from vlib.meta import META  # noqa: PLC0415

        meta = META[prop]
        mod = importlib.import_module(f"vlib.props.{prop.lower()}")
        if hasattr(mod, "setup"):
            mod.setup(ctx)
        ncases = meta["cases"][tier]
        budget = meta["budget_s"][tier]
        directed = getattr(mod, "DIRECTED", {})

        def run_directed(name):
            ctx.case = f"directed:{name}"
            try:
                directed[name](ctx)
            except Exception as e:  # noqa: BLE001
                ctx.violation(f"unexpected-exception:{type(e).__name__}@directed:{name}", f"directed witness {name} crashed: {e!r}",
                              {"trace": traceback.format_exc()[-2500:]})
            ctx.count("directed_run")

        def run_case(idx):
            ctx.case = idx
            rng = ctx.rng(idx)
            # a single case that does not come back (e.g. a datum that iterates 2**96 addresses) must not eat the whole budget:
            # it is abandoned and makes the run INCONCLUSIVE (never a violation: wall-clock decides nothing)
            signal.setitimer(signal.ITIMER_REAL, CASE_TIMEOUT_S)
            try:
                mod.run_case(ctx, rng, idx)
            except CaseTimeout:
                ctx.count("case_timeouts")
                ctx.sample({"case_timeout": idx}, force=True)
            except Exception as e:  # noqa: BLE001
                tb = traceback.extract_tb(e.__traceback__)
                where = next((f"{os.path.basename(fr.filename)}:{fr.name}" for fr in reversed(tb) if "/adaptix/" in fr.filename), "harness")
                ctx.violation(f"unexpected-exception:{type(e).__name__}@{where}", f"case {idx} raised {e!r}",
                              {"trace": traceback.format_exc()[-2500:]})
            finally:
                signal.setitimer(signal.ITIMER_REAL, 0)

        if only_case is not None:
            if only_case.startswith("directed:"):
                run_directed(only_case.split(":", 1)[1])
            elif only_case == "exhaustive":
                ctx.case = "exhaustive"
                mod.run_exhaustive(ctx)
            else:
                run_case(int(only_case))
                cases_done = 1
        else:
            if shard == 0:
                for name in directed:
                    run_directed(name)
            if hasattr(mod, "run_exhaustive"):
                ctx.case = "exhaustive"
                mod.run_exhaustive(ctx)
            last = ncases if upto is None else min(ncases, upto + 1)
            for idx in range(last):
                if time.monotonic() - ctx.t0 > budget and upto is None:
                    ctx.count("budget_stops")
                    break
                run_case(idx)
                cases_done += 1
        if hasattr(mod, "teardown"):
            mod.teardown(ctx)
    except BaseException:  # noqa: BLE001
        fatal = traceback.format_exc()
    res = {
        "counters": ctx.counters, "samples": ctx.samples or ctx.auto_samples, "violations": ctx.violations,
        "cases_done": cases_done, "fatal": fatal, "wall": time.monotonic() - ctx.t0,
    }
    with open(out[:-5] + ".fps", "wb") as f:
        f.write(array.array("Q", sorted(ctx.fps)).tobytes())
    with open(out, "w") as f:
        json.dump(res, f, default=repr)
    if fatal and verbose:
        print(fatal)


if __name__ == "__main__":
    main()
