"""Driver: shards a property's workload over worker processes, merges what the monitors observed,
classifies violations against KNOWN_FINDINGS.txt, writes evidence + replay files and prints the verdict.

The driver itself never imports adaptix; every worker is a fresh `/venv/bin/python -B` process whose
PYTHONPATH points at the working tree of the repository (VERIF_REPO, default /repo).
"""
from __future__ import annotations

import argparse
import array
import hashlib
import importlib
import json
import os
import re
import shutil
import subprocess
import sys
import time
from pathlib import Path

VERIF = Path(__file__).resolve().parent.parent
sys.path.insert(0, str(VERIF))

REPO = Path(os.environ.get("VERIF_REPO", "/repo")).resolve()
PY = os.environ.get("VERIF_PYTHON", "/venv/bin/python")
WORK = VERIF / ".work"
GUARD = "ADAPTIX_VERIF"


def worker_env():
    env = dict(os.environ)
    env["PYTHONPATH"] = os.pathsep.join([str(REPO / "src"), str(REPO / "tests" / "tests_helpers"), str(VERIF)])
    env["PYTHONHASHSEED"] = "0"
    env["PYTHONDONTWRITEBYTECODE"] = "1"
    env[GUARD] = "1"
    env["VERIF_REPO"] = str(REPO)
    return env


def repo_state():
    try:
        head = subprocess.run(["git", "-C", str(REPO), "rev-parse", "HEAD"], capture_output=True, text=True, timeout=30).stdout.strip()
        diff = subprocess.run(["git", "-C", str(REPO), "diff", "HEAD", "--", "src"], capture_output=True, timeout=60).stdout
        return head, hashlib.sha256(diff).hexdigest()[:16] if diff else "clean"
    except Exception:  # noqa: BLE001
        return "unknown", "unknown"


def load_known():
    known, fixed = {}, {}
    path = VERIF / "KNOWN_FINDINGS.txt"
    if not path.exists():
        return known, fixed
    for line in path.read_text().splitlines():
        line = line.strip()
        if not line or line.startswith("#"):
            continue
        m = re.match(r"^(known|fixed):\s+property=(\S+)\s+key=(\S+)\s*(.*)$", line)
        if not m:
            continue
        kind, prop, key, rest = m.groups()
        (known if kind == "known" else fixed).setdefault(prop, {})[key] = rest
    return known, fixed


def sanitize(s):
    return re.sub(r"[^A-Za-z0-9_.-]+", "_", s)[:80]


class ShardProc:
    def __init__(self, prop, tier, seed, shard, nshards, extra=()):
        self.shard = shard
        self.out = WORK / f"{prop}-{tier}-{seed}-{shard}-{os.getpid()}.json"
        self.fps = self.out.with_suffix(".fps")
        self.log = self.out.with_suffix(".log")
        for p in (self.out, self.fps, self.log):
            if p.exists():
                p.unlink()
        cmd = [PY, "-B", "-m", "vlib.worker", prop, tier, str(seed), str(shard), str(nshards), str(self.out), *extra]
        self.logf = open(self.log, "wb")
        self.proc = subprocess.Popen(cmd, env=worker_env(), cwd=str(VERIF), stdout=self.logf, stderr=subprocess.STDOUT)
        self.t0 = time.monotonic()

    def finish(self, deadline):
        remaining = max(1.0, deadline - time.monotonic())
        timed_out = False
        try:
            self.proc.wait(timeout=remaining)
        except subprocess.TimeoutExpired:
            self.proc.kill()
            self.proc.wait()
            timed_out = True
        self.logf.close()
        res = None
        if self.out.exists():
            try:
                res = json.loads(self.out.read_text())
            except Exception:  # noqa: BLE001
                res = None
        fps = array.array("Q")
        if self.fps.exists():
            data = self.fps.read_bytes()
            fps.frombytes(data[: len(data) // 8 * 8])
        log_tail = ""
        try:
            log_tail = self.log.read_text(errors="replace")[-3000:]
        except Exception:  # noqa: BLE001
            pass
        for p in (self.out, self.fps, self.log):
            try:
                p.unlink()
            except FileNotFoundError:
                pass
        return res, fps, timed_out, self.proc.returncode, log_tail


def run_shards(prop, tier, seed, nshards, par, watchdog_s, extra=()):
    """Runs all shards with bounded parallelism. Returns list of (res, fps, timed_out, rc, log)."""
    WORK.mkdir(exist_ok=True)
    pending = list(range(nshards))
    running = []
    results = {}
    while pending or running:
        while pending and len(running) < par:
            sh = pending.pop(0)
            running.append(ShardProc(prop, tier, seed, sh, nshards, extra))
        sp = running.pop(0)
        results[sp.shard] = sp.finish(sp.t0 + watchdog_s)
    return [results[i] for i in range(nshards)]


def confirm_group(prop, tier, seed, nshards, shard, case, keys):
    """Re-executes one case in a fresh process. Returns {key: True | "prefix" | False} (missing = could not decide)."""
    sp = ShardProc(prop, tier, seed, shard, nshards, ["--case", str(case)])
    res, _, timed_out, rc, log = sp.finish(time.monotonic() + 600)
    if res is None or res.get("fatal"):
        return {}
    seen = {v["key"] for v in res.get("violations", [])}
    status = {k: True for k in keys if k in seen}
    missing = [k for k in keys if k not in seen]
    if missing and isinstance(case, int):
        # history-dependent within the shard? re-run the shard prefix up to this case
        sp = ShardProc(prop, tier, seed, shard, nshards, ["--upto", str(case)])
        res, _, timed_out, rc, log = sp.finish(time.monotonic() + 1800)
        seen2 = {v["key"] for v in res.get("violations", [])} if res is not None else set()
        for k in missing:
            status[k] = "prefix" if k in seen2 else False
    else:
        for k in missing:
            status[k] = False
    return status


def main(argv=None):
    ap = argparse.ArgumentParser()
    ap.add_argument("prop")
    ap.add_argument("--tier", default=os.environ.get("VERIF_TIER", "quick"), choices=["quick", "thorough"])
    ap.add_argument("--replay")
    ap.add_argument("--seed", type=int, default=None)
    ap.add_argument("--no-evidence", action="store_true", help="do not rewrite evidence (used by self-test on scratch copies)")
    args = ap.parse_args(argv)
    prop = args.prop.upper()
    seed = args.seed if args.seed is not None else int(os.environ.get("VERIF_SEED", "0") or 0)
    meta = importlib.import_module("vlib.meta").META[prop]

    if args.replay:
        return replay(prop, meta, args.replay)

    tier = args.tier
    t0 = time.monotonic()
    nshards = meta["shards"][tier]
    par = min(nshards, int(os.environ.get("VERIF_PAR", "8" if tier == "quick" else "16")))
    budget = meta["budget_s"][tier]
    watchdog = budget * 5 + 120
    head, diffhash = repo_state()
    results = run_shards(prop, tier, seed, nshards, par, watchdog)

    counters = {}
    fpset = set()
    samples = []
    violations = []
    shard_failures = []
    cases_done = 0
    inconclusive = []
    for shard, (res, fps, timed_out, rc, log) in enumerate(results):
        if timed_out:
            shard_failures.append({"shard": shard, "why": "watchdog"})
            inconclusive.append(f"shard{shard}:watchdog")
        if res is None:
            shard_failures.append({"shard": shard, "why": f"no result rc={rc}", "log": log[-1500:]})
            inconclusive.append(f"shard{shard}:crashed")
            continue
        if res.get("fatal"):
            shard_failures.append({"shard": shard, "why": "fatal", "trace": res["fatal"][-2500:]})
            inconclusive.append(f"shard{shard}:fatal")
        for k, v in res["counters"].items():
            counters[k] = counters.get(k, 0) + v
        fpset.update(fps)
        for s in res["samples"]:
            if len(samples) < 10:
                samples.append(s)
        for v in res["violations"]:
            v["shard"] = shard
            violations.append(v)
        cases_done += res.get("cases_done", 0)

    known, fixed = load_known()
    known_here = known.get(prop, {})
    known_hits = {}
    unknown = {}
    for v in violations:
        if v["key"] in known_here:
            known_hits.setdefault(v["key"], []).append(v)
        else:
            unknown.setdefault(v["key"], []).append(v)

    if counters.get("case_timeouts"):
        inconclusive.append(f"case-timeouts={counters['case_timeouts']}")
    # minimum counters: a run whose monitors did not observe enough cannot report HELD
    mins = meta.get("minimums", {}).get(tier, {})
    for k, need in mins.items():
        have = len(fpset) if k == "distinct_nontrivial" else counters.get(k, 0)
        if have < need:
            inconclusive.append(f"min:{k}={have}<{need}")

    replay_dir = VERIF / "replays" / prop
    confirmed = []
    flaky = []
    # one fresh-process re-execution per (shard, case) group; at most MAX_CONFIRM groups are re-executed,
    # the remaining keys (deterministic workloads) are reported on the strength of the first observation
    groups = {}
    for key, vs in unknown.items():
        groups.setdefault((vs[0]["shard"], vs[0]["case"]), []).append(key)
    max_confirm = int(os.environ.get("VERIF_MAX_CONFIRM", "6"))
    for gi, ((shard, case), keys) in enumerate(groups.items()):
        status = {}
        if gi < max_confirm and not os.environ.get("VERIF_NO_CONFIRM"):
            status = confirm_group(prop, tier, seed, nshards, shard, case, keys)
        for key in keys:
            vs = unknown[key]
            v = vs[0]
            if status.get(key) is False:
                flaky.append(key)
                inconclusive.append(f"flaky:{key}")
                continue
            replay_dir.mkdir(parents=True, exist_ok=True)
            path = replay_dir / f"{sanitize(key)}-s{seed}-{tier}-sh{v['shard']}-c{sanitize(str(v['case']))}.json"
            path.write_text(json.dumps({
                "property": prop, "seed": seed, "tier": tier, "shard": v["shard"], "nshards": nshards, "case": v["case"],
                "key": key, "what": v["what"], "detail": v.get("detail"), "needs_prefix": status.get(key) == "prefix",
                "repo_head": head, "repo_diff": diffhash, "occurrences": len(vs), "reexecuted": key in status,
            }, indent=1, default=repr))
            confirmed.append((key, v, path))

    wall = time.monotonic() - t0
    evidence = {
        "property_id": prop,
        "tier": tier,
        "seed": seed,
        "level": meta.get("level", "exploration"),
        "coverage": {
            "evaluations": counters.get("evaluations", 0),
            "distinct_nontrivial": len(fpset),
            "rule": meta["rule"],
            "samples": samples,
            "exhaustive": bool(meta.get("exhaustive", {}).get(tier, False)),
            "cases_done": cases_done,
            "shards": nshards,
            "counters": dict(sorted(counters.items())),
            "known_finding_hits": {k: len(v) for k, v in known_hits.items()},
            "unlisted_violation_keys": sorted(unknown),
            "shard_failures": shard_failures,
            "inconclusive_reasons": inconclusive,
            "minimums": mins,
            "repo_head": head,
            "repo_src_diff": diffhash,
        },
        "assumptions": meta.get("assumptions", []),
        "wall_s": round(wall, 2),
        "violations": len(confirmed),
    }
    if not args.no_evidence and REPO == Path("/repo"):
        (VERIF / "evidence").mkdir(exist_ok=True)
        (VERIF / "evidence" / f"{prop}.json").write_text(json.dumps(evidence, indent=1, default=repr) + "\n")

    for key, vs in sorted(known_hits.items()):
        print(f"KNOWN-FINDING: property={prop} key={key} {vs[0]['what']} (x{len(vs)})")
    for key, v, path in confirmed:
        print(f"VIOLATION property={prop} replay={path}")
        print(f"  key={key} :: {v['what']}")
    summary = f"evaluations={counters.get('evaluations', 0)} distinct_nontrivial={len(fpset)} cases={cases_done} wall={wall:.1f}s"
    if confirmed:
        print(f"FAILED property={prop} {summary}")
        return 1
    if inconclusive:
        print(f"INCONCLUSIVE property={prop} reason={';'.join(inconclusive)} {summary}")
        for f in shard_failures[:3]:
            print("  shard failure:", json.dumps(f)[:3000])
        return 2
    print(f"HELD property={prop} tier={tier} seed={seed} {summary}")
    return 0


def replay(prop, meta, path):
    data = json.loads(Path(path).read_text())
    extra = ["--upto" if data.get("needs_prefix") else "--case", str(data["case"]), "--verbose"]
    sp = ShardProc(prop, data["tier"], data["seed"], data["shard"], data["nshards"], extra)
    res, _, timed_out, rc, log = sp.finish(time.monotonic() + 1800)
    if res is None or res.get("fatal"):
        print(f"INCONCLUSIVE property={prop} reason=replay-crashed\n{log}\n{(res or {}).get('fatal', '')}")
        return 2
    hit = [v for v in res["violations"] if v["key"] == data["key"]]
    for v in res["violations"]:
        print("observed:", v["key"], "::", v["what"])
        print("  detail:", json.dumps(v.get("detail"), default=repr)[:4000])
    if hit:
        print(f"VIOLATION property={prop} replay={path}")
        return 1
    print(f"HELD property={prop} replay did not reproduce key={data['key']}")
    return 0


if __name__ == "__main__":
    sys.exit(main())
