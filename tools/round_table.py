#!/usr/bin/env python3
"""usage: tools/round_table.py "round 8"  - prints the DESIGN table rows of the seeded changes of one round from their meta.json"""
import glob, json, os, sys
for d in sorted(glob.glob(os.path.join(os.path.dirname(__file__), "..", "seeded", "*", "meta.json"))):
    m = json.load(open(d))
    if not m["origin"].startswith(sys.argv[1]):
        continue
    sid = os.path.basename(os.path.dirname(d))
    fr, st = m["first_result"], m.get("strengthening")
    res = "**missed** (" + fr[len("missed"):].lstrip(": ") + ") -> " + (st or "") if fr.startswith("missed") else fr
    print(f"| {sid} | {m['needs_to_manifest']} | {' '.join(m['detected_by_quick_checks'])} | {res} |")
