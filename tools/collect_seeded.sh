#!/bin/bash
# usage: tools/collect_seeded.sh <PROP> <name>   - copies patch/demo/notes from /tmp/wt-<PROP> into seeded/<name>/
P=$1; N=$2; cd "$(dirname "$0")/.."
mkdir -p seeded/$N
git -C /tmp/wt-$P diff -- src > seeded/$N/patch.diff
cp /tmp/wt-$P/SEEDED_DEMO.py seeded/$N/demo.py 2>/dev/null
cp /tmp/wt-$P/SEEDED_NOTES.md seeded/$N/notes.md 2>/dev/null
wc -l seeded/$N/patch.diff; grep -n "/tmp/wt-" seeded/$N/demo.py | head -3
