#!/bin/bash
# usage: tools/try_seeded.sh <patch.diff> <demo.py|-> "<props to run>" [tier]
# Confirms a seeded change in a scratch worktree of /repo outside /repo and /verif: unedited test-suite still green, demo fails with the
# change and passes without it, then runs the given checks against the changed tree (VERIF_REPO) without touching evidence.
PATCH=$(readlink -f "$1"); DEMO=$2; [ "$DEMO" != "-" ] && DEMO=$(readlink -f "$2"); PROPS=$3; TIER=${4:-quick}
cd "$(dirname "$0")/.."
WT=/var/tmp/seedwt-$$
git -C /repo worktree add -q --detach $WT HEAD || exit 3
trap "git -C /repo worktree remove --force $WT; git -C /repo worktree prune" EXIT
export PYTHONPATH=$WT/src:$WT/tests/tests_helpers
if [ "$DEMO" != "-" ]; then
  ( cd $WT && /venv/bin/python -B "$DEMO" >/dev/null 2>&1 ); echo "demo on unchanged tree: exit $?"
fi
git -C $WT apply "$PATCH" || { echo "patch does not apply"; exit 3; }
if [ "$DEMO" != "-" ]; then
  ( cd $WT && /venv/bin/python -B "$DEMO" >/var/tmp/demo-$$.out 2>&1 ); rc=$?; tail -3 /var/tmp/demo-$$.out; rm -f /var/tmp/demo-$$.out; echo "demo on changed tree: exit $rc"
fi
if [ -z "$SKIP_TESTS" ]; then
  ( cd $WT && /venv/bin/python -m pytest -q -p no:cacheprovider tests 2>&1 | tail -1 )
fi
unset PYTHONPATH
for p in $PROPS; do
  out=$(VERIF_REPO=$WT ./check $p --tier $TIER --no-evidence 2>&1 | grep -v "^WARNING")
  last=$(echo "$out" | tail -1 | cut -c1-160)
  echo "== $p: $last"
  echo "$out" | grep -E "key=" | grep -v KNOWN-FINDING | head -3 | cut -c1-300
done
