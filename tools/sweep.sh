#!/bin/bash
# usage: tools/sweep.sh "<seeds>" [tier] [props...]   - runs the claimed checks over several seeds, prints whatever is not HELD
cd "$(dirname "$0")/.."
SEEDS=${1:-"1 2 3"}; TIER=${2:-quick}; shift 2 2>/dev/null
PROPS=${@:-$(python3 -c "import json;print(' '.join(c['property_id'] for c in json.load(open('MANIFEST.json'))['checks']))")}
for s in $SEEDS; do for p in $PROPS; do
  out=$(VERIF_SEED=$s ./check $p --tier $TIER --no-evidence 2>&1 | grep -v "^WARNING")
  rc=$?
  last=$(echo "$out" | tail -1)
  case "$last" in HELD*) echo "seed=$s $p ok $(echo $last | grep -o 'wall=.*')";; *) echo "seed=$s $p >>> $(echo "$out" | grep -E 'key=|INCONCL|FAILED' | head -4 | cut -c1-400)";; esac
done; done
