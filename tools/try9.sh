#!/bin/bash
# usage: tools/try9.sh <PROP> <a|b> "<checks>"  - confirm a round-9 seeded change from /tmp/seed9-<PROP>-out/<x>/ and run checks against it
P=$1; X=$2; shift 2
D=/tmp/seed9-$P-out/$X
cd "$(dirname "$0")/.."
tools/try_seeded.sh $D/patch.diff $D/demo.py "$*" quick
