#!/usr/bin/env python3
"""usage: tools/keep_seeded.py <out-dir> <id> <prop> <needs> <detected-by (space separated)> <first_result> [strengthening]
Copies patch.diff / demo.py / notes.md of a confirmed seeded change into seeded/<id>/ and writes meta.json."""
import json, shutil, subprocess, sys
from pathlib import Path

src, sid, prop, needs, detected, first = sys.argv[1:7]
strengthening = sys.argv[7] if len(sys.argv) > 7 and sys.argv[7] else None
dst = Path(__file__).resolve().parent.parent / "seeded" / sid
dst.mkdir(parents=True, exist_ok=True)
for f in ("patch.diff", "demo.py", "notes.md"):
    if (Path(src) / f).exists():
        shutil.copy(Path(src) / f, dst / f)
head = subprocess.run(["git", "-C", "/repo", "log", "--format=%h", "-1"], capture_output=True, text=True).stdout.strip()
meta = {
    "breaks_property": prop,
    "origin": __import__("os").environ.get("ORIGIN", "round 2") + ": fresh sub-agent given only the property record and its own scratch worktree of /repo under /tmp (nothing from /verif), asked for two changes in different mechanisms",
    "needs_to_manifest": needs,
    "confirmed": {
        "how": "tools/try_seeded.sh <patch> <demo> '<checks>': scratch worktree /var/tmp/seedwt-* of /repo, demo on the unchanged tree (exit 0), git apply, demo on the changed tree (exit 1), unedited test-suite (2576 passed, 24 skipped), then ./check <ID> --tier quick --no-evidence with VERIF_REPO=<worktree>; worktree removed afterwards",
        "repo_head_when_confirmed": head,
        "test_suite_with_change": "2576 passed, 24 skipped",
    },
    "detected_by_quick_checks": detected.split(),
    "first_result": first,
    "strengthening": strengthening,
}
(dst / "meta.json").write_text(json.dumps(meta, indent=1))
print("kept", dst)
