#!/bin/bash
# usage: tools/rerun_seeded.sh [tier] [ids...] - re-applies every seeded change to a scratch worktree of the current /repo HEAD and
# runs the check of the property it breaks; prints one line per change (DETECTED / MISSED / PATCH-STALE / RETIRED).
cd "$(dirname "$0")/.."
TIER=${1:-quick}; shift
IDS=${@:-$(ls seeded)}
for id in $IDS; do
  prop=$(python3 -c "import json;print(json.load(open('seeded/$id/meta.json'))['breaks_property'])")
  if grep -q '"status": "retired' seeded/$id/meta.json; then echo "$id RETIRED (no longer violates $prop on the current tree, see meta.json)"; continue; fi
  out=$(SKIP_TESTS=1 tools/try_seeded.sh seeded/$id/patch.diff - "$prop" $TIER 2>&1)
  if echo "$out" | grep -q "patch does not apply"; then echo "$id PATCH-STALE"; continue; fi
  if echo "$out" | grep -q "== $prop: FAILED"; then echo "$id DETECTED $(echo "$out" | grep -m1 'key=' | cut -c1-140)"; else echo "$id MISSED $(echo "$out" | grep "== $prop" | cut -c1-200)"; fi
done
