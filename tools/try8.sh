#!/bin/bash
# usage: tools/try8.sh <PROP> <a|b|c> "<checks>"  - confirm a round-8 seeded change from /tmp/seed8-<PROP>-out/<x>/ and run checks against it
P=$1; X=$2; shift 2
D=/tmp/seed8-$P-out/$X
cd "$(dirname "$0")/.."
tools/try_seeded.sh $D/patch.diff $D/demo.py "$*" quick
