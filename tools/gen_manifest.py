#!/usr/bin/env python3
"""Regenerates MANIFEST.json from vlib/meta.py + tools/manifest_texts.py (run from /verif)."""
import json
import sys
from pathlib import Path

ROOT = Path(__file__).resolve().parent.parent
sys.path.insert(0, str(ROOT))
from vlib.meta import META  # noqa: E402
from tools.manifest_texts import TEXTS, NOT_BUILT_REASON, HOOK_COMMITS  # noqa: E402

props = [json.loads(l)["id"] for l in (ROOT / "properties.jsonl").read_text().splitlines() if l.strip()]
checks, na = [], []
for pid in props:
    if pid in META and pid in TEXTS:
        t = TEXTS[pid]
        checks.append({
            "property_id": pid,
            "quick_cmd": f"./check {pid} --tier quick",
            "thorough_cmd": f"./check {pid} --tier thorough",
            "evidence_file": f"evidence/{pid}.json",
            "replay_cmd_template": f"./check {pid} --replay {{path}}",
            "engine": "vlib",
            "level_claimed": {"category": META[pid].get("level", "exploration"), "text": t["level"], "design_ref": f"DESIGN.md section 4, {pid}"},
            "level_note": t["note"],
            "technique": t["technique"],
        })
    else:
        na.append({"property_id": pid, "reason": NOT_BUILT_REASON.get(pid, "monitor for this property is not built yet in this revision of /verif (runtime monitoring applies; see DESIGN.md section 4)")})
manifest = {
    "version": 1,
    "setup_cmd": "./setup.sh",
    "hooks": {
        "guard": "ADAPTIX_VERIF",
        "enable": "no build step: every check starts /venv/bin/python -B with PYTHONPATH=/repo/src and ADAPTIX_VERIF=1; monitors are installed from the harness "
                  "(class-level wrappers, sys.monitoring, sys.addaudithook)" + ("; guarded source hooks: " + ", ".join(HOOK_COMMITS) if HOOK_COMMITS else "; no source hooks in the repository"),
        "baseline_off_cmd": "cd /repo && /venv/bin/python -m pytest -ra -q -p no:cacheprovider --timeout=900 --continue-on-collection-errors",
        "source_commits": HOOK_COMMITS,
        "add_only": True,
    },
    "engines": [{"name": "vlib", "path": "vlib/", "serves_properties": [c["property_id"] for c in checks],
                 "kind_free_text": "runtime monitoring: generated workloads executed against the real code under reference-model, differential, trace and schedule monitors"}],
    "checks": checks,
    "not_applicable": na,
    "notes": "Verdicts: exit 0 HELD (KNOWN-FINDING lines for listed findings), exit 1 VIOLATION, exit 2 INCONCLUSIVE (monitor not reached / minimum counters not met). "
             "Known findings: KNOWN_FINDINGS.txt, keyed by mechanism.",
}
(ROOT / "MANIFEST.json").write_text(json.dumps(manifest, indent=1) + "\n")
print(f"{len(checks)} checks, {len(na)} not_applicable")
