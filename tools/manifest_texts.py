HOOK_COMMITS = []
NOT_BUILT_REASON = {}
_EXPL = ("held on the executions explored by this run (counts in the evidence file); the quantifier is sampled by seeded generators, "
         "plus directed witnesses executed on every run; not a proof")
TEXTS = {
    "C01": {"technique": "runtime monitoring: self-checking round-trip law over generated types/values/modes; domain policed by a reference model",
            "level": "exploration: " + _EXPL, "note": "trusts vlib/eq.strict_eq and the domain policing of vlib/spec.py (union overlap detection)"},
    "C02": {"technique": "runtime monitoring: online comparison of every load/dump with a 3-valued executable reference of the documentation",
            "level": "exploration: " + _EXPL, "note": "trusts vlib/spec.py as a reading of specific-types-behavior.rst; UNSPECIFIED cases are counted, never judged"},
    "C04": {"technique": "runtime monitoring: exception-class monitor around loads of hostile and mutated data in all modes",
            "level": "exploration: " + _EXPL, "note": "hostile pool excludes user objects with raising dunders; RecursionError (interpreter limit) is not judged"},
    "C06": {"technique": "runtime monitoring: three-way differential between the independently generated DISABLE/FIRST/ALL programs",
            "level": "exploration: " + _EXPL, "note": "input_value compared modulo list/tuple materialisation; one-shot iterators against unions are skipped (undocumented)"},
    "C07": {"technique": "runtime monitoring: pairwise strict/lax differential + documented strict-origins table",
            "level": "exploration: " + _EXPL, "note": "value differences are tolerated only where the reference says lax rules make union/literal cases overlap"},
    "C03": {"technique": "runtime monitoring: every generated (model, name_mapping recipe) program is run on derived inputs and compared online with a reference layout model",
            "level": "exploration: " + _EXPL, "note": "trusts vlib/layout.py (DESIGN.md appendix B); predicates inside recipes are restricted to field ids, regexes and exact classes"},
    "C05": {"technique": "runtime monitoring: fault planter with known positions vs. recorded struct trails (multiset equality in ALL mode, membership in FIRST, absence in DISABLE)",
            "level": "fault_enumeration-style exploration: " + _EXPL, "note": "independent faults by construction; one error per dict node for missing / unknown keys; unions are leaves"},
    "C09": {"technique": "runtime monitoring: online trace-specification check of every router decision (hooked _create_router/_send_inner/route_handler) + marker call logs vs. a reference chain-of-responsibility interpreter; exhaustive over short recipes",
            "level": "exploration (exhaustive for recipes of length <= 2 quick / <= 3 thorough over a 48-provider alphabet, random beyond): " + _EXPL,
            "note": "the monitor hooks internals from the harness; a zero route count makes the run inconclusive"},
    "C10": {"technique": "runtime monitoring: exhaustive truth-table comparison of create_loc_stack_checker(pred).check_loc_stack with a reference predicate evaluator + marker-loader integration leg",
            "level": "exploration, exhaustive inside the stated universe (atoms x expressions of nesting <= 1/2 x stacks of depth <= 2/3), sampled beyond: " + _EXPL,
            "note": "the tutorial's example P[Foo].name[Bar].age contradicts the tail rule of the property statement (see DESIGN.md); the statement's rule is the oracle"},
    "C11": {"technique": "runtime monitoring: warmed-vs-fresh retort differential over generated call histories (exhaustive ordered pairs of a confusable-request pool) with a call-cache hit monitor",
            "level": "exploration, exhaustive over ordered pairs of the pool, random for longer histories: " + _EXPL,
            "note": "fresh reference = new Retort in the same process with normalize_type's lru cache cleared"},
    "C12": {"technique": "runtime monitoring under a deterministic thread scheduler (sys.monitoring LINE events, token passing): single-preemption sweep, sampled two-preemption, PCT and random schedules; per-call comparison with a single-threaded run",
            "level": "exploration of schedules: every single-preemption point of the recursive scenarios (stride 4 in quick), sampled beyond: " + _EXPL,
            "note": "statement granularity inside the retort files only; locks found in those modules are made scheduling points from the harness, unknown locks fall back to a 200 ms no-progress inference"},
    "C08": {"technique": "runtime monitoring: constructor call log of instrumented models + comparison with the model's own construction (type-strict), signature binding of every logged call, factory call counting",
            "level": "exploration: " + _EXPL, "note": "field types are Any so that loaded values are the input values; optional positional-only parameters are excluded (adaptix documents their refusal)"},
}
