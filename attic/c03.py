import random, re, sys
from dataclasses import make_dataclass, field, fields as dcfields, MISSING
from typing import *
from adaptix import Retort, name_mapping, NameStyle, DebugTrail, ProviderNotFoundError
from adaptix._internal.name_style import convert_snake_style  # reference for style = documented enum examples; re-derived below
from adaptix.load_error import LoadError

def style_ref(name, style):
    # independent restatement: split on '_' keeping leading/trailing underscores
    m = re.match(r'^(_*)(.*?)(_*)$', name)
    lead, core, trail = m.groups()
    words = core.split('_')
    sep = {'snake': '_', 'kebab': '-', 'dot': '.', 'plain': ''}
    kind = {NameStyle.LOWER_SNAKE: ('snake', 'l', 'l'), NameStyle.CAMEL_SNAKE: ('snake', 'l', 't'), NameStyle.PASCAL_SNAKE: ('snake', 't', 't'), NameStyle.UPPER_SNAKE: ('snake', 'u', 'u'),
            NameStyle.LOWER_KEBAB: ('kebab', 'l', 'l'), NameStyle.CAMEL_KEBAB: ('kebab', 'l', 't'), NameStyle.PASCAL_KEBAB: ('kebab', 't', 't'), NameStyle.UPPER_KEBAB: ('kebab', 'u', 'u'),
            NameStyle.LOWER: ('plain', 'l', 'l'), NameStyle.CAMEL: ('plain', 'l', 't'), NameStyle.PASCAL: ('plain', 't', 't'), NameStyle.UPPER: ('plain', 'u', 'u'),
            NameStyle.LOWER_DOT: ('dot', 'l', 'l'), NameStyle.CAMEL_DOT: ('dot', 'l', 't'), NameStyle.PASCAL_DOT: ('dot', 't', 't'), NameStyle.UPPER_DOT: ('dot', 'u', 'u')}[style]
    f = {'l': str.lower, 'u': str.upper, 't': str.title}
    out = [f[kind[1]](words[0])] + [f[kind[2]](w) for w in words[1:]]
    return lead + sep[kind[0]].join(out) + trail

NAMES = ['a', 'b_', 'c_d', 'long_name_x', 'e1', 'from_', 'x__', 'http_url', 'A_b', 'q']
def gen_case(rng):
    n = rng.randint(1, 5)
    names = rng.sample(NAMES, n)
    flds = []
    for nm in names:
        kind = rng.choice(['req', 'req', 'dflt', 'fact'])
        flds.append((nm, kind))
    flds.sort(key=lambda x: x[1] != 'req')   # required first
    opts = {}
    if rng.random() < .5: opts['name_style'] = rng.choice(list(NameStyle))
    if rng.random() < .3: opts['trim_trailing_underscore'] = rng.random() < .5
    if rng.random() < .3: opts['skip'] = rng.sample(names, rng.randint(0, min(2, n)))
    if rng.random() < .2: opts['only'] = rng.sample(names, rng.randint(1, n))
    if rng.random() < .4: opts['omit_default'] = rng.choice([True, False, rng.sample(names, 1)])
    mp = {}
    for nm in names:
        if rng.random() < .35:
            mp[nm] = rng.choice(['K_' + nm, ('grp', ...), ('grp', 'sub', 'K2' + nm), ..., None, ('lst_' + nm, 0), ('w', ..., 'in')])
    if mp: opts['map'] = mp
    return flds, opts

def ref_paths(flds, opts):
    res = {}
    for nm, kind in flds:
        key = nm
        if opts.get('trim_trailing_underscore', True) and key.endswith('_') and not key.endswith('__'):
            key = key.rstrip('_')
        if opts.get('name_style') is not None:
            key = style_ref(key, opts['name_style'])
        if nm in opts.get('map', {}):
            r = opts['map'][nm]
            if r is None: path = None
            elif r is ...: path = (key,)
            elif isinstance(r, str): path = (r,)
            else: path = tuple(key if el is ... else el for el in r)
        else:
            path = (key,)
        if path is not None and (nm in opts.get('skip', []) or ('only' in opts and nm not in opts['only'])):
            path = None
        res[nm] = path
    return res
DFLT = {'dflt': 5}
def ref_dump(flds, opts, paths, values):
    out = {}
    od = opts.get('omit_default', False)
    for nm, kind in flds:
        p = paths[nm]
        if p is None: continue
        omit = (od is True or (isinstance(od, list) and nm in od)) and kind != 'req'
        v = values[nm]
        if omit and ((kind == 'dflt' and v == 5) or (kind == 'fact' and v == [])):
            continue
        cur = out
        for i, el in enumerate(p[:-1]):
            nxt = p[i + 1]
            if isinstance(el, int):
                while len(cur) <= el: cur.append(None)
                if cur[el] is None: cur[el] = [] if isinstance(nxt, int) else {}
                cur = cur[el]
            else:
                cur = cur.setdefault(el, [] if isinstance(nxt, int) else {})
        el = p[-1]
        if isinstance(el, int):
            while len(cur) <= el: cur.append(None)
            cur[el] = v
        else:
            cur[el] = v
    return out
def valid(paths, flds):
    ps = [p for p in paths.values() if p is not None]
    if len(set(ps)) != len(ps): return False
    for a in ps:
        for b in ps:
            if a != b and b[:len(a)] == a: return False
    return True
rng = random.Random(1)
stats = dict(n=0, invalid=0, refused_ok=0, dump_ok=0, load_ok=0, bad=[])
for it in range(3000):
    flds, opts = gen_case(rng)
    paths = ref_paths(flds, opts)
    dcf = [(nm, int) if k == 'req' else (nm, int, field(default=5)) if k == 'dflt' else (nm, List[int], field(default_factory=list)) for nm, k in flds]
    M = make_dataclass('M', dcf)
    if not valid(paths, flds): stats['invalid'] += 1; continue
    stats['n'] += 1
    values = {nm: (rng.choice([0, 5, 7]) if k != 'fact' else rng.choice([[], [1]])) for nm, k in flds}
    x = M(**values)
    try:
        nm_opts = dict(opts)
        r = Retort(recipe=[name_mapping(M, **nm_opts)], debug_trail=rng.choice(list(DebugTrail)))
        d = r.dump(x)
        exp = ref_dump(flds, opts, paths, values)
        if d != exp:
            stats['bad'].append(('dump', flds, opts, values, d, exp)); continue
        stats['dump_ok'] += 1
        req_skipped = [nm for nm, k in flds if k == 'req' and paths[nm] is None]
        opt_in_list = [nm for nm, k in flds if k != 'req' and paths[nm] is not None and isinstance(paths[nm][-1], int)]
        try:
            y = r.load(d, M)
        except ProviderNotFoundError as e:
            if req_skipped or opt_in_list: stats['refused_ok'] += 1
            else: stats['bad'].append(('load-refused', flds, opts, repr(e.__cause__)[:200]))
            continue
        if req_skipped or opt_in_list:
            stats['bad'].append(('load-not-refused', flds, opts)); continue
        expy = {nm: (values[nm] if paths[nm] is not None else (5 if k == 'dflt' else [])) for nm, k in flds}
        if {nm: getattr(y, nm) for nm, _ in flds} != expy:
            stats['bad'].append(('load', flds, opts, values, d, y)); continue
        stats['load_ok'] += 1
    except Exception as e:
        stats['bad'].append(('exc', type(e).__name__, str(e)[:100], repr(getattr(e, '__cause__', None))[:300], flds, opts))
print({k: (v if k != 'bad' else len(v)) for k, v in stats.items()})
seen = set()
for b in stats['bad']:
    k = (b[0], b[1] if b[0] == 'exc' else None)
    if k in seen: continue
    seen.add(k); print(str(b)[:900]); print()
