from typing import *
from decimal import Decimal
from fractions import Fraction
from enum import Enum, IntEnum
from collections import UserDict, OrderedDict, deque
from collections.abc import Sequence as ASeq, Set as ASet, MutableSet, Iterable as AIt, Collection, Reversible, MutableSequence
from types import MappingProxyType
from ipaddress import IPv4Address
from pathlib import Path, PurePosixPath
from adaptix import Retort
from adaptix.load_error import LoadError
s = Retort(); l = Retort(strict_coercion=False)
def t(label, f):
    try: r = f(); print(f"{label:55s} -> {r!r} :{type(r).__name__}")
    except LoadError as e: print(f"{label:55s} -> LoadError {type(e).__name__}")
    except Exception as e: print(f"{label:55s} -> !!! {type(e).__name__} {str(e)[:80]}")
class MyInt(int): pass
class MyStr(str): pass
class E(Enum):
    A = 1
    B = 'b'
class IE(IntEnum):
    X = 1
t("strict int True", lambda: s.load(True, int))
t("strict int MyInt(3)", lambda: s.load(MyInt(3), int))
t("strict int IE.X", lambda: s.load(IE.X, int))
t("strict float True", lambda: s.load(True, float))
t("strict float 3", lambda: s.load(3, float))
t("strict str MyStr", lambda: s.load(MyStr('q'), str))
t("strict Decimal 1.5", lambda: s.load(1.5, Decimal))
t("strict Decimal int", lambda: s.load(1, Decimal))
t("lax Decimal 1.5", lambda: l.load(1.5, Decimal))
t("lax int '5'", lambda: l.load('5', int)); t("lax int 5.7", lambda: l.load(5.7, int)); t("lax int None", lambda: l.load(None, int))
t("lax str None", lambda: l.load(None, str)); t("lax bool 'x'", lambda: l.load('x', bool)); t("lax bool []", lambda: l.load([], bool))
t("lax float '1e3'", lambda: l.load('1e3', float))
t("strict List[int] bytes", lambda: s.load(b'ab', List[int]))
t("strict List[str] MyStr", lambda: s.load(MyStr('ab'), List[str]))
t("strict List[str] str", lambda: s.load('ab', List[str]))
t("lax List[str] str", lambda: l.load('ab', List[str]))
t("lax List[str] dict", lambda: l.load({'a': 1}, List[str]))
t("strict List[int] UserDict", lambda: s.load(UserDict({1: 2}), List[int]))
t("strict List[int] MappingProxy", lambda: s.load(MappingProxyType({1: 2}), List[int]))
t("strict List[int] set", lambda: s.load({1}, List[int]))
t("strict List[int] int", lambda: s.load(5, List[int]))
for tp in [Iterable[int], Collection[int], Reversible[int], Sequence[int], MutableSequence[int], AbstractSet[int], MutableSet[int], FrozenSet[int], Set[int], Deque[int], Tuple[int, ...]]:
    t(f"{tp}", lambda: s.load([1, 2], tp))
t("dump Sequence", lambda: s.dump([1, 2], Sequence[int])); t("dump List", lambda: s.dump((1, 2), List[int])); t("dump Set", lambda: s.dump({1}, Set[int])); t("dump Deque", lambda: s.dump(deque([1]), Deque[int]))
class MyList(list): pass
t("dump MyList hint", lambda: s.dump([1], MyList[int]) if hasattr(MyList, '__class_getitem__') else None)
t("Dict UserDict", lambda: s.load(UserDict({'a': 1}), Dict[str, int]))
t("Dict list of pairs", lambda: s.load([('a', 1)], Dict[str, int]))
t("lax Dict list of pairs", lambda: l.load([('a', 1)], Dict[str, int]))
t("Mapping", lambda: s.load({'a': 1}, Mapping[str, int])); t("DefaultDict", lambda: s.load({'a': 1}, DefaultDict[str, int]))
t("OrderedDict", lambda: s.load({'a': 1}, OrderedDict[str, int]))
t("Enum exact 1", lambda: s.load(1, E)); t("Enum exact 1.0", lambda: s.load(1.0, E)); t("Enum exact True", lambda: s.load(True, E)); t("Enum E.A", lambda: s.load(E.A, E))
t("Lit strict True in [1]", lambda: s.load(True, Literal[1, 'a'])); t("Lit lax True in [1]", lambda: l.load(True, Literal[1, 'a'])); t("Lit strict 1.0 in [1,a]", lambda: s.load(1.0, Literal[1, 'a'])); t("Lit strict 2.0 in [2,a]", lambda: s.load(2.0, Literal[2, 'a']))
t("Lit enum", lambda: s.load(1, Literal[E.A, 'z'])); t("Lit enum dump", lambda: s.dump(E.A, Literal[E.A, 'z']))
t("IP int", lambda: s.load(5, IPv4Address)); t("Path PurePath", lambda: s.load(PurePosixPath('a'), Path))
t("PathLike", lambda: s.load('a/b', __import__('os').PathLike[str]))
class Bs: pass
class Ch(Bs): pass
class Oth: pass
t("Union dump subclass", lambda: s.dump(5, Union[int, str]))
t("Union dump bool→int", lambda: s.dump(True, Union[int, str]))
t("Union dump unlisted", lambda: s.dump(5.5, Union[int, str]))
t("Union dump Decimal|None", lambda: s.dump(Decimal(1), Optional[Decimal]))
t("Union load int|float 1", lambda: s.load(1, Union[int, float])); t("Union load float|int 1.0", lambda: s.load(1.0, Union[float, int]))
t("Tuple[int,str] list", lambda: s.load([1, 'a'], Tuple[int, str])); t("Tuple[int,str] set", lambda: s.load({1}, Tuple[int]))
t("Tuple[()] []", lambda: s.load([], Tuple[()])); t("bare tuple", lambda: s.load([1, 'a'], tuple)); t("bare list", lambda: s.load([1, 'a'], list)); t("bare dict", lambda: s.load({1: 'a'}, dict))
t("bare Sequence", lambda: s.load([1], Sequence)); t("bare typing.List", lambda: s.load([1], List)); t("bare Iterable", lambda: s.load([1], Iterable)); t("bare Mapping", lambda: s.load({1: 2}, Mapping))
NT = NewType('NT', int)
t("NewType", lambda: s.load(1, NT)); t("Annotated", lambda: s.load(1, Annotated[int, 'm'])); t("Final", lambda: s.load(1, Final[int]))
