import threading, sys
from dataclasses import dataclass, field
from typing import *
import adaptix
from adaptix import Retort, loader, dumper, Chain, P, name_mapping, CannotProvide
from adaptix._internal.retort import operating_retort as opr, request_bus as rb, routers
from adaptix._internal.provider.essential import CannotProvide

tl = threading.local()
def hstack():
    if not hasattr(tl, 'h'): tl.h = []; tl.f = []
    return tl.h
STATS = dict(routes=0, frames=0, viol=[])
ROUTER_ORIG = {}   # id(router) -> (router, orig list of (checker, wrapped handler))

class H:
    __slots__ = ('fn', 'idx', 'rkey')
    def __init__(self, fn, idx): self.fn = fn; self.idx = idx; self.rkey = None
    def __call__(self, mediator, request):
        st = hstack(); st.append(self)
        try:
            return self.fn(mediator, request)
        finally:
            st.pop()

orig_create = opr.OperatingRetort._create_router
def create_router(self, request_cls, checkers_and_handlers):
    wrapped = [(c, H(h, i)) for i, (c, h) in enumerate(checkers_and_handlers)]
    router = orig_create(self, request_cls, wrapped)
    for c, h in wrapped: h.rkey = id(router)
    ROUTER_ORIG[id(router)] = (router, wrapped)
    return router
opr.OperatingRetort._create_router = create_router

orig_send_inner = rb.BasicRequestBus._send_inner
def send_inner(self, request, search_offset):
    hstack()
    router = self._router
    if search_offset == 0:
        start = 0
    else:
        # chaining: the handler on top of the stack for this router
        top = next((h for h in reversed(tl.h) if h.rkey == id(router)), None)
        start = None if top is None else top.idx + 1
    tl.f.append({'router': router, 'pos': start, 'request': request})
    STATS['frames'] += 1
    try:
        return orig_send_inner(self, request, search_offset)
    finally:
        tl.f.pop()
rb.BasicRequestBus._send_inner = send_inner

def ref_next(router, mediator, request, pos):
    _, lst = ROUTER_ORIG[id(router)]
    for i in range(pos, len(lst)):
        if lst[i][0].check_request(mediator, request):
            return i
    return None

def wrap_route(cls):
    orig = cls.route_handler
    def route_handler(self, mediator, request, search_offset):
        frame = tl.f[-1] if getattr(tl, 'f', None) else None
        try:
            handler, nxt = orig(self, mediator, request, search_offset)
        except StopIteration:
            if frame is not None and frame['router'] is self and frame['pos'] is not None:
                exp = ref_next(self, mediator, request, frame['pos'])
                STATS['routes'] += 1
                if exp is not None:
                    STATS['viol'].append(('stop-but-match', exp, request))
            raise
        if frame is not None and frame['router'] is self and frame['pos'] is not None:
            exp = ref_next(self, mediator, request, frame['pos'])
            STATS['routes'] += 1
            if exp != handler.idx:
                STATS['viol'].append(('mismatch', exp, handler.idx, type(request).__name__, request.last_loc if hasattr(request,'last_loc') else None))
            frame['pos'] = handler.idx + 1
        return handler, nxt
    cls.route_handler = route_handler
wrap_route(routers.LocatedRequestRouter); wrap_route(routers.SimpleRouter)

@dataclass
class In:
    p: int
@dataclass
class M:
    a: int
    b: List[str]
    c: Optional[In] = None
    d: Dict[str, In] = field(default_factory=dict)

calls = []
def f(tag):
    def g(x): calls.append(tag); return x
    return g
r = Retort(recipe=[name_mapping(M, map={'a': 'A'})])
print(r.load({'A': 1, 'b': ['x'], 'c': {'p': 1}}, M), r.dump(M(1, ['x'])))
print('clean recipe:', STATS['routes'], STATS['frames'], STATS['viol'][:3])
STATS['viol'].clear()
r = Retort(recipe=[loader(int, f('A'), Chain.FIRST), loader(P.ANY & ~P[str], f('B'), Chain.FIRST)])
print(r.load({'a': 1, 'b': ['x']}, M), calls)
print('buggy recipe:', STATS['routes'], STATS['frames'], STATS['viol'][:3])
