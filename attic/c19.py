import keyword, builtins, sys
from dataclasses import make_dataclass, field, dataclass
from typing import *
from adaptix import Retort, name_mapping, DebugTrail, ExtraForbid
from adaptix.conversion import get_converter
from adaptix.load_error import LoadError
KEYS = ["'", '"', "\\", "\\'", '"""', "'''", "{", "}", "{0}", "{x}", "%s", "%(a)s", "$expr", "${expr}", "$", "$$", "\n", "\r\n", "a\nb", "\x00", " ", "#", "a#b", "]", "['x']", "data", "x]; import os; os.system('touch /var/tmp/probe/PWNED'); y=[", "__import__('os').system('touch /var/tmp/probe/PWNED')", "\\N{BULLET}", "\t", " ", "", "é", "\ud800", "f'{1}'", "`", ";", "pass", "None", "0", "1e3"]
IDS = ["data", "errors", "e", "value", "key", "getter", "sentinel", "extra", "packed_fields", "constructor", "result", "opt_fields", "has_unexpected_error", "known_keys", "required_keys", "model_identity", "ctx", "coercer", "self", "cls", "f_a", "r_a", "loader_a", "dumper_a", "dfl_a", "g_a", "a", "append_trail", "extend_trail", "TypeLoadError", "LoadError", "CompatExceptionGroup", "CollectionsMapping", "list", "dict", "type", "id", "set", "len", "print", "isinstance", "Exception", "KeyError", "object", "str", "int", "from_", "class_", "import_", "None_", "_", "__", "___", "_x", "__x", "x_", "x__", "__x__", "ñ", "ﬁ", "µ", "а", "data_1", "result_1", "extra_1", "sieve_1", "placeholder_1", "saturator", "extractor", "errors_", "known_keys_1", "value_", "x"*300]
bad = {}
n = 0
def rec(k, v):
    bad.setdefault(k, v)
# hostile keys, one at a time + all together
for dt in DebugTrail:
    for chunk in [KEYS[i:i+4] for i in range(0, len(KEYS), 4)]:
        fields = [(f"f{i}", int) for i in range(len(chunk))] + [("opt", int, field(default=7))]
        M = make_dataclass("M", fields)
        mp = {f"f{i}": k for i, k in enumerate(chunk)}
        mp['opt'] = ('nest', chunk[0], chunk[-1])
        try:
            r = Retort(debug_trail=dt, recipe=[name_mapping(M, map=mp, omit_default=True, extra_in=ExtraForbid())])
            x = M(*range(len(chunk)), opt=3)
            d = r.dump(x); y = r.load(d, M); n += 1
            exp = {k: i for i, k in enumerate(chunk)}; exp['nest'] = {chunk[0]: {chunk[-1]: 3}}
            if d != exp or y != x: rec(('keys', dt.name, tuple(chunk), 'mismatch'), (d, y))
            try:
                d2 = dict(d); d2[chunk[0]] = 'bad'; r.load(d2, M); rec(('keys', 'accepted bad'), chunk)
            except LoadError: pass
        except Exception as e:
            rec(('keys', type(e).__name__, str(e)[:80]), (dt.name, chunk))
# hostile field ids
for dt in DebugTrail:
    for chunk in [IDS[i:i+5] for i in range(0, len(IDS), 5)]:
        try:
            M = make_dataclass("M", [(c, int) for c in chunk] + [("zz_opt", List[int], field(default_factory=list))])
            D = make_dataclass("D", [(c, int) for c in chunk] + [("zz_opt", List[int], field(default_factory=list))])
        except Exception as e:
            rec(('mkdc', type(e).__name__, str(e)[:60]), chunk); continue
        try:
            r = Retort(debug_trail=dt, recipe=[name_mapping(M, omit_default=True, trim_trailing_underscore=False)])
            x = M(*range(len(chunk)))
            d = r.dump(x); y = r.load(d, M); n += 1
            vis = [c for c in chunk if not c.startswith('_')]
            if y != x and all(not c.startswith('_') for c in chunk): rec(('ids', dt.name, tuple(chunk), 'mismatch'), (d, y))
            if set(d) != set(vis): rec(('ids dump keys', dt.name, tuple(chunk)), d)
            c = get_converter(M, D); z = c(x)
            if [getattr(z, k) for k in chunk] != list(range(len(chunk))): rec(('conv', tuple(chunk)), z)
        except Exception as e:
            rec(('ids', type(e).__name__, str(e)[:100]), (dt.name, chunk))
import os
print('n', n, 'bad', len(bad), 'PWNED exists:', os.path.exists('/var/tmp/probe/PWNED'))
for k, v in list(bad.items())[:20]: print(k, str(v)[:200])
