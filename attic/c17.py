from dataclasses import dataclass, field
from typing import *
import attrs, pydantic
from sqlalchemy.orm import DeclarativeBase, Mapped, mapped_column
from sqlalchemy import JSON
from adaptix import Retort, name_mapping, DebugTrail, NameStyle
from adaptix.load_error import LoadError
from adaptix.conversion import get_converter
@dataclass
class DC:
    id: int
    name: str
    tags: List[str]
    score: Optional[float] = None
    kind_: str = 'k'
class NT(NamedTuple):
    id: int
    name: str
    tags: List[str]
    score: Optional[float] = None
    kind_: str = 'k'
class TD(TypedDict):
    id: int
    name: str
    tags: List[str]
    score: NotRequired[Optional[float]]
    kind_: NotRequired[str]
@attrs.define
class AT:
    id: int
    name: str
    tags: List[str]
    score: Optional[float] = None
    kind_: str = 'k'
class PD(pydantic.BaseModel):
    id: int
    name: str
    tags: List[str]
    score: Optional[float] = None
    kind_: str = 'k'
class Base(DeclarativeBase): pass
class SA(Base):
    __tablename__ = 'sa'
    id: Mapped[int] = mapped_column(primary_key=True)
    name: Mapped[str]
    tags: Mapped[List[str]] = mapped_column(JSON)
    score: Mapped[Optional[float]] = mapped_column(default=None)
    kind_: Mapped[str] = mapped_column(default='k')
def logical(o):
    if isinstance(o, dict): return dict(o)
    if isinstance(o, tuple): return o._asdict()
    return {k: getattr(o, k) for k in ['id', 'name', 'tags', 'score', 'kind_']}
def sig(e):
    from adaptix.struct_trail import get_trail
    return (type(e).__name__, tuple(get_trail(e)), tuple(sorted((sig(s) for s in getattr(e, 'exceptions', ())), key=repr)))
kinds = [DC, NT, TD, AT, PD, SA]
for rec_name, rec in [('plain', []), ('camel+map', [name_mapping(name_style=NameStyle.UPPER, map={'id': 'ID!', 'tags': ('t', 'g')})])]:
    for data in [{'id': 1, 'name': 'n', 'tags': ['a'], 'score': 1, 'kind_': 'z', 'kind': 'q', 'KIND': 'Q', 'ID!': 1, 'NAME': 'n', 'SCORE': 2, 't': {'g': ['a']}, 'TAGS': ['a']},
                 {'id': 's', 'name': 1, 'tags': [1], 'ID!': 's', 'NAME': 1, 't': {'g': [1]}}]:
        outs = []
        for K in kinds:
            r = Retort(recipe=rec)
            try:
                o = r.load(data, K)
                outs.append(('ok', logical(o), r.dump(o, K)))
            except LoadError as e:
                outs.append(('err', sig(e)))
            except Exception as e:
                outs.append(('EXC', type(e).__name__, str(e)[:200]))
        print(rec_name, 'all equal:', all(o == outs[0] for o in outs))
        if not all(o == outs[0] for o in outs):
            for K, o in zip(kinds, outs): print('   ', K.__name__, str(o)[:400])
for S in kinds:
    row = []
    for D in kinds:
        try:
            src = Retort().load({'id': 1, 'name': 'n', 'tags': ['a'], 'score': 2.0, 'kind_': 'z'}, S)
            row.append(logical(get_converter(S, D)(src)) == logical(src))
        except Exception as e:
            row.append(type(e).__name__)
    print(S.__name__, row)
