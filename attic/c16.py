from dataclasses import dataclass, field
from typing import *
import attrs
from adaptix import Retort
from adaptix.load_error import LoadError
T = TypeVar('T'); U = TypeVar('U'); V = TypeVar('V')
B = TypeVar('B', bound=int); C = TypeVar('C', str, bool)
def tryit(label, f):
    try:
        r = f(); print(f"[{label}] OK -> {r!r}")
    except LoadError as e:
        print(f"[{label}] LoadError {type(e).__name__}")
    except BaseException as e:
        print(f"[{label}] !!! {type(e).__name__}: {str(e)[:200]!r}")
r = Retort()
@dataclass
class G1(Generic[T, U]):
    a: T
    b: List[U]
@dataclass
class G2(G1[int, V], Generic[V, T]):   # reorder, shadow T
    c: Dict[str, T] = field(default_factory=dict)
@dataclass
class G3(G2[str, bool]):
    pass
@dataclass
class G4(G2[U, T], Generic[T, U]):
    a: str    # override
tryit("G1[int,str] ok", lambda: r.load({'a': 1, 'b': ['x']}, G1[int, str]))
tryit("G1[int,str] bad", lambda: r.load({'a': 'x', 'b': ['x']}, G1[int, str]))
tryit("G2[str,bool] ok", lambda: r.load({'a': 1, 'b': ['x'], 'c': {'k': True}}, G2[str, bool]))
tryit("G2[str,bool] bad c", lambda: r.load({'a': 1, 'b': ['x'], 'c': {'k': 'no'}}, G2[str, bool]))
tryit("G2[str,bool] bad b", lambda: r.load({'a': 1, 'b': [True], 'c': {}}, G2[str, bool]))
tryit("G3 ok", lambda: r.load({'a': 1, 'b': ['x'], 'c': {'k': True}}, G3))
tryit("G3 bad", lambda: r.load({'a': 'x', 'b': ['x'], 'c': {'k': True}}, G3))
tryit("G4[int,str] ok (a:str override, b:List[str]? c:Dict[str,int])", lambda: r.load({'a': 's', 'b': ['x'], 'c': {'k': 1}}, G4[int, str]))
tryit("G4[int,str] bad a int", lambda: r.load({'a': 1, 'b': ['x'], 'c': {'k': 1}}, G4[int, str]))
tryit("G4[int,str] bad b", lambda: r.load({'a': 's', 'b': [1], 'c': {'k': 1}}, G4[int, str]))
tryit("G4[int,str] bad c", lambda: r.load({'a': 's', 'b': ['x'], 'c': {'k': 's'}}, G4[int, str]))
@dataclass
class GB(Generic[B, C]):
    x: B
    y: C
tryit("GB bare ok", lambda: r.load({'x': 1, 'y': True}, GB))
tryit("GB bare bad x", lambda: r.load({'x': 's', 'y': True}, GB))
tryit("GB bare bad y", lambda: r.load({'x': 1, 'y': 1}, GB))
tryit("G1 bare any", lambda: r.load({'x': 1, 'a': object, 'b': [None]}, G1))
class NTG(NamedTuple, Generic[T]):
    a: T
    b: List[T] = []
tryit("NTG[int]", lambda: r.load({'a': 1, 'b': [2]}, NTG[int]))
tryit("NTG[int] bad", lambda: r.load({'a': 1, 'b': ['x']}, NTG[int]))
class TDG(TypedDict, Generic[T]):
    a: T
    b: NotRequired[List[T]]
tryit("TDG[int]", lambda: r.load({'a': 1, 'b': [2]}, TDG[int]))
tryit("TDG[int] bad", lambda: r.load({'a': 1, 'b': ['x']}, TDG[int]))
class TDG2(TDG[str]):
    c: int
tryit("TDG2", lambda: r.load({'a': 's', 'b': ['x'], 'c': 1}, TDG2))
tryit("TDG2 bad", lambda: r.load({'a': 1, 'b': ['x'], 'c': 1}, TDG2))
@attrs.define
class AG(Generic[T]):
    a: T
    b: Dict[str, T] = attrs.Factory(dict)
@attrs.define
class AG2(AG[int]):
    c: str = ''
tryit("AG[int]", lambda: r.load({'a': 1, 'b': {'k': 2}}, AG[int]))
tryit("AG2 bad", lambda: r.load({'a': 's'}, AG2))
tryit("dump G2[str,bool]", lambda: r.dump(G2(1, ['x'], {'k': True}), G2[str, bool]))
# diamond
@dataclass
class D0(Generic[T]):
    v: T
@dataclass
class DL(D0[T], Generic[T]):
    l: List[T] = field(default_factory=list)
@dataclass
class DR(D0[T], Generic[T]):
    r: Optional[T] = None
@dataclass
class DD(DL[int], DR[int]):
    pass
tryit("diamond ok", lambda: r.load({'v': 1, 'l': [2], 'r': 3}, DD))
tryit("diamond bad", lambda: r.load({'v': 's', 'l': [2], 'r': 3}, DD))
tryit("diamond bad r", lambda: r.load({'v': 1, 'l': [2], 'r': 's'}, DD))
