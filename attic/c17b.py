from typing import *
from dataclasses import dataclass
from adaptix.conversion import get_converter
import traceback
class TD(TypedDict):
    id: int
    score: NotRequired[Optional[float]]
@dataclass
class DC:
    id: int
    score: Optional[float] = None
try:
    c = get_converter(TD, DC)
    print(c({'id': 1, 'score': 2.0}))
    print(c({'id': 1}))
except Exception:
    traceback.print_exc()
class TD2(TypedDict):
    id: int
try:
    print(get_converter(TD2, DC)({'id': 1}))
except Exception as e:
    print(type(e).__name__, e)
