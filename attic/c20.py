from typing import *
from dataclasses import dataclass, field
from collections import defaultdict, OrderedDict
from adaptix import Retort, name_mapping, DebugTrail
from adaptix.load_error import LoadError
@dataclass
class M:
    a: int
    b: List[int] = field(default_factory=list)
    extra: dict = field(default_factory=dict)
    any_: Any = None
for dt in DebugTrail:
    d = defaultdict(lambda: 1, {'b': [1]})
    try: Retort(debug_trail=dt).load(d, M)
    except LoadError: pass
    print(dt.name, 'defaultdict after load:', dict(d))
r = Retort(recipe=[name_mapping(M, extra_in='extra', extra_out='extra')])
inp = {'a': 1, 'b': [1, 2], 'u': [9], 'any': [5]}
x1 = r.load(inp, M); x2 = r.load(inp, M)
print(x1, x1.b is x2.b, x1.extra is x2.extra, x1.extra['u'] is inp['u'], x1.any_ is inp['any'])
d1 = r.dump(x1); d2 = r.dump(x1)
print(d1, d1 is d2, d1['b'] is x1.b, d1['b'] is d2['b'], d1['u'] is x1.extra['u'])
x3 = r.load({'a': 1}, M); x4 = r.load({'a': 2}, M)
print('factory fresh', x3.b is not x4.b, x3.extra is not x4.extra)
