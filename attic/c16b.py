from typing import *
from adaptix import Retort
from adaptix.load_error import LoadError
T = TypeVar('T'); U = TypeVar('U')
r = Retort()
class N1(NamedTuple, Generic[T]):
    a: T
    b: int = 0
class N2(NamedTuple, Generic[T, U]):
    a: T
    b: U
for label, f in [("N1[int] load dict", lambda: r.load({'a': 1}, N1[int])), ("N1[int] load list", lambda: r.load([1, 2], N1[int])),
                 ("N1[int] dump", lambda: r.dump(N1(1, 2), N1[int])), ("N1 bare", lambda: r.load({'a': 1}, N1)), ("N1 bare dump", lambda: r.dump(N1(1, 2), N1)),
                 ("N2[int,str] load", lambda: r.load({'a': 1, 'b': 's'}, N2[int, str])), ("N2 dump", lambda: r.dump(N2(1, 's'), N2[int, str]))]:
    try: print(label, '->', f())
    except Exception as e: print(label, '!!', type(e).__name__, str(e)[:150])
