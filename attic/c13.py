from typing import *
from dataclasses import dataclass
import inspect
from adaptix import P
from adaptix.conversion import get_converter, impl_converter, link, link_constant, link_function, from_param, coercer, allow_unlinked_optional
@dataclass
class SI:
    v: int
    w: int
@dataclass
class S:
    a: int
    b: int
    c: int
    inner: SI
@dataclass
class DI:
    v: int
    w: int
@dataclass
class D:
    a: int
    b: int
    x: int
    inner: DI
def t(label, f):
    try: print(label, '->', f())
    except Exception as e: print(label, '!!', type(e).__name__, str(e)[:200])
s = S(1, 2, 3, SI(10, 20))
@impl_converter(recipe=[link(P[S].c, P[D].x)])
def c1(s: S, a: int, b: int, w: int) -> D: ...
t("params override top-level a,b; nested w untouched", lambda: c1(s, 100, 200, 300))
print(inspect.signature(c1), c1.__name__)
@impl_converter(recipe=[link(P[S].c, P[D].x), link(from_param('w'), P[DI].w)])
def c2(s: S, w: int) -> D: ...
t("from_param nested", lambda: c2(s, 300))
@impl_converter(recipe=[link('b', 'x'), link('c', 'x')])
def c3(s: S) -> D: ...
t("first link wins (b)", lambda: c3(s))
@impl_converter(recipe=[link_constant(P[D].x, value=7), link('c', 'x')])
def c4(s: S) -> D: ...
t("constant first", lambda: c4(s))
@impl_converter(recipe=[link('c', 'x'), link('c', 'a')])
def c5(s: S, a: int) -> D: ...
t("explicit link beats param for a", lambda: c5(s, 100))
@impl_converter(recipe=[link('c', 'x')])
def c6(s: S, a: int, a2: int = 5) -> D: ...
t("default param", lambda: c6(s, 100))
def fn(s: S, k: int, *, b: int) -> int: return s.a * 1000 + k * 10 + b
@impl_converter(recipe=[link_function(fn, P[D].x)])
def c7(s: S, k: int) -> D: ...
t("link_function", lambda: c7(s, 4))
@impl_converter(recipe=[link('x', 'x')])
def c8(s: S, x: str) -> D: ...
t("param type mismatch refused", lambda: c8(s, 'q'))
