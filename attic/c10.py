import itertools, re
from abc import ABC, abstractmethod
from typing import *
from dataclasses import dataclass
from types import MappingProxyType
from adaptix import P, create_loc_stack_checker
from adaptix._internal.provider.loc_stack_filtering import LocStack
from adaptix._internal.provider.location import TypeHintLoc, InputFieldLoc, OutputFieldLoc, GenericParamLoc
from adaptix._internal.model_tools.definitions import NoDefault, create_attr_accessor
from adaptix._internal.type_tools import normalize_type

class A: pass
class A1(A): pass
class Abs(ABC):
    @abstractmethod
    def f(self): ...
class Impl(Abs):
    def f(self): ...
@runtime_checkable
class Proto(Protocol):
    def g(self): ...
class PImpl:
    def g(self): ...
NT = NewType('NT', int)
TYPES = [A, A1, Abs, Impl, Proto, PImpl, int, str, List[int], List[str], list, NT, Optional[int]]
FIELDS = ['a', 'b', 'ab']
def locs():
    for t in TYPES:
        yield TypeHintLoc(type=t)
        yield GenericParamLoc(type=t, generic_pos=0)
        for f in FIELDS[:2]:
            yield InputFieldLoc(type=t, field_id=f, default=NoDefault(), metadata=MappingProxyType({}), is_required=True)
LOCS = list(locs())
STACKS = [LocStack(a) for a in LOCS] + [LocStack(a, b) for a in LOCS[::3] for b in LOCS[::2]]
print(len(LOCS), len(STACKS))

def origin(t):
    try: return normalize_type(t).origin
    except ValueError: return None
def atom_ref(pred, stack):
    last = stack.last
    if isinstance(pred, str):
        if not hasattr(last, 'field_id'): return False
        if pred.isidentifier(): return last.field_id == pred
        return re.fullmatch(pred, last.field_id) is not None
    # types
    if pred in (Abs, Proto):
        o = origin(last.type)
        try: return issubclass(o, pred)
        except TypeError: return False
    if pred in (List[int], Optional[int]):
        return normalize_type(last.type) == normalize_type(pred)
    return origin(last.type) == normalize_type(pred).origin
ATOMS = [A, A1, Abs, Proto, int, list, List, NT, List[int], Optional[int], 'a', 'ab', 'a.*', 'a|b']
bad = 0; n = 0
for at in ATOMS:
    try:
        ch = create_loc_stack_checker(at)
    except Exception as e:
        print('cannot create', at, repr(e)[:100]); continue
    for st in STACKS:
        n += 1
        got = ch.check_loc_stack(None, st)
        exp = atom_ref(at if at is not List else list, st)
        if got != exp:
            bad += 1
            if bad < 15: print('DIFF', at, st.last, got, exp)
print('atoms evals', n, 'bad', bad)
# identities over all stacks
def table(pred): 
    ch = create_loc_stack_checker(pred); return [ch.check_loc_stack(None, s) for s in STACKS]
print('P[n]==P.n', table(P['a']) == table(P.a), 'P[A]==A', table(P[A]) == table(A), 'P[A]+P.a==P[A].a', table(P[A] + P.a) == table(P[A].a), 'P[A,int]==P[A]|P[int]', table(P[A, int]) == table(P[A] | P[int]))
print('chain', sum(table(P[A].a)), sum(table(P[A].a[int])) , sum(table(~P[A])), sum(table(P[A] ^ P.a)), sum(table(P[A] & P.a)))
