import itertools, enum
from enum import Enum, IntEnum, Flag, IntFlag, auto
from typing import *
from adaptix import Retort, flag_by_member_names, flag_by_exact_value, enum_by_name, enum_by_value, enum_by_exact_value, NameStyle
from adaptix.load_error import LoadError
def mk_flag(name, members, base=Flag):
    return base(name, members)
classes = [
  mk_flag('F1', {'R': 1, 'W': 2, 'X': 4}),
  mk_flag('F2', {'R': 1, 'W': 2, 'X': 4, 'RW': 3, 'ALL': 7}),
  mk_flag('F3', {'R': 1, 'W': 2, 'RW': 3, 'WX': 6, 'X': 4}),
  mk_flag('F4', {'RW': 3, 'X': 4}),            # multi-bit only member
  mk_flag('F5', {'R': 1, 'W': 2, 'READ': 1}),  # alias
  mk_flag('F6', {'A': 1, 'B': 2, 'C': 4}, IntFlag),
  mk_flag('F7', {'lower_name': 1, 'Other_Name': 2}),
]
bad = {}
n = 0
for cls in classes:
    mask = 0
    for m in cls.__members__.values(): mask |= m.value
    combos = []
    for v in range(mask + 1):
        try: combos.append(cls(v))
        except ValueError: pass
    for single, dups, comp, style in itertools.product([False, True], [False, True], [False, True], [None, NameStyle.CAMEL, NameStyle.UPPER_SNAKE]):
        cfgs = [('names', flag_by_member_names(allow_single_value=single, allow_duplicates=dups, allow_compound=comp, name_style=style))]
        if not single and dups and comp and style is None:
            cfgs.append(('exact', flag_by_exact_value()))
        for cname, prov in cfgs:
            try:
                r = Retort(recipe=[prov])
                r.get_loader(cls); r.get_dumper(cls)
            except Exception as e:
                bad.setdefault((cls.__name__, cname, 'create', type(e).__name__, str(e)[:60]), (single, dups, comp, style)); continue
            for x in combos:
                n += 1
                try:
                    d = r.dump(x, cls); y = r.load(d, cls)
                    if y != x or type(y) is not type(x):
                        bad.setdefault((cls.__name__, cname, 'rt', repr(x), repr(d), repr(y)), (single, dups, comp, style))
                except Exception as e:
                    bad.setdefault((cls.__name__, cname, 'exc', repr(x), type(e).__name__, str(e)[:60]), (single, dups, comp, style))
print('evals', n, 'bad kinds', len(bad))
for k, v in list(bad.items())[:25]: print(k, v)

F4 = classes[3]
for v in [1, 2, 3, 4, 5, 7]:
    try: print('F4 exact load', v, Retort().load(v, F4))
    except LoadError as e: print('F4 exact load', v, 'LoadError', type(e).__name__)
    except Exception as e: print('F4 exact load', v, '!!!', type(e).__name__, e)
