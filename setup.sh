#!/bin/bash
# setup_cmd: offline. The framework is pure Python run by /venv/bin/python; nothing has to be built.
# icontract/deal (secondary contract monitors of the thorough tier) are installed beside the repository's
# interpreter into /verif/.deps when the offline wheelhouse is present; their absence only disables that leg.
cd "$(dirname "${BASH_SOURCE[0]}")"
mkdir -p .work evidence
if [ ! -d .deps/icontract ] && [ -d /opt/veriftools/wheels ]; then
  PIP_NO_INDEX=1 /venv/bin/pip install -q --no-index --find-links /opt/veriftools/wheels --target .deps icontract deal >/dev/null 2>&1 || true
fi
/venv/bin/python -B -c "import sys; sys.path.insert(0, '/repo/src'); import adaptix; print('adaptix', adaptix.__file__)"
